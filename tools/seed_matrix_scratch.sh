#!/bin/bash
# usage: seed_matrix_scratch.sh [jobs] [glob]   like seed_matrix.sh but on scratch copies of /repo HEAD (never touches /repo or
# /verif/evidence), <jobs> seeds in parallel (own cargo target dir each). Writes /verif/seeded/<id>/caught.json, prints the table.
J=${1:-4}; G=${2:-*}
cd /verif
ls -d seeded/$G/ | xargs -n1 basename > /tmp/matrix_ids.txt
one() {
  id=$1; slot=$2
  d=/verif/seeded/$id
  [ -f $d/patch.diff ] || exit 0
  export VERIF_SCRATCH_TARGET=/verif/build/target_matrix_$slot
  export VERIF_EVIDENCE_DIR=/tmp/matrix_evid_$slot; mkdir -p $VERIF_EVIDENCE_DIR
  if ! /verif/tools/facts_for_patch.sh $d/patch.diff /verif/build/fm_$id.json; then echo "$id: PATCH-DOES-NOT-APPLY-OR-BUILD"; exit 0; fi
  /verif/check all --facts /verif/build/fm_$id.json > /tmp/matrix_$id.log 2>&1
  rm -f /verif/build/fm_$id.json /verif/build/fm_$id.json.log
  python3 - "$id" <<'PY'
import sys, re, json
id=sys.argv[1]
txt=open('/tmp/matrix_%s.log'%id).read()
keys=re.findall(r'^\s+violation (\S.*)$', txt, re.M)
props=sorted(set(re.findall(r'VIOLATION property=(C\d+)', txt)))
json.dump({'seed':id,'properties_reporting':props,'violated_keys':keys}, open('/verif/seeded/%s/caught.json'%id,'w'), indent=1)
print('%-12s %s' % (id, ','.join(props) or 'MISSED'))
PY
}
export -f one
# slot = job number modulo J, one worker per slot reads its share
for s in $(seq 0 $((J-1))); do
  ( i=0; while read id; do if [ $((i % J)) -eq $s ]; then one $id $s; fi; i=$((i+1)); done < /tmp/matrix_ids.txt ) &
done
wait
