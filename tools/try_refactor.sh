#!/bin/bash
# usage: try_refactor.sh <tag> [pattern]   facts of /repo HEAD + each behaviour-preserving patch (scratch copy), ./check all on them,
# prints violated keys (none expected). /repo itself is not touched.
tag=$1; pat=${2:-*}
cd /verif
for d in /tmp/refac_$tag/$pat/; do s=$(basename $d)
  if ! tools/facts_for_patch.sh $d/patch.diff /verif/build/fr_$s.json; then echo "$s: PATCH-DOES-NOT-APPLY-OR-BUILD"; continue; fi
  ./check all --facts build/fr_$s.json > /tmp/tryr_$s.log 2>&1
  rm -f build/fr_$s.json build/fr_$s.json.log
  n=$(grep -c "^   violation" /tmp/tryr_$s.log)
  echo "$s: $n false alarm key(s)"; grep "^   violation" /tmp/tryr_$s.log | sed 's/^/      /'
done
