#!/bin/bash
# usage: try_refactor.sh <tag> [pattern]   applies each behaviour-preserving patch to /repo, runs ./check all, prints violated keys (none expected), reverts
tag=$1; pat=${2:-*}
cd /verif
for d in /tmp/refac_$tag/$pat/; do s=$(basename $d)
  if ! git -C /repo apply --check $d/patch.diff 2>/dev/null; then echo "$s: PATCH-DOES-NOT-APPLY"; continue; fi
  git -C /repo apply $d/patch.diff; ./check all > /tmp/tryr_$s.log 2>&1; git -C /repo checkout -- .
  n=$(grep -c "^   violation" /tmp/tryr_$s.log)
  echo "$s: $n false alarm key(s)"; grep "^   violation" /tmp/tryr_$s.log | sed 's/^/      /'
done
