#!/bin/bash
# usage: confirm_seed.sh <dir with patch.diff, demo_*.rs, meta.json> <seed id> [worktree]
# Confirms in a scratch worktree of /repo HEAD: demo passes without the change, fails with it, the
# unchanged suite (215) passes with it. On success copies the files into /verif/seeded/<seed id>/.
M="$1"; ID="$2"; WT="${3:-/tmp/wt_conf}"
cd "$WT" || exit 2
export CARGO_NET_OFFLINE=true
git checkout -q -- . ; rm -f tests/demo_*.rs
export CARGO_INCREMENTAL=0
fresh() { rm -rf target/debug/.fingerprint/ntex-mqtt-*; }
DEMO=$(ls "$M"/demo*.rs 2>/dev/null | head -1)
if [ -z "$DEMO" ] && [ -f "$M/demo.diff" ]; then
  # demonstration is a unit test added by demo.diff; its name is the last word of meta.demo_cmd
  DEMO="$M/demo.diff"
  NAME=$(python3 -c "import json,sys,re; c=json.load(open(sys.argv[1]))['demo_cmd']; print(re.findall(r'[A-Za-z0-9_:]+', c)[-1])" "$M/meta.json")
  git apply "$M/demo.diff" || { echo "$ID: demo.diff does not apply"; exit 1; }
  fresh; cargo test --offline --lib $NAME >/tmp/confirm_$ID.a 2>&1; A=$?
  grep -q "1 passed" /tmp/confirm_$ID.a || A=99
  git apply "$M/patch.diff" || { echo "$ID: patch does not apply"; git checkout -q -- .; exit 1; }
  fresh; cargo test --offline --lib $NAME >/tmp/confirm_$ID.b 2>&1; B=$?
  git checkout -q -- . ; git apply "$M/patch.diff"
else
[ -z "$DEMO" ] && { echo "$ID: no demo .rs file"; exit 1; }
NAME=$(basename "$DEMO" .rs)
cp "$DEMO" tests/$NAME.rs
fresh; cargo test --offline --test $NAME >/tmp/confirm_$ID.a 2>&1; A=$?
git apply "$M/patch.diff" || { echo "$ID: patch does not apply"; rm -f tests/$NAME.rs; exit 1; }
fresh; cargo test --offline --test $NAME >/tmp/confirm_$ID.b 2>&1; B=$?
rm -f tests/$NAME.rs
fi
fresh; cargo test --workspace --no-fail-fast --offline >/tmp/confirm_$ID.c 2>&1; C=$?
PASSED=$(grep -E "^test result" /tmp/confirm_$ID.c | awk '{p+=$4; f+=$6} END {print p":"f}')
git checkout -q -- .
rm -f target/debug/deps/demo_* target/debug/demo_*; rm -rf target/debug/incremental
echo "$ID: demo_without_change_rc=$A demo_with_change_rc=$B suite_with_change_rc=$C passed:failed=$PASSED"
if [ $A -eq 0 ] && [ $B -ne 0 ] && [ $C -eq 0 ] && [ "$PASSED" = "215:0" ]; then
  mkdir -p /verif/seeded/$ID && cp "$M/patch.diff" "$DEMO" "$M/meta.json" /verif/seeded/$ID/ && echo "$ID: CONFIRMED"
else
  echo "$ID: NOT CONFIRMED"
fi
