#!/bin/bash
# usage: confirm_seed.sh <worktree> <out/mN dir> <seed id>  -> prints CONFIRMED or reason; on success copies into /verif/seeded/<seed id>/
WT="$1"; M="$2"; ID="$3"
cd "$WT" || exit 2
export CARGO_NET_OFFLINE=true
git checkout -q -- src
DEMO=$(ls "$M"/*.rs 2>/dev/null | head -1)
[ -z "$DEMO" ] && { echo "$ID: no demo .rs file"; exit 1; }
NAME=$(basename "$DEMO" .rs)
rm -f tests/demo_*.rs
cp "$DEMO" tests/$NAME.rs
cargo test --offline --test $NAME >/tmp/confirm_$ID.a 2>&1; A=$?
git apply "$M/patch.diff" || { echo "$ID: patch does not apply"; exit 1; }
cargo test --offline --test $NAME >/tmp/confirm_$ID.b 2>&1; B=$?
rm -f tests/$NAME.rs
cargo test --workspace --no-fail-fast --offline >/tmp/confirm_$ID.c 2>&1; C=$?
PASSED=$(grep -E "^test result" /tmp/confirm_$ID.c | awk '{p+=$4; f+=$6} END {print p":"f}')
git checkout -q -- src
echo "$ID: demo_without_change_rc=$A demo_with_change_rc=$B suite_with_change_rc=$C passed:failed=$PASSED"
if [ $A -eq 0 ] && [ $B -ne 0 ] && [ $C -eq 0 ] && [ "$PASSED" = "215:0" ]; then
  mkdir -p /verif/seeded/$ID && cp "$M/patch.diff" "$DEMO" "$M/meta.json" /verif/seeded/$ID/ && echo "$ID: CONFIRMED"
else
  echo "$ID: NOT CONFIRMED"
fi
