#!/bin/bash
# usage: try_seeds_scratch.sh <tag> [pattern]  like process_batch.sh try, but on a scratch copy of /repo HEAD (does not touch /repo)
tag=$1; pat=${2:-*}
cd /verif
for d in /tmp/seeds_$tag/$pat/; do s=$(basename $d)
  if ! tools/facts_for_patch.sh $d/patch.diff /verif/build/fs_$s.json; then echo "$s: PATCH-DOES-NOT-APPLY-OR-BUILD"; continue; fi
  ./check all --facts build/fs_$s.json > /tmp/try_$s.log 2>&1
  rm -f build/fs_$s.json build/fs_$s.json.log
  props=$(grep -oE "VIOLATION property=C[0-9]+" /tmp/try_$s.log | sed 's/.*=//' | sort -u | tr '\n' ',')
  echo "$s: ${props:-MISSED}"
done
