#!/bin/bash
# Runs the repository's own test suite (guard off; there are no hooks) and prints a summary.
# Not part of any registered check: used when preparing fix: commits.
cd ${1:-/repo} && CARGO_NET_OFFLINE=true cargo test --workspace --no-fail-fast --offline 2>&1 | grep -E "^test result|FAILED|panicked|^error" | tee /tmp/baseline.out
awk '/^test result/ {p+=$4; f+=$6} END {print "passed=" p " failed=" f}' /tmp/baseline.out
