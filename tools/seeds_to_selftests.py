#!/usr/bin/env python3
"""Every confirmed seeded change becomes a thorough-tier mutant of each property check that reports it:
selftest/<prop>/seed-<id>.json applies seeded/<id>/patch.diff and expects the first recorded key."""
import json, glob, os
V = os.path.dirname(os.path.dirname(os.path.abspath(__file__)))
n = 0
for mp in sorted(glob.glob(os.path.join(V, 'seeded/*/meta.json'))):
    sid = os.path.basename(os.path.dirname(mp))
    m = json.load(open(mp))
    if not os.path.exists(os.path.join(V, 'seeded', sid, 'patch.diff')):
        continue
    for prop in m.get('checks_reporting', []):
        keys = [k for k in m.get('violated_keys', []) if k.startswith(prop + '.')]
        if not keys:
            continue
        key = keys[0].split(' ')[0] if False else keys[0]
        os.makedirs(os.path.join(V, 'selftest', prop), exist_ok=True)
        spec = {'id': 'seed-%s' % sid, 'property': prop, 'why': 'seeded change %s (written by a sub-agent that saw only the property text): %s' % (sid, (m.get('summary') or '')[:300]),
                'edits': [{'patch': 'seeded/%s/patch.diff' % sid}], 'expect': [key[:120]]}
        json.dump(spec, open(os.path.join(V, 'selftest', prop, 'seed-%s.json' % sid), 'w'), indent=1)
        n += 1
print(n, 'seed mutants written')
