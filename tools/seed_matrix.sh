#!/bin/bash
# For every seeded change: apply to /repo, run all checks once, record which properties/keys fire, revert.
# Writes /verif/seeded/<id>/caught.json ; prints a summary table.
cd /verif
for d in seeded/${1:-*}/; do
  id=$(basename $d)
  [ -f $d/patch.diff ] || continue
  if ! git -C /repo apply --check $PWD/$d/patch.diff 2>/dev/null; then echo "$id: PATCH-DOES-NOT-APPLY"; continue; fi
  git -C /repo apply $PWD/$d/patch.diff
  ./check all > /tmp/matrix_$id.log 2>&1
  git -C /repo checkout -- .
  python3 - "$id" <<'PY'
import sys, re, json
id=sys.argv[1]
txt=open('/tmp/matrix_%s.log'%id).read()
keys=re.findall(r'^\s+violation (\S.*)$', txt, re.M)
props=sorted(set(re.findall(r'VIOLATION property=(C\d+)', txt)))
json.dump({'seed':id,'properties_reporting':props,'violated_keys':keys}, open('/verif/seeded/%s/caught.json'%id,'w'), indent=1)
print('%-12s %s' % (id, ','.join(props) or 'MISSED'))
PY
done
