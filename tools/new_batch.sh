#!/bin/bash
# usage: new_batch.sh Cxx Cyy ...   creates /tmp/wt_n<xx> worktrees (private target copy) and prompt files
cd /tmp/wt_conf && git checkout -q -- . && rm -f tests/demo_*.rs target/debug/deps/demo_* target/debug/demo_*; rm -rf /tmp/wt_conf/target/debug/incremental
HEAD=$(git -C /repo rev-parse HEAD); git -C /tmp/wt_conf checkout -q --detach $HEAD 2>/dev/null
for p in "$@"; do
  n=${p#C}; wt=/tmp/wt_n$n
  git -C /repo worktree add --detach $wt HEAD -q && cp -a /tmp/wt_conf/target $wt/target && mkdir -p $wt/out
  python3 /verif/tools/agent_prompt.py $p $wt
done
df -h / | tail -1
