#!/bin/bash
# usage: [MODE=refactor] new_batch.sh Cxx Cyy ...   creates /tmp/wt_n<xx> (or wt_r<xx>) worktrees (private slim target copy) and prompt files
MODE=${MODE:-break}; pre=n; [ "$MODE" = refactor ] && pre=r
cd /tmp/wt_conf && git checkout -q -- . && rm -f tests/demo_*.rs target/debug/deps/demo_* target/debug/demo_*; rm -rf /tmp/wt_conf/target/debug/incremental /tmp/wt_conf/target/debug/examples
HEAD=$(git -C /repo rev-parse HEAD); git -C /tmp/wt_conf checkout -q --detach $HEAD 2>/dev/null
for p in "$@"; do
  n=${p#C}; wt=/tmp/wt_$pre$n
  git -C /repo worktree add --detach $wt HEAD -q && cp -a /tmp/wt_conf/target $wt/target && mkdir -p $wt/out
  python3 /verif/tools/agent_prompt.py $p $wt $MODE
done
df -h / | tail -1
