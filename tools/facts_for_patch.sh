#!/bin/bash
# usage: facts_for_patch.sh <patch.diff> <out.json>   facts of /repo with the patch applied (reverted afterwards)
git -C /repo apply "$1" || exit 1
/verif/rules/gen_facts.sh "$2" >/dev/null 2>&1; rc=$?
git -C /repo checkout -- .
exit $rc
