#!/bin/bash
# usage: facts_for_patch.sh <patch.diff|-> <out.json>   facts of /repo HEAD with the patch applied, built in a scratch copy
# (outside /repo and /verif, removed afterwards; own cargo target dir so that it can run next to other checks)
S=$(mktemp -d /tmp/ffp_XXXXXX)
git -C /repo archive HEAD | tar -x -C $S
if [ "$1" != "-" ]; then (cd $S && patch -p1 -s --no-backup-if-mismatch < "$1") || { rm -rf $S; exit 1; }; fi
VERIF_REPO=$S VERIF_TARGET_DIR=${VERIF_SCRATCH_TARGET:-/verif/build/target_scratch} /verif/rules/gen_facts.sh "$2" >/dev/null 2>&1; rc=$?
rm -rf $S
exit $rc
