#!/usr/bin/env python3
"""Assemble DESIGN.md = docs/design_head.md + generated section 5 + docs/design_tail.md.
Section 5 is generated from the rule modules' docstrings, the evidence files, the CLAIMS notes,
selftest/ and seeded/*/meta.json (run ./check all first so that evidence is current)."""
import json, glob, os, sys, importlib
V = os.path.dirname(os.path.dirname(os.path.abspath(__file__)))
sys.path.insert(0, os.path.join(V, 'rules')); sys.path.insert(0, os.path.join(V, 'tools'))
import mkmanifest
props = {}
for l in open(os.path.join(V, 'properties.jsonl')):
    d = json.loads(l); props[d['id']] = d
kf = json.load(open(os.path.join(V, 'known_findings.json')))
seeds = {}
for mp in sorted(glob.glob(os.path.join(V, 'seeded/*/meta.json'))):
    m = json.load(open(mp)); sid = os.path.basename(os.path.dirname(mp))
    for p in m.get('checks_reporting', []):
        seeds.setdefault(p, []).append(sid)
out = []
for pid in sorted(props):
    ev = json.load(open(os.path.join(V, 'evidence/%s.json' % pid)))
    mod = importlib.import_module(pid.lower())
    doc = ' '.join((mod.__doc__ or '').split())
    rules = ev['coverage']['rules']
    st = sorted(os.path.basename(x)[:-5] for x in glob.glob(os.path.join(V, 'selftest/%s/*.json' % pid)))
    kfs = sorted({f.get('id', '?') for f in kf['findings'] if f['property'] == pid})
    out.append('### %s — %s\n' % (pid, props[pid]['title']))
    out.append('**Decided** (`rules/%s.py`; %d obligations on the current tree; rules %s). %s\n' % (pid.lower(), ev['coverage']['obligations'], ', '.join('`%s`' % r for r in rules), doc))
    out.append('**Not decided.** %s\n' % mkmanifest.CLAIMS[pid]['note'])
    out.append('**Self-test mutants** (thorough tier, `selftest/%s/`): %s.\n' % (pid, ', '.join(st) or 'none'))
    out.append('**Seeded changes this check reports:** %s.%s\n' % (', '.join(seeds.get(pid, [])) or 'none', (' **Known findings printed:** %s.' % ', '.join(kfs)) if kfs else ''))
intro = ('## 5. The properties\n\nEach entry: what is decided (the rule module\'s own description, also written into the evidence file), what is not, '
         'the self-test mutants, and which seeded changes the check reports. Rule keys in reports look like '
         '`C09.size-terms|<v5::pubacks::PublishAck>::encode|emitted==encoded_size`.\n\n')
open(os.path.join(V, 'DESIGN.md'), 'w').write(open(os.path.join(V, 'docs/design_head.md')).read() + '\n' + intro + '\n'.join(out) + '\n' + open(os.path.join(V, 'docs/design_tail.md')).read())
print('DESIGN.md written')
