#!/usr/bin/env python3
"""Regenerates /verif/MANIFEST.json from the table below (kept in one place so the manifest is
always schema-valid and the not_applicable list is always the complement of the claimed set)."""
import json, os

V = '/verif'
props = [json.loads(l)['id'] for l in open(V + '/properties.jsonl')]

COMMON_NOTE = ('Trusted base: rustc nightly MIR at mir_promoted (opt-level 0, overflow checks), the rule code in /verif/rules (including the normalisation of rules/inline.py: '
               'functions that do not exist on the pinned tree are spliced into their callers, constant returns are threaded, combinators over new closures are expanded; and of rules/canon.py: '
               'renamed private fields / functions are mapped back to the pinned names by type, signature and structure), the spec tables '
               'in /verif/spec, the extern-effect summaries of ntex-io/ntex-bytes/ntex-util/std calls. cfg(test) code is not analysed. Rules fail closed (anchor-lost) when an anchored '
               'function disappears (a pure rename is recognised), or an enumeration becomes vacuous; an expression a secondary lemma cannot interpret is reported as undecided (counted in the evidence), not as a violation. ')

CLAIMS = {
    'C06': dict(
        technique='MIR dominator/edge-dominance rules + enumerated match tables (static analysis)',
        text='Static necessary conditions on every path of the compiled program: each completion of a waiting sender in pkt_ack_inner is dominated by the id-equality and '
             'ack-type edges; Ack::is_match is the diagonal (table enumerated from MIR); registered AckType matches the result conversion of each sink API; enqueue only '
             'for free ids, id released on every final-ack exit, next_id cell invariant; pkt_ack errors close and are propagated by every dispatcher arm; no orphan queue '
             'entry / sticky streaming state after a failed encode. Decides code shape, not runtime ack histories.',
        note='Not decided: contents of the returned acknowledgement, id wrap-around histories as such (only the cell invariant), liveness.',
        ref='DESIGN.md section 5 C06'),
    'C09': dict(
        technique='symbolic size/emission equivalence of every (encoded_size, encode) pair by path enumeration over MIR (linear forms over length atoms) + CFG sibling rules for the limit-dependent helpers + extraction-and-boundary-evaluation of the varint tables + must-pass/dominance rules on the codec (static analysis)',
        text='Structural part. For all 30 (size function, emitter) pairs (every Encode/EncodeLtd impl, the property helpers, ack_props, the v3 functions) the returned size and the bytes '
             'appended on every success path are extracted from MIR as linear forms over len()/value/varint-length atoms (loops and folds summarised per item) and are equal in every '
             'consistent combination of branch conditions over the packet fields; frame-level emitters write type byte + Remaining Length taken from the size argument + exactly size bytes '
             '(PUBLISH: minus the payload appended by the codec); sizes handed to nested limited encoders equal the nested computed size; unsigned subtractions on success paths are '
             'non-negative forms. The two optional-property walkers agree (same per-item size, first property that does not fit ends the walk, whole properties, exact reason-string '
             'decision). var_int_len tables / var_int_len_from_size / write_variable_length agree at all 1..4-byte boundaries. Both codecs pass encoded_size of the same packet as size, '
             'compare it with the limit first and fail with OverMaxPacketSize before any write; the limit only reaches reduce_limit and the diagnostics sizers, whose budget is the limit '
             'minus everything else; subtractions involving the limit are guarded. Under NO_PROBLEM_INFO only reason_string/user properties are cleared, for all six acknowledgement types, '
             'and the flag is !CONNECT.request_problem_info. Builder size() functions use the codec size functions. failed-encode-appends-nothing = C08.validate-before-write instances.'
             ' Flag stores of the v5 codec other than the CONNECT decoder only insert/remove single named flags on the value read (NO_PROBLEM_INFO survives the capability setters).',
        note='Not decided: equality of written bytes and size for concrete values beyond what the symbolic forms imply (the atoms abstract string contents), overflow of usize sums of '
             'in-memory lengths, behaviour of dependencies (BytePages). Known findings D8 (error after partial write) and D23 (limits 1..=5 keep no header allowance).',
        ref='DESIGN.md section 5 C09'),
    'C10': dict(
        technique='typestate/CFG rules on both decoders + path extraction of the payload arms evaluated as expressions over small integer domains + dominance rules on the dispatcher arms (static analysis on MIR)',
        text='Structural part. In both Codec::decode bodies every consuming call on the receive buffer is followed by state.set on every non-error exit and on the loop back-edge, and '
             'no Ok(None) exit is reachable after a consumption without it; the DecodeState transition relation extracted from the arms equals the framing automaton and '
             'PayloadChunk/Publish/Packet items are only built in their arms; a new codec starts in FrameHeader. The paths of the PublishPayload arm and of the arm that announces a PUBLISH '
             'are extracted (conditions, buffer calls, stored state, returned item) and evaluated for all combinations of buffered 0..9, owed 0..8, header 0..3, min_chunk_size 0..5: exactly '
             'one outcome, no panic, piece == bytes consumed <= min(buffered, owed) (no byte of the next packet), eof/FrameHeader exactly when nothing remains else PublishPayload(owed - piece), '
             'no non-final non-empty piece below the minimum, a piece whenever the rest is buffered, no empty chunk, announced size = Remaining Length, declared payload = Remaining Length - header. '
             'In all four dispatchers the chunk reaches feed_data unmodified, feed_eof exactly on the eof edge, sender restored exactly otherwise, no suspension point between take and feed; '
             'Publish arms stream exactly when announced size != first piece and install the sender before their first await.'
             ' Payload::read_all returns Ok only after an awaited read() reported the end of the stream.',
        note='Not decided: the item sequence for every cut set of a concrete byte stream and every reader pace (needs execution), the Payload/PlSender buffering itself (dependency-free but '
             'value-level), fragmentation independence of non-PUBLISH packets beyond the need-more-data discipline above.',
        ref='DESIGN.md section 5 C10'),
    'C11': dict(
        technique='MIR pairing / must-pass-through rules on the in-flight id set (static analysis)',
        text='Static pairing rules over the four dispatchers: insert of the packet id dominates every handler/control invocation (or the packet has no id); the '
             'duplicate edge reaches no handler and produces the version-specific refusal (constants compared by value); each final acknowledgement built locally is '
             'paired with a remove of the id, a QoS 2 PUBREC is not, removes happen only after the handler future completed; v5 control_pkt receives the request id for '
             'SUBSCRIBE/UNSUBSCRIBE/PUBREL; PUBREL consults the set and the unknown-id edge never reaches the control service.',
        note='Not decided: id histories as such (reuse after acknowledgement follows from the pairing, not from executing histories).',
        ref='DESIGN.md section 5 C11'),
    'C16': dict(
        technique='MIR panic-site enumeration over the peer-driven call graph + reviewed justification table + guard prover (static analysis)',
        text='Decides the panic half: every panic-capable MIR site (panic!/unreachable!/assert!, unwrap/expect, Index, overflow asserts) reachable from the peer-driven entry '
             'points is enumerated and must be auto-proven (dominating comparison guard, constant operand), discharged by a named structural rule that is re-checked on every '
             'run (C06 type/conversion pairing, PayloadChunk origin in the decoder state machine, Stop(Some) typestate, next_id invariant, router index registration), or '
             'match a reviewed table entry (API precondition / assumed invariant with a reason); anything else is reported. No RefCell guard alive across an await in any of '
             'the 138 coroutines; the four PayloadChunk arms agree (absent sender => UnexpectedPayload).',
        note='Not decided: "never stops making progress" (liveness). Table entries classed ASSUMED/API-PRECONDITION are trusted with their stated reason and echoed in the evidence. '
             'A new, correct but unprovable panic-capable site on a peer-driven path is reported until reviewed (conservative side).',
        ref='DESIGN.md section 5 C16'),
    'C01': dict(
        technique='table and schema agreement: constants and enum discriminants vs transcribed OASIS tables, property-loop extraction (decode) and emission-event extraction (encode) cross-checked per identifier and field, first-byte/flag expressions extracted and evaluated over all flag combinations; imports the C09 symbolic size/emission equivalence and the C02 frame-exhaustion dataflow (static analysis on MIR)',
        text='Structural part. Packet type bytes, the 27 property identifiers and all reason/return-code enums equal the specification tables in both directions; enum<->u8 conversions are the '
             'discriminant. For each of the 14/13 packet variants the encoder writes the specified type+flags byte and the decoder maps it back to the same variant; the PUBLISH first-byte '
             'expression and the decoders\' dup/qos/retain expressions round-trip for all 12 combinations. Every decoder property loop accepts exactly the identifiers allowed in its packet with '
             'the specified wire type and repeatability; every emitted property is allowed in its packet, has a field of the specified wire type, every allowed property can be emitted, and each '
             'identifier is decoded into the very field it is encoded from (52 pairs); for 18 packet types the sequences of wire tokens of encoder and decoder (type and field per position, loops, property blocks) are equal and follow the transcribed layout of the specification. Imported: every encoder writes exactly what its size function counts and length prefixes have the right '
             'width (C09), decoders accept a frame only after reading all of it (C02).',
        note='Not decided: equality of concrete field values after a round trip (string contents, numeric values), which same-typed fixed field sits at which position relative to the specification (types and order are compared with the transcribed layout, field names only between encoder and decoder), '
             'acceptance of every legal property ORDER (follows from the loop shape but is not separately proven), an independent spec encoder/decoder. Spec tables are hand transcriptions.',
        ref='DESIGN.md section 5 C01'),
    'C02': dict(
        technique='panic-site enumeration over the decoders\' call graph + available-bytes must-dataflow + varint path enumeration + must-pass rule for the inbound size limit + property-loop extraction (static analysis on MIR)',
        text='Structural part: every panic-capable MIR site (Buf get_*/advance/split_to, overflow and bounds asserts, slicing, unwrap/expect) reachable from the three Decoder::decode '
             'roots is enumerated; Buf reads are proven in bounds by a forward available-bytes dataflow from the dominating remaining()/len() guards, additions by width reasoning, '
             'every remaining site must match a reviewed table entry (count-limited). The variable-byte-integer decoders read at most four bytes and return at most 0x0FFF_FFFF on '
             'every enumerated path. In both codecs no consumption or state change of the FrameHeader arm is reachable without the comparison against the configured inbound maximum, '
             'and from its over-size edge only the MaxSizeExceeded error is reachable. All MQTT 5 property loops end their fall-through arm in Err and guard once-only properties; '
             'no transmute / unchecked UTF-8 constructor is reachable from a decoder; only the two Codec::decode bodies consume from the receive buffer.',
        note='Not decided: termination of the decode loop for all inputs, re-encode stability of every accepted packet, fragmentation independence (C10), and full spec '
             'conformance of what is accepted (C01 covers the tables). Table entries are reviewed reasons, not machine proofs; each carries a maximum count.',
        ref='DESIGN.md section 5 C02'),
    'C03': dict(
        technique='MIR path enumeration with branch conditions over publish_fn + who-constructs/who-writes rules (static analysis)',
        text='Every return path of the four publish_fn coroutines is enumerated from MIR with its branch conditions: an ack is built only where the handler future completed '
             'with Ok (v5 server: or try_ack mapped the error), PUBREC iff the QoS-2 test was true, PUBACK iff false, nothing without an id, a failing handler ends in Err; '
             'the handler is invoked at one site outside any loop; PUBCOMP is constructed only in the PUBREL answer paths; dispatcher bodies write to the wire only through '
             'their return value or the enumerated duplicate-id negative acks; the decoded PUBLISH reaches the handler unmodified (v5: alias resolution of topic only).'
             ' Acknowledgements for a PUBLISH are built only in publish_fn (after the handler) or as the reviewed v5 duplicate-id negative ack / the control service\'s PublishAck answer; a handler error converted with try_ack must write that negative acknowledgement.',
        note='Not decided: exactly-once across schedules (reduced to one future per request + one handler call per future + C04 queueing), payload byte equality (C10). '
             'Known finding D18 (client role acknowledges QoS 2 with PUBACK) is listed in known_findings.json.',
        ref='DESIGN.md section 5 C03'),
    'C07': dict(
        technique='MIR typestate / region rules over IoDispatcherState + teardown pairing (static analysis)',
        text='Typestate rules over the io dispatcher, all paths: every control call carrying Control::Stop enters the Stop state (stop() or st = Stop(Some(fut))), occurs only in '
             'the Processing/Backpressure regions or poll_service, no second stop() is reachable before the state is re-examined, poll_service paths that stopped return Continue, '
             'late states never call the control service and only move forward; failure sources map to the right Control constructor (11 sites, table by enum variant); the '
             'stopping condition is notified only in Shutdown, which is entered only on the Ready edge of the control future; every dispatcher shutdown and every '
             'Control::Stop arm reaches clear_queues/drop_payload on all paths; clear_queues clears waiters and in-flight entries; Stop always holds Some(fut); handle_timeout has '
             'no unchecked arithmetic.'
             ' shutdown() fails the very payload slot the PayloadChunk arm feeds.',
        note='Not decided: that futures actually resolve and the task completes (liveness), byte-offset fault sequences. queue[idx] is assumed (C04 runtime-integer invariant).',
        ref='DESIGN.md section 5 C07'),
    'C15': dict(
        technique='who-constructs enumeration + edge-dominance on the test-and-set flag + MIR-extracted reason-code tables (static analysis)',
        text='All DISCONNECT construction sites outside the codec are enumerated (reviewed list, a new site is reported); every live emission (MqttShared::close, the '
             'packet-carrying returns of the default control service, control_pkt Pkt::Disconnect) is dominated by the false edge of is_disconnect_sent(); handler answers that '
             'may carry DISCONNECT are built with disconnect=true and control_pkt shuts the io down before returning them; the peer-DISCONNECT arm records the receipt and '
             'performs the test-and-set before the control call; the control service forwards a user packet only on paths where is_disconnect_recv() was false or a '
             'protocol error is reported (paths enumerated with conditions); close() closes the io after writing; cause->code tables extracted from MIR match MQTT 5 '
             '(0x8D, 0x95, 0x93, 0x9B, 0x9A, 0xA1, 0x94) and no error path uses 0x00/0x04.',
        note='Not decided: combinations of initiators in time (the flag is a runtime bit; what is decided is that no path forgets to consult it). Assumes ntex-io refuses '
             'writes once shutdown started (confirmed by experiment in round 0).',
        ref='DESIGN.md section 5 C15'),
    'C08': dict(
        technique='who-may-write enumeration + interprocedural write/fail ordering over the encoder call graph (static analysis)',
        text='All 23 IoRef::encode sites are enumerated and classified: payload chunk, dominated by the Ok edge of check_streaming(), handshake write, or Encoded::Packet '
             'relying on the codec refusing packets while a payload is owed (that codec guard is itself checked by edge dominance in both Codec::encodev); Encoded::Publish / '
             'PayloadChunk are constructed only in shared.rs; in the call graph of both encodev functions no function can fail after its own write and no failing function is '
             'entered after a caller wrote (fixpoint over may-write / may-fail summaries); stream accounting: over-delivery force-closes without writing, the counter is '
             'decreased by the written length, a dropped unfinished stream always aborts, the codec refuses chunks beyond what is owed.'
             ' A streamed PUBLISH header is written only on the is_canceled()==false edge of the stream handle with no suspension point in between; an error source is discharged when every caller reports the same error before its first write or only ever passes constants.',
        note='Not decided: the parse of the actual byte stream. Known findings D8 (validation after write, 7 keys) are listed in known_findings.json. Assumes IoRef::encode '
             'calls Encoder::encodev of the given codec and has no rollback.',
        ref='DESIGN.md section 5 C08'),
    'C17': dict(
        technique='MIR region / avoidance-path rules on the alias map + origin tracing of the enforced maximum (static analysis)',
        text='In both v5 dispatchers: the alias lookup is on the empty-topic edge with the publish alias as key; the bound edge writes the stored topic into the packet before '
             'the handler message is built, the unbound edge ends in violation(TopicAliasInvalid) and reaches no handler; from the topic+alias edge the handler message is '
             'unreachable without a store into the map unless the stored topic compared equal (avoidance-path query); a new binding is dominated by alias <= maximum and the '
             'maximum originates from the negotiated value; alias maps are constructed empty per dispatcher / per router session, no statics, no Rc sharing; the router matches '
             'non-empty topics with recognize(topic) and uses its cache only for empty topics.',
        note='Not decided: rebinding sequences as such. Known finding D12 (client enforces literal 16) is listed in known_findings.json.',
        ref='DESIGN.md section 5 C17'),
    'C12': dict(
        technique='expression extraction from MIR + exhaustive small-state lemma check over the extracted formulas; edge-dominance gate rules (static analysis)',
        text='The arithmetic/Boolean expressions of Counter::{is_available}, CounterInner::{inc,dec,available} are extracted from MIR (path enumeration) and three lemmas are '
             'checked over all 5^5 small states of the extracted formulas (dec that makes capacity available wakes the waiter; is_available == available; inc/dec symmetric, '
             'guard drop passes the stored size); ready() cannot report readiness without awaiting capacity unless a streamed publish is in progress or capacity is available; '
             'call() holds the guard across the inner call; the streaming flag is only set for PUBLISH and never cleared on a chunk request; both v5 dispatchers test '
             'inflight.len() >= negotiated Receive Maximum before reserving, refuse with Pub_3_3_4_7/_9 (0x93) without reserving; limit origins and middleware wiring.',
        note='Not decided: maximum overlap under every interleaving; that reading resumes (waker delivery is liveness). Known finding D2 (SUBSCRIBE/UNSUBSCRIBE ids counted '
             'against Receive Maximum) is listed in known_findings.json.',
        ref='DESIGN.md section 5 C12'),
    'C05': dict(
        technique='who-may-write + dominance gating rules + await-between-check-and-act rule on coroutine MIR + origin tracing of set_cap (static analysis)',
        text='Only the three wait_* functions and the PUBREC re-queue extend the outstanding queue; every sink path to an enqueue is dominated (up to three caller levels) by '
             'wait_readiness()/is_ready(); for each awaiting send path the rule looks for an await of the parked waiter between the readiness decision and the enqueue and '
             'accepts it only if the window is re-evaluated afterwards or the wakers update a field the predicate reads (reservation); the argument of set_cap derives from '
             'the negotiated fields (v5 server: cmp::min of max_send and the peer Receive Maximum).'
             ' Entries leave the outstanding queue only in pkt_ack_inner, cancel_response and clear_queues; the number of senders released when back-pressure lifts is bounded by the free slots.',
        note='Not decided: the count at every instant for every interleaving. The check-then-act rule fails on all ten awaiting send paths (known finding D20, one key per API).',
        ref='DESIGN.md section 5 C05'),
    'C13': dict(
        technique='MIR rules on wake sites: result-tested / retry-on-cancel, all-exits-wake for window-opening functions, ordering w.r.t. awaits (static analysis)',
        text='Necessary conditions for no lost wake-up, all paths: every wake of a parked sender has its result tested and a cancelled waiter is skipped (pop reachable again '
             'from the Err edge); every function that can open the window (pops the outstanding queue without re-queueing, sets cap, clears WRB_ENABLED) passes a waiter wake '
             'loop / window test on every normal exit; bulk wake-ups are bounded by the free slots; a payload stream is parked only under back-pressure, signalled when it lifts '
             'and dropped by clear_queues; the back-pressure flag is toggled before the application control service is awaited; the parked object must hand on a wake-up when '
             'dropped (baton).',
        note='Not decided: that every future eventually completes (executor fairness, waker delivery). Known finding D10 (no baton: bare Receiver<()>) is listed in known_findings.json.',
        ref='DESIGN.md section 5 C13'),
    'C14': dict(
        technique='data-dependence (origin) rules on the PUBCOMP hand-off + Option-take typestate on the receipt (static analysis)',
        text='The receiver returned by release_publish is removed from a container keyed by the packet id argument; the PUBREC branch stores the receiver without '
             'overwriting another exchange\'s entry and keeps the id reserved; the PUBCOMP branch removes only the acknowledged id; release_publish writes exactly one '
             'PublishRelease carrying its argument; Drop for PublishReceived releases iff the Option was not taken, release(self) consumes the receipt and takes the Option '
             'before releasing; the PUBREC branch re-queues (same id, AckType::Complete).',
        note='Not decided: all delivery orders (the checked clauses are order independent).',
        ref='DESIGN.md section 5 C14'),
    'C19': dict(
        technique='MIR dominance rules on the handshake gate, routing table extraction, origin tracing of every negotiated limit to its enforcing setter (static analysis)',
        text='Gate: handler/control services and the dispatcher are created only on the Ok edge of the handshake; a session is returned only from the CONNECT arm on the '
             'ack.session==Some edge, every other first packet ends in Err, the refusing CONNACK precedes the Err, one packet is read. Routing: MQTT3->handlers.0, '
             'MQTT5->handlers.1 on all four invocation sites, detection = one peek + retrying recv under a deadline, VersionCodec level table {4,5} by value, rejects others, '
             'consumes nothing; each CONNECT decoder refuses the other level. Limits: each negotiated value (max QoS, receive maximum, topic alias maximum, inbound/outbound '
             'maximum packet size, send window, keep-alive and announced keep-alive) is traced from its source field to the setter/constructor that enforces it, and the '
             'PUBLISH arms consult those values.'
             ' v5 max_qos()/set_max_qos(): setter sequences and getter decision list extracted and evaluated for every previous flag state x value.',
        note='Not decided: behaviour for every fragmentation of the first 16 bytes (reduced to the no-consume and retrying-recv rules), the numeric 1.5 factor (only dependence on '
             'CONNECT.keep_alive), behaviour when each limit is probed. The client topic-alias literal (D12) is reported under C17.',
        ref='DESIGN.md section 5 C19'),
    'C18': dict(
        technique='automaton extraction from MIR + product-construction equivalence with a spec DFA; extracted match tables checked exhaustively over level kinds (static analysis)',
        text='The byte automaton of topic::is_valid (PrevState x {+,#,/,other}) is extracted from MIR and proved equivalent to the MQTT 4.7.1 validity automaton '
             '(spec/topic_filter_dfa.json) by product construction over all strings (no length bound), incl. empty-string rejection and accept-at-end; SUBSCRIBE/UNSUBSCRIBE arms '
             'apply it to every filter and map false to Subs_4_7_1 without reaching a handler; the per-level tables of the string MatchLevel impl and of match_level_impl are '
             'extracted and compared with 4.7 over all (filter kind, topic kind, index==0, string equality) cases; match_topic\'s end-of-topic rule (only None or # succeed); '
             'the filter-vs-filter relation is monotone w.r.t. the string relation over all kind combinations; every parameter of match_level_impl is used.'
             ' TopicFilterLevel::is_valid refuses + and # inside every text-carrying level variant.'
             ' One iteration of match_topic is extracted as a table (topic has a level / exhausted x next filter level kind x level test) and compared with 4.7; the per-level classifier '
             'of TryFrom<ByteString> is extracted (closure or loop form) and evaluated for sample level texts and positions, the conversion splits at `/`, counts positions from 0, refuses '
             'the empty string and lets the structural validator decide last; Display for TopicFilterLevel is the inverse table of that classifier and Display for TopicFilter writes `/` '
             'by position only.',
        note='Not decided: agreement of the structural validator TopicFilter::is_valid (iterator combinators over level sequences, no finite table) with the string validator, unicode '
             'levels, the round trip for concrete strings (only the per-level tables being inverse and the separator discipline). A seeded change in the undecided part (C18-m2) is a documented miss.',
        ref='DESIGN.md section 5 C18'),
    'C04': dict(
        technique='MIR edge-dominance rules on the response queue (head condition, park, slot-per-call) + constants of the control pipeline (static analysis)',
        text='Necessary conditions on all paths of src/io.rs: both response writes of handle_result are dominated by the `response_idx - base == 0` edge, the drain loop writes '
             'only items taken from the queue front, every pop advances base by exactly one; on the non-head edge the result is parked at index response_idx - base or recorded '
             'as error and nothing is written; the inline fast path writes only when nothing is pending and the queue is empty; the only write in poll() is the control answer in '
             'the Stop arm; every place that keeps a pending handler future has exactly one Pending slot whose index is base + queue.len() read before the push; the spawned '
             'task reports with the captured index; control messages are serialised (InFlightService(1) inside BufferService(16), constants by value).'
             ' After the head slot was popped every return passes the drain loop\'s look at the next slot; dispatchers put responses on the wire only through their return value (C03.single-writer imported).',
        note='Not decided: the wrapping index arithmetic for all completion permutations (runtime integers: a model checker or exploration harness is the right tool); '
             'queue[idx] in-bounds is assumed.',
        ref='DESIGN.md section 5 C04'),
    'C20': dict(
        technique='MIR wiring rules on the timer flags, timeout guards and the client keep-alive task (static analysis)',
        text='Wiring only: KA_ENABLED is set exactly on the non-zero edge and cleared on the zero edge at both places that establish the keep-alive; a decoded frame clears '
             'KA_TIMEOUT|READ_TIMEOUT and the partial-frame count; handle_timeout reports KeepAliveTimeout only under KA_TIMEOUT and ReadTimeout only under READ_TIMEOUT, its '
             'arithmetic cannot underflow; keep-alive sources end in Control::proto and (v5) DISCONNECT 0x8D; the first handshake read is inside timeout_checked(connect_timeout), '
             'version detection under Deadline(protocol_version_timeout), client connect under timeout_checked(handshake_timeout); all ten client start* variants spawn the '
             'keep-alive task iff keepalive is non-zero, with the configured period; the task pings inside its loop and can leave the loop only through the closed-sink edge.'
             ' Starting the read-rate timer unconditionally re-arms its budget; stop_timer on the service-not-ready pause clears both timeout flags; every loop iteration with an open sink pings; the v3 idle-timeout expression derived from the keep-alive is extracted and evaluated (all 65536 values in the thorough tier): never shorter than 1.5x keep-alive (saturating), 0 only for 0.',
        note='Not decided - the property proper: every statement about WHEN timers fire ("live peers are never timed out", coarse-grid arrival patterns) quantifies over time and '
             'needs execution. Only the necessary wiring conditions above are claimed.',
        ref='DESIGN.md section 5 C20'),
}

NA_REASONS = {}


def main():
    checks = []
    for p in props:
        if p in CLAIMS:
            c = dict(CLAIMS[p])
            # rules added after later seed rounds are described once, in the module docstring ("... (continued): ...")
            import importlib, sys, re as _re
            sys.path.insert(0, V + '/rules')
            doc = ' '.join((importlib.import_module(p.lower()).__doc__ or '').split())
            extra = _re.findall(r'[a-z][a-z-]* \(continued[^)]*\):.*?(?=(?: [a-z][a-z-]* \(continued)|$)', doc)
            if extra:
                c['text'] = c['text'] + ' Added later: ' + ' '.join(x.strip() for x in extra)
            checks.append({
                'property_id': p,
                'quick_cmd': './check %s --tier quick' % p,
                'thorough_cmd': './check %s --tier thorough' % p,
                'evidence_file': 'evidence/%s.json' % p,
                'replay_cmd_template': './check --replay {path}',
                'engine': 'mirfacts+rules',
                'level_claimed': {'category': 'other', 'text': c['text'], 'design_ref': c['ref']},
                'level_note': COMMON_NOTE + c['note'],
                'technique': c['technique'],
            })
    na = [{'property_id': p, 'reason': NA_REASONS.get(p, 'checker not built yet (work in progress; DESIGN.md section 5 has the planned rule)')} for p in props if p not in CLAIMS]
    m = {
        'version': 1,
        'setup_cmd': './check --setup',
        'hooks': {
            'guard': 'ntex_rs_ntex_mqtt_verif',
            'enable': 'none: static analysis reads the unmodified source; no hook commits exist',
            'baseline_off_cmd': 'cd /repo && cargo test --workspace --no-fail-fast --offline',
            'source_commits': [],
            'add_only': True,
        },
        'engines': [
            {'name': 'mirfacts', 'path': 'mirfacts/', 'serves_properties': sorted(CLAIMS), 'kind_free_text': 'rustc_private driver: dumps mir_promoted MIR + type facts of /repo as JSON under cargo +nightly check'},
            {'name': 'rules', 'path': 'rules/', 'serves_properties': sorted(CLAIMS), 'kind_free_text': 'Python (stdlib) CFG/dominator/origin/table rules over the facts, one module per property'},
        ],
        'checks': checks,
        'notes': 'All checks are static: no registered command runs the crate, its tests or a solver. Known findings: known_findings.json. See DESIGN.md.',
        'not_applicable': na,
    }
    json.dump(m, open(V + '/MANIFEST.json', 'w'), indent=1)
    print('claimed', sorted(CLAIMS), 'n/a', len(na))


if __name__ == '__main__':
    main()
