#!/usr/bin/env python3
"""Freeze the list of fn / method def paths of the pinned tree (spec/known_defs.json). Functions not in this
list are 'unknown helpers' and are spliced into their callers by rules/inline.py. Re-run after a fix: commit
in /repo that adds a function the rules should treat as an anchor of its own."""
import json, re, sys, subprocess
facts = sys.argv[1] if len(sys.argv) > 1 else '/verif/build/facts.json'
d = json.load(open(facts))
defs = sorted({b['path'] for b in d['bodies'] if b['kind'] != 'Promoted' and not re.search(r'::\{closure#', b['path'])})
head = subprocess.check_output(['git', '-C', '/repo', 'rev-parse', 'HEAD'], text=True).strip()
sys.path.insert(0, '/verif/rules')
import inline
fps = sorted({inline.closure_fp(b) for b in d['bodies'] if b['kind'] != 'Promoted' and re.search(r'::\{closure#', b['path'])})
import canon
snap = canon.snapshot(d)
json.dump(dict({'repo_head': head, 'count': len(defs), 'defs': defs, 'closure_fps': fps}, **snap), open('/verif/spec/known_defs.json', 'w'), indent=0)
print(len(fps), 'closure fingerprints')
print(len(defs), 'defs at', head)
