#!/bin/bash
# usage: harvest_refactor.sh <tag> Cxx ...  copies finished out/r*/ of refactor agents to /tmp/refac_<tag>/, removes the worktrees
tag=$1; shift
for p in "$@"; do
  n=${p#C}; wt=/tmp/wt_r$n
  for m in r1 r2 r3; do
    if [ -f $wt/out/$m/meta.json ] && [ -f $wt/out/$m/patch.diff ]; then mkdir -p /tmp/refac_$tag/$p-$m && cp $wt/out/$m/* /tmp/refac_$tag/$p-$m/; fi
  done
  git -C /repo worktree remove --force $wt
done
git -C /repo worktree prune; ls /tmp/refac_$tag
