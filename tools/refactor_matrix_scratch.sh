#!/bin/bash
# usage: refactor_matrix_scratch.sh [jobs] [glob]   every stored behaviour-preserving refactoring (refactors/<id>/patch.diff) on a
# scratch copy of /repo HEAD, <jobs> in parallel (own cargo target dir each); prints the violated keys (none expected).
J=${1:-4}; G=${2:-*}
cd /verif
ls -d refactors/$G/ | xargs -n1 basename > /tmp/rmatrix_ids.txt
one() {
  local s=$1 slot=$2; local d=/verif/refactors/$s
  export VERIF_SCRATCH_TARGET=/verif/build/target_rmatrix_$slot
  export VERIF_EVIDENCE_DIR=/tmp/rmatrix_evid_$slot; mkdir -p $VERIF_EVIDENCE_DIR
  if ! /verif/tools/facts_for_patch.sh $d/patch.diff /verif/build/frm_$s.json; then echo "$s: PATCH-DOES-NOT-APPLY-OR-BUILD"; return; fi
  /verif/check all --facts /verif/build/frm_$s.json > /tmp/tryr_$s.log 2>&1
  rm -f /verif/build/frm_$s.json /verif/build/frm_$s.json.log
  n=$(grep -c "^   violation" /tmp/tryr_$s.log)
  echo "$s: $n false alarm key(s)"; grep "^   violation" /tmp/tryr_$s.log | sed 's/^/      /'
}
export -f one
for s in $(seq 0 $((J-1))); do
  ( i=0; while read id; do if [ $((i % J)) -eq $s ]; then one $id $s; fi; i=$((i+1)); done < /tmp/rmatrix_ids.txt ) &
done
wait
