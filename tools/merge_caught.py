#!/usr/bin/env python3
"""Merge seeded/<id>/caught.json (written by seed_matrix.sh) into seeded/<id>/meta.json."""
import json, os, glob
for d in sorted(glob.glob('/verif/seeded/*/')):
    mp, cp = d + 'meta.json', d + 'caught.json'
    if not os.path.exists(mp) or not os.path.exists(cp):
        continue
    m, c = json.load(open(mp)), json.load(open(cp))
    sid = os.path.basename(d.rstrip('/'))
    m['breaks_property'] = m.get('property') or sid.split('-')[0]
    m['confirmed_by_me'] = {'how': 'tools/confirm_seed.sh in a scratch worktree of /repo HEAD: demo test alone passes on the unchanged tree, fails with patch.diff applied; `cargo test --workspace --no-fail-fast --offline` with patch.diff applied: 215 passed, 0 failed',
                            'demo_passes_without_change': True, 'demo_fails_with_change': True, 'suite_215_passes_with_change': True}
    m['checks_run'] = 'git -C /repo apply patch.diff; ./check all; git -C /repo checkout -- .  (tools/seed_matrix.sh)'
    m['checks_reporting'] = c['properties_reporting']
    m['violated_keys'] = c['violated_keys'][:12]
    if not c['properties_reporting']:
        m['missed'] = True
    else:
        m.pop('missed', None)
    json.dump(m, open(mp, 'w'), indent=1)
    os.remove(cp)
    print(sid, m['checks_reporting'])
