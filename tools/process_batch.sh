#!/bin/bash
# usage: process_batch.sh <tag> [try|confirm]
# try: apply each harvested patch to /repo, run ./check all, print reporting properties (MISSED if none)
# confirm: confirm each seed in /tmp/wt_conf and store it as the next free seeded/<prop>-mN, then matrix+merge
tag=$1; mode=${2:-try}
cd /verif
if [ "$mode" = try ]; then
  for d in /tmp/seeds_$tag/*/; do s=$(basename $d)
    if ! git -C /repo apply --check $d/patch.diff 2>/dev/null; then echo "$s: PATCH-DOES-NOT-APPLY"; continue; fi
    git -C /repo apply $d/patch.diff; ./check all > /tmp/try_$s.log 2>&1; git -C /repo checkout -- .
    props=$(grep -oE "VIOLATION property=C[0-9]+" /tmp/try_$s.log | sed 's/.*=//' | sort -u | tr '\n' ',')
    echo "$s: ${props:-MISSED}"
  done
else
  for d in /tmp/seeds_$tag/*/; do s=$(basename $d); p=${s%%-*}
    k=1; while [ -d seeded/$p-m$k ]; do k=$((k+1)); done
    tools/confirm_seed.sh $d $p-m$k | tail -1
    if [ -d seeded/$p-m$k ]; then tools/seed_matrix.sh $p-m$k | grep -v WARNING; fi
  done
  python3 tools/merge_caught.py; python3 tools/seeds_to_selftests.py
fi
