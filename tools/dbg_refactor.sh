#!/bin/bash
# usage: dbg_refactor.sh <tag> <id>   facts for the refactor patch -> build/f_<id>.json, prints violations
tools/facts_for_patch.sh /tmp/refac_$1/$2/patch.diff /verif/build/f_$2.json || { echo "facts failed"; exit 1; }
./check all --facts build/f_$2.json | grep -A1 "^   violation\|^   undecided" | cut -c1-600
