#!/usr/bin/env python3
"""Prompt for a seed-writing sub-agent: property text + worktree path + list of mechanisms already used
(the agent never sees anything under /verif; the list is pasted into the prompt file under /tmp)."""
import json, sys, glob, os
pid, wt = sys.argv[1], sys.argv[2]
mode = sys.argv[3] if len(sys.argv) > 3 else 'break'
props = {}
for l in open('/verif/properties.jsonl'):
    d = json.loads(l); props[d['id']] = d
tmpl = open('/verif/docs/agent_prompt_template.txt' if mode == 'break' else '/verif/docs/agent_refactor_template.txt').read()
tried = []
for mp in sorted(glob.glob(('/verif/seeded/%s-m*/meta.json' if mode == 'break' else '/verif/refactors/%s-r*/meta.json') % pid)):
    m = json.load(open(mp))
    tried.append('- ' + ' '.join((m.get('summary') or '').split())[:260])
t = tmpl.replace('{WT}', wt).replace('{PID}', pid).replace('{TITLE}', props[pid]['title']).replace('{STATEMENT}', props[pid]['statement']).replace('{TRIED}', '\n'.join(tried) or '- (nothing yet)')
out = '/tmp/agent_prompts/%s_%s.txt' % ('N' if mode == 'break' else 'R', pid)
os.makedirs('/tmp/agent_prompts', exist_ok=True)
open(out, 'w').write(t)
print(out)
