#!/bin/bash
# usage: harvest_batch.sh <tag> Cxx ...   copies finished out/m*/ (those with meta.json) to /tmp/seeds_<tag>/, removes the worktrees
tag=$1; shift
for p in "$@"; do
  n=${p#C}; wt=/tmp/wt_n$n
  for m in m1 m2; do
    if [ -f $wt/out/$m/meta.json ] && [ -f $wt/out/$m/patch.diff ]; then mkdir -p /tmp/seeds_$tag/$p-r$m && cp $wt/out/$m/* /tmp/seeds_$tag/$p-r$m/; fi
  done
  git -C /repo worktree remove --force $wt
done
git -C /repo worktree prune; ls /tmp/seeds_$tag
