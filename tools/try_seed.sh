#!/bin/bash
# usage: try_seed.sh <patch.diff> <Cxx> [Cyy...] : apply a seeded change to /repo, run the checks, undo it.
P="$1"; shift
cd /repo && git diff --quiet || { echo "/repo not clean"; exit 2; }
git -C /repo apply "$P" || { echo "patch does not apply"; exit 2; }
cd /verif && ./check "$@" 2>&1 | grep -E "^C[0-9]+ \[|violation|VIOLATION" | cut -c1-260
git -C /repo checkout -- . 
