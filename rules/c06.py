"""C06 (structural part): in pkt_ack_inner every completion of a waiting sender is dominated by the
packet-id equality edge and by the true edge of the ack-type test; Ack::is_match is exactly the
diagonal; each sink API registers the AckType its result conversion expects; outstanding entries are
registered only for unused ids and released on every final-ack path; an ack error closes the
connection and is propagated by every dispatcher arm; a registered entry is never orphaned by a
failing encode; a failed publish leaves no 'payload owed' state. Decides code shape on all paths, not
the runtime histories. id-discipline (continued): SUBSCRIBE/UNSUBSCRIBE are written only after wait_response registered the id (a locally refused send leaves nothing on the wire). is-match-table (continued): a returned expression that compares discriminants (`self.ack_type() == tp`, derived PartialEq of a field-less enum) is evaluated per pair of variants. id-discipline (continued): exchanges that wait for PUBCOMP are not part of the sending order - when pkt_ack_inner keeps them in the queue, the answered entry is selected by position (skipping them; by id for PUBCOMP), never popped blindly from an end (the D28 shape). id-discipline (continued): one of the position predicates that select the answered entry tests the entry kind and compares its packet id with the acknowledgement's (PUBCOMP answers the entry with its own id).
"""
from facts import *
from symex import SymEx, cond_map, term_str_v, derived_eq

VERS = ('v3', 'v5')
SEND = r'ntex_util::channel::pool::Sender::<T>::send$'
IO_ENCODE = r'^ntex_io::.*IoRef>::encode$'


def ack_sends(F, b, ver):
    """Sends on a Sender<Ack> and invocations of the on_publish_ack callback."""
    out = []
    for bi, t in b.calls_to(SEND):
        a0 = op_place(t['args'][0])
        ty = b.local_ty(a0['l']) if a0 else ''
        if 'Sender<%s::shared::Ack>' % ver in ty:
            out.append((bi, t, 'Sender<Ack>::send'))
    for bi, t in b.calls_to(r'^std::ops::Fn(Mut|Once)?::call'):
        ap = call_recv_path(b, t, 0)
        out.append((bi, t, 'on_publish_ack callback'))
    return out


def type_before_complete(F, R, ver):
    b = F.one(r'^%s::shared::MqttShared::pkt_ack_inner$' % ver)
    sends = ack_sends(F, b, ver)
    R.floor('C06.type-before-complete', '%s completions' % ver, len(sends), 4)
    # id comparison edge
    cmps = [(bi, t) for bi, t in b.calls_to(r'<std::num::NonZero<T> as std::cmp::PartialEq>::(ne|eq)$')
            if any((call_recv_path(b, t, i) or ('',))[0].endswith('::packet_id') or 'packet_id' in apath_str(call_recv_path(b, t, i)) for i in (0, 1))]
    eq_edges = []
    for bi, t in cmps:
        r = call_bool_branch(b, bi)
        if r and r[0] != 'discr':
            sb, tt, ft = r
            is_ne = callee_name(t).endswith('::ne')
            eq_edges.append((sb, ft if is_ne else tt))
    R.floor('C06.type-before-complete', '%s id comparisons' % ver, len(eq_edges), 1)
    tm_edges = []
    for bi, t in b.calls_to(r'%s::shared::Ack::is_match$' % ver):
        r = call_bool_branch(b, bi)
        if r and r[0] != 'discr':
            tm_edges.append((r[0], r[1]))
    R.floor('C06.type-before-complete', '%s is_match tests' % ver, len(tm_edges), 1)
    for bi, t, what in sends:
        okid = any(edge_dominates(b, s, d, bi) for s, d in eq_edges)
        oktp = any(edge_dominates(b, s, d, bi) for s, d in tm_edges)
        # which Ack variant region? describe by the conds of matches! is not needed for the key: use ordinal among same kind
        region = region_label(b, bi)
        R.ob('C06.type-before-complete', '%s::shared::MqttShared::pkt_ack_inner|%s|%s|id-eq' % (ver, what, region), okid,
             'completion of a waiting sender must be dominated by the packet-id equality edge', b.loc(bi))
        R.ob('C06.type-before-complete', '%s::shared::MqttShared::pkt_ack_inner|%s|%s|is_match' % (ver, what, region), oktp,
             'completion (%s) is reachable without passing the true edge of Ack::is_match(expected type): a well-formed ack of the wrong kind completes (or panics) the waiting send' % what, b.loc(bi))


def region_label(b, bi):
    """Line-free anchor of a block of pkt_ack_inner: which `matches!(pkt, Ack::X)` / discriminant
    tests on the ack argument dominate it, e.g. 'pkt#1' (variant index 1)."""
    labs = []
    for (s, tt, lab) in discr_bool_edges(b, 2):
        if edge_dominates(b, s, tt, bi):
            labs.append(lab)
    return '+'.join(sorted(set(labs))) or 'pkt=other'


def discr_bool_edges(b, arg):
    """Edges equivalent to `discriminant(arg) == k`: direct switch edges and the true edges of
    `matches!`-style bool temporaries set in blocks entered only through such an edge."""
    out = []
    direct = []  # (switch block, value, target)
    for i in b.live:
        t = b.blocks[i]['term']
        if t['k'] != 'switch':
            continue
        p = op_place(t['discr'])
        if not p:
            continue
        isd = False
        for (xb, xs, kind, x) in b.defs.get(p['l'], []):
            if kind == 'assign' and x['rv']['k'] == 'discr' and x['rv']['place']['l'] == arg and not place_fields(x['rv']['place']):
                isd = True
        if isd:
            for v, tb in t['targets']:
                direct.append((i, v, tb))
                out.append((i, tb, 'pkt#%d' % v))
    # bool temporaries
    for i in b.live:
        t = b.blocks[i]['term']
        if t['k'] != 'switch':
            continue
        p = op_place(t['discr'])
        if not p or place_proj(p):
            continue
        defs = b.whole_defs(p['l'])
        trues = [d for d in defs if d[2] == 'assign' and d[3]['rv']['k'] == 'use' and const_val(d[3]['rv'].get('op')) == 1]
        falses = [d for d in defs if d[2] == 'assign' and d[3]['rv']['k'] == 'use' and const_val(d[3]['rv'].get('op')) == 0]
        if len(trues) != 1 or len(defs) != len(trues) + len(falses):
            continue
        tb_ = trues[0][0]
        for (sb, v, tgt) in direct:
            if edge_dominates(b, sb, tgt, tb_):
                r = bool_branch(b, i, p['l'])
                if r:
                    out.append((r[0], r[1], 'pkt#%d' % v))
    return out


def _eval_enum_term(F, t, i, j):
    """Value of a symbolic term over (discriminant of *arg1 = i, discriminant of arg2 = j); None when not evaluable."""
    def discr(x):
        while isinstance(x, tuple) and x and x[0] in ('ref', 'deref', 'copy', 'move'):
            x = x[1]
        if not isinstance(x, tuple):
            return None
        if x[0] == 'arg':
            return i if x[1] == 1 else j if x[1] == 2 else None
        if x[0] == 'agg' and len(x) >= 4 and not x[3]:
            adt = F.adts.get(x[1])
            if adt:
                for k, v in enumerate(adt['variants']):
                    if v['name'] == x[2]:
                        return k
        return None
    def ev(x):
        if not isinstance(x, tuple) or not x:
            return None
        if x[0] == 'const':
            return x[1]
        if x[0] == 'bin' and x[1] in ('Eq', 'Ne'):
            a, b_ = ev(x[2]), ev(x[3])
            if a is None or b_ is None:
                return None
            return int((a == b_) == (x[1] == 'Eq'))
        if x[0] == 'call' and x[1] == 'std::intrinsics::discriminant_value' and len(x[2]) == 1:
            return discr(x[2][0])
        if x[0] == 'call' and len(x[2]) == 2 and re.search(r' as std::cmp::PartialEq>::(eq|ne)$', x[1]) and derived_eq(F, re.sub(r'::ne$', '::eq', x[1])):
            a, b_ = discr(x[2][0]), discr(x[2][1])
            if a is None or b_ is None:
                return None
            return int((a == b_) == x[1].endswith('::eq'))
        return None
    return ev(t)


def is_match_table(F, R, ver):
    b = F.one(r'^%s::shared::Ack::is_match$' % ver)
    ack = F.adts['%s::shared::Ack' % ver]
    tp = F.adts['%s::shared::AckType' % ver]
    se = SymEx(b, F)
    paths = [p for p in se.run() if p.end[0] == 'return']
    tab = {}
    for i, av in enumerate(ack['variants']):
        for j, tv in enumerate(tp['variants']):
            res = None
            for p in paths:
                ok = True
                for term, c in p.conds:
                    s = term_str_v(term)
                    val = i if 'arg1' in s else (j if 'arg2' in s else None)
                    if val is None:
                        ok = False
                        break
                    if c[0] == 'eq' and c[1] != val:
                        ok = False
                    if c[0] == 'ne' and val in c[1]:
                        ok = False
                if ok:
                    res = _eval_enum_term(F, p.ret, i, j) if p.ret else None
                    break
            tab['%s,%s' % (av['name'], tv['name'])] = res
            want = 1 if av['name'] == tv['name'] else 0
            R.ob('C06.is-match-table', '%s::shared::Ack::is_match|%s|%s' % (ver, av['name'], tv['name']), res == want,
                 'is_match(Ack::%s, AckType::%s) = %s, expected %s' % (av['name'], tv['name'], res, want), '%s:%s' % (b.file, b.line))
    R.table('%s is_match' % ver, tab)
    R.floor('C06.is-match-table', '%s table cells' % ver, len(tab), 25)


PAIR = {'Publish': 'publish', 'Receive': 'receive', 'Subscribe': 'subscribe', 'Unsubscribe': 'unsubscribe'}


def top_fn(path):
    return re.sub(r'(::\{closure#\d+\})+$', '', path)


def conversion_pairing(F, R, ver):
    regs = defaultdict(set)  # top fn -> set of AckType variants registered
    convs = defaultdict(set)
    n = 0
    for b in F.find(r'^%s::sink::' % ver):
        top = top_fn(b.path)
        for bi, t in b.calls_to(r'%s::shared::MqttShared::(wait_response|wait_publish_response|wait_publish_response_no_block)$' % ver):
            og = Origin(b).of_operand(t['args'][2])
            vs = {l[1].split('::')[-1] for l in og if l[0] == 'agg' and 'AckType' in l[1]}
            n += 1
            if len(vs) != 1:
                R.ob('C06.conversion-pairing', '%s|%s|acktype-constant' % (top, callee_name(t).split('::')[-1]), False,
                     'the AckType registered here is not a single constant variant: %s' % sorted(og), b.loc(bi))
                continue
            regs[top] |= vs
        # conversions referenced: direct calls or fn items passed to map
        for bi, t in b.calls():
            for nm in [callee_name(t) or ''] + [(op_const(a) or {}).get('fn', '') for a in t['args']]:
                m = re.match(r'^%s::shared::Ack::(publish|receive|subscribe|unsubscribe|complete)$' % ver, nm)
                if m:
                    convs[top].add(m.group(1))
        for bi, j, s in b.assigns():
            if s['rv']['k'] == 'use':
                c = op_const(s['rv']['op'])
                if c and re.match(r'^%s::shared::Ack::(publish|receive|subscribe|unsubscribe|complete)$' % ver, c.get('fn', '')):
                    convs[top].add(c['fn'].split('::')[-1])
    R.floor('C06.conversion-pairing', '%s registrations' % ver, n, 6)
    for top in sorted(set(regs) | set(convs)):
        want = {PAIR[v] for v in regs[top] if v in PAIR}
        have = convs[top]
        R.ob('C06.conversion-pairing', '%s|registers %s|converts %s' % (top, '+'.join(sorted(regs[top])) or '-', '+'.join(sorted(have)) or '-'), have <= want,
             'result conversion(s) %s used where AckType %s was registered (a mismatch makes the panic!() in the conversion reachable)' % (sorted(have), sorted(regs[top])))


def id_discipline(F, R, ver):
    n_push = 0
    for fn in ('wait_response', 'wait_publish_response', 'wait_publish_response_no_block'):
        b = F.one(r'^%s::shared::MqttShared::%s$' % (ver, fn))
        pushes = calls_on_field(b, r'VecDeque::<T, A>::push_back$', 'inflight')
        conts = calls_on_field(b, r'HashSet::<T, S, A>::contains$', 'inflight_ids')
        inserts = calls_on_field(b, r'HashSet::<T, S, A>::insert$', 'inflight_ids')
        free_edges = []
        for bi, t, ap in conts:
            r = call_bool_branch(b, bi)
            if r and r[0] != 'discr':
                free_edges.append((r[0], r[2]))
        for bi, t, ap in pushes:
            n_push += 1
            ok1 = any(edge_dominates(b, s, d, bi) for s, d in free_edges)
            R.ob('C06.id-discipline', '%s::shared::MqttShared::%s|push_back(inflight)|guarded-by-id-free' % (ver, fn), ok1,
                 'an outstanding entry is queued without passing the `inflight_ids.contains(id) == false` edge', b.loc(bi))
            # paired insert: every path from push to return passes an insert
            ins_blocks = {x[0] for x in inserts}
            rets = b.returns()
            reach = b.reachable_after(bi, avoid=ins_blocks)
            ok2 = bool(ins_blocks) and not (set(rets) & reach)
            R.ob('C06.id-discipline', '%s::shared::MqttShared::%s|push_back(inflight)|paired-insert' % (ver, fn), ok2,
                 'queued entry is not followed by inflight_ids.insert(id) on every path', b.loc(bi))
            # same id origin
            ido = leaves_args(Origin(b).of_operand(t['args'][1]))
            ok3 = any(a == 2 for a, _ in ido)
            R.ob('C06.id-discipline', '%s::shared::MqttShared::%s|push_back(inflight)|id-is-argument' % (ver, fn), ok3,
                 'the id stored in the queue entry does not originate from the id parameter (%s)' % sorted(ido), b.loc(bi))
    R.floor('C06.id-discipline', '%s enqueue sites' % ver, n_push, 3)
    # release on final ack
    b = F.one(r'^%s::shared::MqttShared::pkt_ack_inner$' % ver)
    removes = {x[0] for x in calls_on_field(b, r'HashSet::<T, S, A>::remove$', 'inflight_ids')}
    requeue = {x[0] for x in calls_on_field(b, r'VecDeque::<T, A>::push_back$', 'inflight')}
    oks = [(bi, j) for bi, j, s in b.assigns() if s['lhs']['l'] in b.ret_locals and s['rv']['k'] == 'agg' and s['rv'].get('variant') == 'Ok']
    R.floor('C06.id-discipline', '%s Ok exits of pkt_ack_inner' % ver, len(oks), 1)
    for bi, j in oks:
        ok = b.must_pass(removes | requeue, bi)
        R.ob('C06.id-discipline', '%s::shared::MqttShared::pkt_ack_inner|Ok-exit|%s|id-released' % (ver, region_label(b, bi)), ok,
             'pkt_ack_inner returns Ok after popping an entry without inflight_ids.remove (and without re-queueing it): the id can never be reused', b.loc(bi))
    for bi in requeue:
        # re-queue keeps the id reserved: no remove on paths through the requeue
        bad = [r for r in removes if r in b.reachable_after(bi) or bi in b.reachable_after(r)]
        R.ob('C06.id-discipline', '%s::shared::MqttShared::pkt_ack_inner|requeue|id-kept' % ver, not bad,
             'the PUBREC re-queue shares a path with inflight_ids.remove: the id would be free while the exchange is still open', b.loc(bi))


def next_id_invariant(F, R, ver):
    b = F.one(r'^%s::shared::MqttShared::next_id$' % ver)
    se = SymEx(b, F)
    paths = [p for p in se.run() if p.end[0] == 'return']
    R.floor('C06.id-discipline', '%s next_id paths' % ver, len(paths), 2)
    for n, p in enumerate(paths):
        last = None
        for nm, args, bi in p.calls:
            if nm.endswith('Cell::<T>::set') and args and 'inflight_idx' in term_str_v(args[0]):
                last = (args[1], bi)
        ok = False
        why = 'no set of inflight_idx on this path'
        if last:
            v, bi = last
            if v[0] == 'const':
                ok = 0 <= v[1] <= 65534
                why = 'const %s' % v[1]
            else:
                # need a path condition (v == 65535) == false
                for term, c in p.conds:
                    if term[0] == 'bin' and term[1] == 'Eq' and freeze_eq(term[2], v) and term[3][0] == 'const' and term[3][1] == 65535 and c == ('eq', 0):
                        ok = True
                    if term[0] == 'bin' and term[1] == 'Ne' and freeze_eq(term[2], v) and term[3][0] == 'const' and term[3][1] == 65535 and c[0] == 'ne':
                        ok = True
                    if term[0] == 'bin' and term[1] in ('Lt',) and freeze_eq(term[2], v) and term[3][0] == 'const' and term[3][1] <= 65535 and c[0] == 'ne':
                        ok = True
                why = 'value %s under conditions %s' % (term_str_v(v), cond_map(p))
        R.ob('C06.id-discipline', '%s::shared::MqttShared::next_id|path%d|cell<=65534-at-exit' % (ver, n), ok,
             'inflight_idx may be 65535 when next_id returns (then `get() + 1` overflows next time): %s' % why, '%s:%s' % (b.file, b.line))
        # returned id is non-zero: NonZero::new(arg).unwrap(): arg const !=0 or x+1
        for nm, args, bi in p.calls:
            if nm.endswith('NonZero::<T>::new') or 'NonZero' in nm and nm.endswith('::new'):
                a = args[0]
                nz = (a[0] == 'const' and a[1] != 0) or (a[0] == 'field' and a[1][0] == 'tuple') or 'Add' in term_str_v(a)
                R.ob('C06.id-discipline', '%s::shared::MqttShared::next_id|path%d|id-nonzero' % (ver, n), nz,
                     'NonZeroU16::new(%s).unwrap() may see 0' % term_str_v(a), b.loc(bi))


def freeze_eq(a, b):
    from symex import freeze
    return freeze(a) == freeze(b)


def error_closes(F, R, ver):
    b = F.one(r'^%s::shared::MqttShared::pkt_ack$' % ver)
    inner = list(b.calls_to(r'%s::shared::MqttShared::pkt_ack_inner$' % ver))
    insp = list(b.calls_to(r'Result::<T, E>::(inspect_err|map_err|or_else)$'))
    ok = False
    for bi, t in insp:
        for a in t['args'][1:]:
            p = op_place(a)
            if p:
                ty = b.local_ty(p['l'])
                m = re.search(r'\{closure@|closure', ty)
                for c in F.children.get(b.path, []):
                    if any(True for _ in c.calls_to(r'%s::shared::MqttShared::close$' % ver)):
                        ok = True
    if not insp:
        # explicit match form: Err edge reaches close
        for bi, t in inner:
            r = discr_switch_after_call(b, bi)
            if r:
                sb, tg, oth = r
                errt = tg.get(1, oth)
                reg = b.reachable(errt)
                ok = any(x in reg for x, _ in b.calls_to(r'%s::shared::MqttShared::close$' % ver))
    if not ok:
        # `if result.is_err() { close(..) }` / `if !result.is_ok()`
        closes = {x for x, _ in b.calls_to(r'%s::shared::MqttShared::close$' % ver)}
        for bi, t in inner:
            for xb, xt in b.calls():
                nm = callee_name(xt) or ''
                if not (nm.endswith('::is_err') or nm.endswith('::is_ok')) or not xt['args']:
                    continue
                if not any(l[0] == 'call' and l[2] == bi for l in Origin(b).of_operand(xt['args'][0])):
                    continue
                rr = call_bool_branch(b, xb)
                if not rr or rr[0] == 'discr':
                    continue
                err_e, ok_e = (rr[1], rr[2]) if nm.endswith('::is_err') else (rr[2], rr[1])
                if closes & b.reachable(err_e, avoid=[ok_e]):
                    ok = True
    R.ob('C06.error-closes', '%s::shared::MqttShared::pkt_ack|Err=>close' % ver, bool(inner) and ok,
         'pkt_ack must turn every error of pkt_ack_inner into close()', '%s:%s' % (b.file, b.line))
    # every Err of pkt_ack_inner is a ProtocolError by type
    bi_ = F.one(r'^%s::shared::MqttShared::pkt_ack_inner$' % ver)
    R.ob('C06.error-closes', '%s::shared::MqttShared::pkt_ack_inner|error-type' % ver, 'error::ProtocolError' in bi_.local_ty(0), 'return type %s' % bi_.local_ty(0))
    # call sites propagate
    n = 0
    for caller in F.find(r'%s::(client::)?dispatcher::' % ver):
        for bi, t in caller.calls_to(r'%s::shared::MqttShared::pkt_ack$' % ver):
            n += 1
            dest = t['dest']['l']
            prop = False
            # `?` : Try::branch on the result; or discriminant switch whose Err edge reaches an Err return
            nxt = t.get('target')
            blk = caller.blocks[nxt] if nxt is not None else None
            reg = caller.reachable(nxt) if nxt is not None else set()
            tb = [x for x, tt in caller.calls_to(r'ops::Try>::branch$') if x in reg and op_place(tt['args'][0]) and op_place(tt['args'][0])['l'] == dest]
            if tb:
                prop = True
            r = discr_switch_after_call(caller, bi)
            if r:
                sb, tg, oth = r
                errt = tg.get(1, oth)
                ereg = caller.reachable(errt, avoid=[tg.get(0, oth)] if tg.get(0, oth) != errt else [])
                for xb, xj, s in caller.assigns():
                    if xb in ereg and s['rv']['k'] == 'agg' and s['rv'].get('variant') == 'Err' and 'Result' in s['rv'].get('adt', ''):
                        prop = True
            lab = ack_variant_at(caller, t)
            R.ob('C06.error-closes', '%s|pkt_ack(%s)|propagates' % (top_fn(caller.path), lab), prop,
                 'the dispatcher arm ignores the protocol error returned by pkt_ack', caller.loc(bi))
    R.floor('C06.error-closes', '%s pkt_ack call sites' % ver, n, 6 if ver == 'v3' else 6)


def ack_variant_at(b, t):
    og = Origin(b).of_operand(t['args'][1])
    vs = sorted({l[1].split('::')[-1] for l in og if l[0] == 'agg' and 'shared::Ack' in l[1]})
    return '+'.join(vs) or '?'


def unregister_capable(F, ver):
    out = set()
    for b in F.find(r'^%s::shared::MqttShared::' % ver):
        if calls_on_field(b, r'VecDeque::<T, A>::(pop_back|retain|remove|truncate)$', 'inflight'):
            out.add(b.path)
    return out


def no_orphan_entry(F, R, ver):
    unreg = unregister_capable(F, ver)
    n = 0
    for b in F.find(r'^%s::sink::' % ver):
        for wbi, wt in b.calls_to(r'%s::shared::MqttShared::wait_response$' % ver):
            n += 1
            after = b.reachable_after(wbi)
            encs = [(bi, t) for bi, t in b.calls_to(r'%s::shared::MqttShared::encode_packet$' % ver) if bi in after]
            if not encs:
                # encode precedes registration or is absent: fine if an encode call dominates
                R.ob('C06.no-orphan-entry', '%s|wait_response|encode-before-register' % top_fn(b.path), True, 'no fallible encode after registration', b.loc(wbi))
                continue
            for ebi, et in encs:
                r = discr_switch_after_call(b, ebi)
                ok = False
                why = 'the result of encode_packet is not matched'
                if r:
                    sb, tg, oth = r
                    okt = tg.get(0, oth)
                    errt = tg.get(1, oth)
                    ereg = b.reachable(errt, avoid=[okt] if okt != errt else [])
                    undo = [x for x, tt in b.calls() if x in ereg and (callee_name(tt) in unreg)]
                    ok = bool(undo)
                    why = 'on the Err edge of encode_packet (ExpectPayload / OverMaxPacketSize / encoder error) the entry queued by wait_response stays in `inflight`; every later, correct acknowledgement then mismatches and the connection is torn down'
                else:
                    # `?` form
                    pass
                R.ob('C06.no-orphan-entry', '%s|encode_packet-after-wait_response' % top_fn(b.path), ok, why, b.loc(ebi))
    R.floor('C06.no-orphan-entry', '%s wait_response sites' % ver, n, 2)
    # publish: encode precedes enqueue
    for fn in ('wait_publish_response', 'wait_publish_response_no_block'):
        b = F.one(r'^%s::shared::MqttShared::%s$' % (ver, fn))
        pushes = calls_on_field(b, r'VecDeque::<T, A>::push_back$', 'inflight')
        encs = list(b.calls_to(IO_ENCODE))
        ok_edges = []
        for ebi, et in encs:
            r = discr_switch_after_call(b, ebi)
            if r:
                sb, tg, oth = r
                ok_edges.append((sb, tg.get(0, oth)))
        for bi, t, ap in pushes:
            ok = any(edge_dominates(b, s, d, bi) for s, d in ok_edges)
            R.ob('C06.no-orphan-entry', '%s::shared::MqttShared::%s|enqueue-after-successful-encode' % (ver, fn), ok,
                 'the outstanding entry is queued although the PUBLISH may not have been written', b.loc(bi))


def register_before_write(F, R, ver):
    """SUBSCRIBE / UNSUBSCRIBE: the packet id is checked and the acknowledgement slot registered (wait_response) before
    the packet is written. Written first, a send that is then refused locally (PacketIdInUse) has already put a packet on
    the wire whose acknowledgement will meet a wrong or empty queue head and end the connection with a protocol error."""
    n = 0
    for b in F.find(r'^%s::sink::(SubscribeBuilder|UnsubscribeBuilder)::send' % ver):
        regs = {bi for bi, t in b.calls_to(r'^%s::shared::MqttShared::wait_response$' % ver)}
        encs = [(bi, t) for bi, t in b.calls_to(r'^%s::shared::MqttShared::encode_packet$' % ver)]
        if not regs and not encs:
            continue
        for bi, t in encs:
            n += 1
            R.ob('C06.id-discipline', '%s|encode_packet|after-registration' % top_fn(b.path), bool(regs) and b.must_pass(regs, bi),
                 'the packet is written before its id was checked / its acknowledgement slot registered: a locally refused send (PacketIdInUse) leaves a packet on the wire whose SUBACK/UNSUBACK cannot be matched', b.loc(bi))
    R.floor('C06.id-discipline', '%s subscribe/unsubscribe wire writes' % ver, n, 1)


def no_sticky_state(F, R, ver):
    n = 0
    for b in F.find(r'^%s::shared::MqttShared::' % ver):
        ens = list(b.calls_to(r'%s::shared::MqttShared::enable_streaming$' % ver))
        if not ens:
            continue
        resets = set()
        for bi, t in b.calls():
            nm = callee_name(t) or ''
            if nm.endswith('Cell::<T>::set') or nm.endswith('Cell::<T>::take') or nm.endswith('Cell::<T>::replace'):
                ap = call_recv_path(b, t, 0)
                if ap and ap[-1] == 'streaming_remaining':
                    resets.add(bi)
            if re.search(r'MqttShared::(force_close|disable_streaming|reset_streaming|clear_streaming)$', nm):
                resets.add(bi)
        errs = [(bi, j, s) for bi, j, s in b.assigns() if s['rv']['k'] == 'agg' and s['rv'].get('variant') == 'Err' and 'Result' in s['rv'].get('adt', '')]
        for ebi, et in ens:
            n += 1
            after = b.reachable_after(ebi, avoid=resets)
            bad = [(bi, j, s) for bi, j, s in errs if bi in after]
            # the Err produced by IoRef::encode itself (returned directly) counts as well
            direct = [bi for bi, t in b.calls_to(IO_ENCODE) if bi in after and t['dest']['l'] == 0]
            okk = not bad and not direct
            R.ob('C06.no-sticky-state', '%s|enable_streaming|undone-on-error' % b.path, okk,
                 'after enable_streaming() an error return (%s) leaves streaming_remaining = Some(..): the failed send wrote nothing, yet every later packet is refused with ExpectPayload' % (
                     ', '.join(sorted({err_name(b, s) for _, _, s in bad})) or 'encode error'), b.loc(ebi))
    R.floor('C06.no-sticky-state', '%s enable_streaming sites' % ver, n, 3)


def err_name(b, s):
    og = Origin(b).of_operand(s['rv']['fields'][0]) if s['rv']['fields'] else set()
    names = sorted({l[1].split('::')[-1] for l in og if l[0] == 'agg'} | {l[1].split('::')[-1] for l in og if l[0] == 'call'})
    return '/'.join(names[:2]) or 'Err'


def completion_outside_sending_order(F, R, ver):
    """Acknowledgements are matched against one queue of outstanding sends. PUBACK / PUBREC / SUBACK / UNSUBACK arrive in the
    order the packets were sent; a PUBCOMP arrives after the PUBREL, which is written when the *application* releases the
    publish. An exchange that waits for PUBCOMP is therefore not part of the sending order: if it sits in the queue that is
    consumed strictly from the front, a correct peer's PUBACK for a later publish (or the PUBCOMP of another exchange released
    first) mismatches and the connection is torn down. Required shape: when pkt_ack_inner keeps awaiting-PUBCOMP entries in
    the queue, the entry an acknowledgement answers is selected by position - skipping entries that wait for PUBCOMP, by id
    for PUBCOMP itself - never blindly from an end of the queue."""
    p = F.one(r'^%s::shared::MqttShared::pkt_ack_inner$' % ver)
    keeps = []
    for bi, t, ap in calls_on_field(p, r'VecDeque::<T, A>::(push_back|push_front|insert)$', 'inflight'):
        og = Origin(p).of_operand(t['args'][-1])
        if any(l[0] == 'agg' and l[1].endswith('AckType::Complete') for l in og):
            keeps.append(bi)
    takes = calls_on_field(p, r'VecDeque::<T, A>::(pop_front|pop_back|remove|swap_remove_back|swap_remove_front)$', 'inflight')
    R.ob('C06.id-discipline', '%s|pkt_ack_inner|takes-the-answered-entry' % ver, bool(takes), 'no removal of an outstanding entry found in pkt_ack_inner')
    if not keeps:
        R.ob('C06.id-discipline', '%s|pkt_ack_inner|awaiting-PUBCOMP-entries-are-not-in-the-sending-order' % ver, True, 'exchanges that wait for PUBCOMP are kept outside the queue')
        return
    blind = [bi for bi, t, ap in takes if re.search(r'::(pop_front|pop_back)$', callee_name(t) or '')]
    selective = True
    by_id = []
    for bi, t, ap in takes:
        if bi in blind:
            continue
        og = Origin(p, transparent=re.compile(TRANSPARENT_CALLS.pattern[:-2] + r'|branch|unwrap|expect)$')).of_operand(t['args'][1])   # (`remove(pos?)`)
        poss = [l[2] for l in og if l[0] == 'call' and l[1].endswith('Iterator::position') and isinstance(l[2], int)]
        if not poss:
            selective = False
        for pb in poss:
            # the predicate looks at the kind of the entry (AckType)
            tp_ = p.blocks[pb]['term']
            preds = [F.bodies[l[1]] for a_ in tp_['args'][1:] for l in Origin(p).of_operand(a_) if l[0] == 'agg' and l[1] in F.bodies]
            tests_kind = False
            for c in preds:
                for x, y, s_ in c.assigns():
                    if s_['rv']['k'] == 'discr' and (s_['rv'].get('adt') or '').endswith('shared::AckType'):
                        tests_kind = True
                # a predicate that also compares the entry's packet id with the acknowledgement's (the PUBCOMP selector)
                cmp_ = any(s_['rv']['k'] == 'bin' and s_['rv']['op'] in ('Eq', 'Ne') for x, y, s_ in c.assigns()) or \
                    any(re.search(r'PartialEq.*::(eq|ne)$', callee_name(t_) or '') and 'NonZero' in ' '.join(str(c.local_ty((op_place(a_) or {}).get('l', 0))) for a_ in t_['args']) for x, t_ in c.calls())
                if tests_kind and cmp_:
                    by_id.append(c.path)
            selective = selective and tests_kind
    R.ob('C06.id-discipline', '%s|pkt_ack_inner|awaiting-PUBCOMP-entries-are-not-in-the-sending-order' % ver, not blind and selective,
         'an exchange that waits for PUBCOMP stays in the queue that acknowledgements are taken from blindly (%s): with a QoS 2 publish acknowledged by PUBREC and not yet released, the PUBACK of a later QoS 1 publish - or the PUBCOMP of another QoS 2 publish released first - is a packet-id mismatch and ends the connection although the peer is correct'
         % ('pop from an end of the queue' if blind else 'the position predicate does not look at the entry kind'), p.loc(blind[0]) if blind else p.loc(takes[0][0]))
    if not blind and selective:
        R.ob('C06.id-discipline', '%s|pkt_ack_inner|PUBCOMP-answers-the-entry-with-its-own-id' % ver, bool(by_id),
             'no selector compares the packet id of an awaiting-PUBCOMP entry with the PUBCOMP received: the PUBCOMP of an exchange released out of PUBREC order is matched with another exchange (mismatch, the connection is closed)', p.loc(takes[0][0]))


def run(F, R):
    for ver in VERS:
        completion_outside_sending_order(F, R, ver)
        type_before_complete(F, R, ver)
        is_match_table(F, R, ver)
        conversion_pairing(F, R, ver)
        id_discipline(F, R, ver)
        next_id_invariant(F, R, ver)
        error_closes(F, R, ver)
        no_orphan_entry(F, R, ver)
        register_before_write(F, R, ver)
        no_sticky_state(F, R, ver)
    R.assume('pool::Sender::send / Fn::call are the only ways pkt_ack_inner completes a waiting sender (enumerated from the MIR call list)')
