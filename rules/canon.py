"""Rename canonicalisation: the rules address functions and fields of the crate by name; a change that only renames a
private field or a private function keeps every behaviour, so before anything else the facts are mapped back to the names
of the pinned tree (spec/known_defs.json: signatures, body fingerprints and the field lists of the crate's own types).

  fields     a struct/variant that lost field names and gained as many new ones: a lost name is matched to the new name with
             the same type (unique), a single leftover pair is matched as well; every projection, aggregate and the type table
             are rewritten to the pinned name.
  functions  a function of the pinned tree that is gone (M) and a function that is new (U) in the same impl/module with the
             same signature: matched when the pairing is unique, or when the body fingerprint (field names already canonical,
             crate-local callees abstracted) singles it out; body paths, closures below it and every reference are rewritten.

Nothing is matched by position in the file or by text. What was renamed is reported in the evidence (`inline.renamed`). A wrong
match cannot hide a violation of a rule that inspects the body (the rule then reads the body that exists), it can only
attribute it to the pinned name."""
import re, json, hashlib

_IDENT = r'[A-Za-z0-9_]'


def parent_of(path):
    # last `::segment` that is not inside <>; def paths of methods look like a::b::T::<X>::name
    depth = 0
    i = len(path) - 1
    while i > 0:
        ch = path[i]
        if ch == '>':
            depth += 1
        elif ch == '<':
            depth -= 1
        elif ch == ':' and path[i - 1] == ':' and depth == 0:
            return path[:i - 1], path[i + 1:]
        i -= 1
    return '', path


def sig_of(body):
    ls = body['locals']
    return '%d|%s|%s|%s' % (body['argc'], ','.join(l.get('ty') or '?' for l in ls[1:1 + body['argc']]), ls[0].get('ty') or '?', 'co' if body.get('coroutine') else '')


def body_fp(body, abstract):
    """Structure of a body: statement/terminator kinds, operators, aggregates, integer constants, field positions, callee
    names (crate-local callees in `abstract` become '@')."""
    parts = []
    def opk(o):
        if o is None:
            return '-'
        c = o.get('c')
        if c is not None:
            if 'v' in c:
                return 'c:%s' % c['v']
            n = c.get('fn') or c.get('def') or ''
            return 'c:@' if n in abstract else 'c:%s' % n if n else 'c:s'
        pl = o.get('mv') or o.get('cp') or {}
        return 'p:' + ''.join(('*' if e == '*' else str(e.get('i', e.get('vi', 'x'))) if isinstance(e, dict) else str(e)) for e in (pl.get('p') or []))
    for blk in body['blocks']:
        if blk.get('cleanup'):
            continue
        for st in blk['stmts']:
            if st['k'] != 'assign':
                continue
            rv = st['rv']
            k = rv['k']
            if k == 'use':
                parts.append('u(%s)' % opk(rv['op']))
            elif k == 'bin':
                parts.append('b%s(%s,%s)' % (rv['op'], opk(rv['a']), opk(rv['b'])))
            elif k == 'agg':
                parts.append('a%s:%s:%s' % (rv.get('agg'), rv.get('adt') or '', rv.get('variant') or ''))
            else:
                parts.append(k + (':' + str(rv.get('op')) if rv.get('op') and isinstance(rv.get('op'), str) else ''))
        t = blk['term']
        if t['k'] == 'call':
            f = (t.get('func') or {}).get('c') or {}
            n = f.get('res') or f.get('fn') or '?'
            parts.append('call:%s' % ('@' if n in abstract else n))
        else:
            parts.append('t:' + t['k'])
    return hashlib.sha1('|'.join(parts).encode()).hexdigest()[:16]


def top_of(path):
    return re.sub(r'(::\{(closure|inl)#[^}]*\})+.*$', '', path)


def callers_of(raw, names):
    """{crate function: set of top-level functions whose body (or closures / coroutine below it) names it}."""
    out = {}
    def note(caller, n):
        if n in names and n != caller:
            out.setdefault(n, set()).add(caller)
    for b in raw['bodies']:
        if b['kind'] == 'Promoted':
            continue
        caller = top_of(b['path'])
        def see(d):
            c = d.get('c') if isinstance(d.get('c'), dict) else None
            if c:
                for k in ('res', 'fn', 'def'):
                    if isinstance(c.get(k), str):
                        note(caller, c[k])
        _walk(b['blocks'], see)
    return out


def snapshot(raw):
    """What tools/mk_known_defs.py freezes for this pass."""
    tops = [b for b in raw['bodies'] if b['kind'] != 'Promoted' and '::{closure#' not in b['path']]
    names = {b['path'] for b in tops}
    return {
        'sigs': {b['path']: sig_of(b) for b in tops},
        'fn_fps': {b['path']: body_fp(b, names) for b in tops},
        'callers': {k: sorted(v) for k, v in callers_of(raw, names).items()},
        'adt_fields': {a['path']: {v['name']: [[f['name'], f['ty']] for f in v['fields']] for v in a['variants']} for a in raw['adts']},
    }


def _walk(x, fn):
    if isinstance(x, dict):
        fn(x)
        for v in x.values():
            if isinstance(v, (dict, list)):
                _walk(v, fn)
    elif isinstance(x, list):
        for v in x:
            if isinstance(v, (dict, list)):
                _walk(v, fn)


def canon_fields(raw, known):
    ren = []
    pinned = known.get('adt_fields') or {}
    for a in raw['adts']:
        pa = pinned.get(a['path'])
        if not pa:
            continue
        for v in a['variants']:
            pf = pa.get(v['name'])
            if pf is None:
                continue
            cur = [(f['name'], f['ty']) for f in v['fields']]
            lost = [(n, t) for n, t in pf if n not in {c[0] for c in cur}]
            new = [(n, t) for n, t in cur if n not in {p[0] for p in pf}]
            if not lost or not new or any(re.match(r'^\d+$', n) for n, t in lost + new):
                continue
            m = {}
            for n, t in list(lost):
                c = [x for x in new if x[1] == t and x[0] not in m.values()]
                c0 = [x for x in lost if x[1] == t]
                if len(c) == 1 and len(c0) == 1:
                    m[n] = c[0][0]
            rest_l = [x for x in lost if x[0] not in m]
            rest_n = [x for x in new if x[0] not in m.values()]
            if len(rest_l) == 1 and len(rest_n) == 1:
                m[rest_l[0][0]] = rest_n[0][0]
            for old, nw in m.items():
                ren.append((a['path'], v['name'], nw, old))
    if not ren:
        return []
    byadt = {}
    for adt, var, nw, old in ren:
        byadt.setdefault(adt, {})[(var, nw)] = old
    kinds = {a['path']: a['kind'] for a in raw['adts']}
    def fix(d):
        # projection element {'f','i','adt'} (for enums preceded by a downcast, field names of a variant are unique enough:
        # the element does not carry the variant, so only rename when the new name maps to one old name within the adt)
        if 'f' in d and 'adt' in d and d['adt'] in byadt:
            cands = {old for (var, nw), old in byadt[d['adt']].items() if nw == d['f']}
            if len(cands) == 1:
                d['f'] = cands.pop()
        if d.get('k') == 'agg' and d.get('agg') == 'adt' and d.get('adt') in byadt and isinstance(d.get('names'), list):
            mp = byadt[d['adt']]
            var = d.get('variant')
            d['names'] = [next((old for (v_, nw), old in mp.items() if nw == n and (v_ == var or kinds.get(d['adt']) != 'Enum')), n) for n in d['names']]
    _walk(raw['bodies'], fix)
    for a in raw['adts']:
        if a['path'] in byadt:
            for v in a['variants']:
                for f in v['fields']:
                    o = byadt[a['path']].get((v['name'], f['name']))
                    if o:
                        f['name'] = o
    return ['%s.%s -> %s' % (adt, nw, old) for adt, var, nw, old in ren]


def canon_fns(raw, known):
    sigs = known.get('sigs') or {}
    fps = known.get('fn_fps') or {}
    if not sigs:
        return []
    tops = {b['path']: b for b in raw['bodies'] if b['kind'] != 'Promoted' and '::{closure#' not in b['path'] and '::{inl#' not in b['path']}
    missing = [p for p in sigs if p not in tops]
    unknown = [p for p in tops if p not in sigs]
    if not missing or not unknown:
        return []
    abstract = set(missing) | set(unknown) | set(sigs)
    m = {}
    for u in unknown:
        pu, nu = parent_of(u)
        if pu.startswith('<') and ' as ' in pu:
            continue    # trait impl items cannot be renamed
        c = [x for x in missing if parent_of(x)[0] == pu and sigs[x] == sig_of(tops[u])]
        if len(c) > 1:
            fu = body_fp(tops[u], abstract)
            c = [x for x in c if fps.get(x) == fu]
        if len(c) == 1:
            m.setdefault(c[0], []).append(u)
    # moved (and possibly renamed) to another module / impl: same signature and the same body structure, unique on both sides
    taken_u = {u for us in m.values() for u in us}
    for u in unknown:
        if u in taken_u:
            continue
        pu, nu = parent_of(u)
        if pu.startswith('<') and ' as ' in pu:
            continue
        fu = None
        c = [x for x in missing if x not in m and sigs[x] == sig_of(tops[u])]
        if c:
            fu = body_fp(tops[u], abstract)
            c = [x for x in c if fps.get(x) == fu]
        if len(c) == 1 and not [v for v in unknown if v != u and v not in taken_u and sig_of(tops[v]) == sigs[c[0]] and body_fp(tops[v], abstract) == fu]:
            m.setdefault(c[0], []).append(u)
    # replaced: a function that is gone and a new one that took its place at every call site - the pinned callers of the old
    # one are exactly the callers of the new one and the return type is the same; unique on both sides
    pc = known.get('callers') or {}
    taken_u = {u for us in m.values() for u in us}
    rest_m = [x for x in missing if x not in m and pc.get(x)]
    rest_u = [u for u in unknown if u not in taken_u]   # (a free function may have become a trait impl item: `impl Decode for X`)
    if rest_m and rest_u:
        cc = callers_of(raw, set(rest_u))
        for x in rest_m:
            want = set(pc[x])
            if not want <= set(tops):
                continue
            ret = sigs[x].rsplit('|', 2)[1]
            c = [u for u in rest_u if cc.get(u) == want and (tops[u]['locals'][0].get('ty') or '?') == ret]
            if len(c) == 1 and len([y for y in rest_m if set(pc[y]) == want]) == 1:
                m.setdefault(x, []).append(c[0])
    pairs = []
    for old, us in m.items():
        if len(us) > 1:
            fo = fps.get(old)
            us = [u for u in us if body_fp(tops[u], abstract) == fo]
        if len(us) == 1:
            pairs.append((us[0], old))
    if not pairs:
        return []
    # longest first so that a path that is a prefix of another is not rewritten inside it
    pairs.sort(key=lambda p: -len(p[0]))
    rx = [(re.compile(re.escape(nw) + r'(?!' + _IDENT + ')'), old, parent_of(nw)[1], parent_of(old)[1]) for nw, old in pairs]
    newnames = {parent_of(nw)[1]: parent_of(old)[1] for nw, old in pairs}
    def fixs(s):
        for r, old, a_, b_ in rx:
            if a_ in s:
                s = r.sub(lambda _m: old, s)
        return s
    def fix(d):
        hit = False
        for k, v in list(d.items()):
            if isinstance(v, str) and k not in ('file', 's'):
                nv = fixs(v)
                if nv != v:
                    d[k] = nv
                    hit = hit or k in ('fn', 'res', 'path')
            elif isinstance(v, list) and v and all(isinstance(x, str) for x in v):
                d[k] = [fixs(x) for x in v]
        if hit:
            for k in ('method', 'name'):
                if isinstance(d.get(k), str) and d[k] in newnames:
                    d[k] = newnames[d[k]]
    _walk(raw['bodies'], fix)
    if isinstance(raw.get('fns'), list):
        _walk(raw['fns'], fix)
    if isinstance(raw.get('impls'), list):
        _walk(raw['impls'], fix)
    return ['%s -> %s' % (nw, old) for nw, old in pairs]


def canon_modules(raw, known):
    """Items moved into a module that does not exist on the pinned tree (`io::state`, `v3::ack`, `topic::matching`): when a
    type of the new module has the name and the field structure of a pinned type that is gone (or a function has the name,
    signature shape and body fingerprint of a pinned function that is gone), the whole new module prefix is mapped back to
    the pinned one - everywhere (def paths, types, trait references), since every item below it is new."""
    pinned_adts = known.get('adt_fields') or {}
    sigs = known.get('sigs') or {}
    fps = known.get('fn_fps') or {}
    if not pinned_adts and not sigs:
        return []
    pinned_paths = set(pinned_adts) | set(sigs)
    def mod_of(path):
        return parent_of(path)[0]
    def is_new_module(m):
        return bool(m) and not any(q == m or q.startswith(m + '::') for q in pinned_paths)
    cur_adts = {a['path']: a for a in raw['adts']}
    pairs = {}
    def norm_fields(a_fields, own):
        return [[(n, t.replace(own, '@')) for n, t in fs] if isinstance(fs, list) else fs for fs in a_fields]
    for p_, a in cur_adts.items():
        if p_ in pinned_adts or not is_new_module(mod_of(p_)):
            continue
        name = parent_of(p_)[1]
        def gen(t, m_):
            return re.sub(r'(?<![A-Za-z0-9_])' + re.escape(m_) + r'::', '@::', t)
        cur_struct = {v['name']: [(f['name'], gen(f['ty'], mod_of(p_))) for f in v['fields']] for v in a['variants']}
        cands = []
        for q, qv in pinned_adts.items():
            if q in cur_adts or parent_of(q)[1] != name:
                continue
            old_struct = {vn: [(n, gen(t, mod_of(q))) for n, t in fs] for vn, fs in qv.items()}
            if old_struct == cur_struct:
                cands.append(q)
        if len(cands) == 1:
            pairs.setdefault(mod_of(p_), set()).add(mod_of(cands[0]))
    tops = {b['path']: b for b in raw['bodies'] if b['kind'] != 'Promoted' and '::{closure#' not in b['path']}
    missing = [x for x in sigs if x not in tops]
    abstract = set(tops) | set(sigs)
    for u, b in tops.items():
        if u in sigs:
            continue
        m = mod_of(u)
        # functions directly in a new module, or methods of a type / trait impl that lives there
        mods = [m]
        mm = re.match(r'^<(?:[^<>]|<[^<>]*>)* as ((?:\w+::)+)\w+', m)
        for cand_mod in mods:
            if not is_new_module(cand_mod):
                continue
            name = parent_of(u)[1]
            c = [x for x in missing if parent_of(x)[1] == name and fps.get(x) == body_fp(b, abstract)]
            if len(c) == 1:
                pairs.setdefault(cand_mod, set()).add(mod_of(c[0]))
    ren = {nm: next(iter(olds)) for nm, olds in pairs.items() if len(olds) == 1 and is_new_module(nm) and re.fullmatch(r'\w+(::\w+)*', nm) and re.fullmatch(r'\w+(::\w+)*', next(iter(olds)))}
    if not ren:
        return []
    txt = json.dumps(raw)
    for nm in sorted(ren, key=len, reverse=True):
        txt = re.sub(r'(?<![A-Za-z0-9_])' + re.escape(nm) + r'::', lambda _m, o=ren[nm]: o + '::', txt)
    new_raw = json.loads(txt)
    # a relocation must not merge two different items
    def dup_count(r):
        ps = [b['path'] for b in r['bodies']]
        return len(ps) - len(set(ps)), len(r['adts']) - len({a['path'] for a in r['adts']})
    if dup_count(new_raw) != dup_count(raw):
        return []
    raw.clear()
    raw.update(new_raw)
    return ['module %s -> %s' % (k, v) for k, v in sorted(ren.items())]


def apply(raw, known):
    out = []
    out += canon_modules(raw, known)
    out += canon_fields(raw, known)
    out += canon_fns(raw, known)
    return out
