"""Both-ways self-test of the rules (thorough tier): each spec in /verif/selftest/<prop>/*.json is a
small edit of /repo that keeps the crate compiling but breaks one rule instance. The edit is applied
to a scratch copy (outside /repo and /verif, removed afterwards), facts are rebuilt from the copy
and the property's rules must report the expected key(s). This validates the checker, it does not
decide the property (the deciding run is always on /repo itself)."""
import os, json, shutil, subprocess, tempfile, time, glob, importlib

VERIF = os.path.dirname(os.path.dirname(os.path.abspath(__file__)))


def load_specs(prop):
    out = []
    for f in sorted(glob.glob(os.path.join(VERIF, 'selftest', prop, '*.json'))):
        d = json.load(open(f))
        d['_file'] = f
        out.append(d)
    return out


def make_scratch(repo=None):
    repo = repo or os.environ.get('VERIF_SELFTEST_REPO') or os.environ.get('VERIF_REPO') or '/repo'
    d = tempfile.mkdtemp(prefix='verif_selftest_')
    subprocess.check_call(['rsync', '-a', '--exclude', 'target', '--exclude', '.git', repo + '/', d + '/'])
    return d


def apply_edits(root, edits):
    for e in edits:
        if 'patch' in e:
            cmd = ['patch', '-p1', '-s', '--no-backup-if-mismatch'] + (['-R'] if e.get('reverse') else []) + ['-i', os.path.join(VERIF, e['patch'])]
            r = subprocess.run(cmd, cwd=root, stdout=subprocess.PIPE, stderr=subprocess.STDOUT, text=True)
            if r.returncode != 0:
                return 'stale: patch %s does not apply: %s' % (e['patch'], r.stdout[-300:])
            continue
        p = os.path.join(root, e['file'])
        s = open(p).read()
        n = s.count(e['old'])
        if n != e.get('count', 1):
            return 'stale: %s: expected %d occurrence(s) of the anchor text, found %d' % (e['file'], e.get('count', 1), n)
        s = s.replace(e['old'], e['new'])
        open(p, 'w').write(s)
    return None


def facts_for(root, tag):
    out = os.path.join(VERIF, 'build', 'facts-selftest-%s.json' % tag)
    env = dict(os.environ, VERIF_REPO=root, CARGO_NET_OFFLINE='true')
    slot = os.environ.get('VERIF_SELFTEST_SLOT')
    if slot:
        # parallel self-tests: one cargo target directory (and one lock) per worker
        env['VERIF_TARGET_DIR'] = os.path.join(VERIF, 'build', 'target_st_%s' % slot)
    import fcntl
    with open(os.path.join(VERIF, 'build', '.lock%s' % (slot or '')), 'w') as lk:
        fcntl.flock(lk, fcntl.LOCK_EX)
        r = subprocess.run([os.path.join(VERIF, 'rules', 'gen_facts.sh'), out], env=env, stdout=subprocess.PIPE, stderr=subprocess.STDOUT, text=True)
    if r.returncode != 0:
        return None, r.stdout[-2000:]
    return out, ''


def run_spec(prop, spec, keep=False):
    """Returns dict(id, status: fired|missed|stale|nocompile, keys)."""
    from facts import Facts
    import runner
    root = make_scratch()
    try:
        err = apply_edits(root, spec['edits'])
        if err:
            return dict(id=spec['id'], status='stale', detail=err)
        fp, log = facts_for(root, '%s-%s' % (prop, os.getpid()))
        if fp is None:
            return dict(id=spec['id'], status='nocompile', detail=log)
        try:
            F = Facts(fp)
        finally:
            for x in (fp, fp + '.log'):
                try:
                    os.remove(x)
                except OSError:
                    pass
        rep = runner.Report(prop, 'thorough')
        mod = importlib.import_module(prop.lower())
        try:
            mod.run(F, rep)
        except Exception as e:
            rep.ob('anchor', 'lost:%s' % str(e)[:80], False, str(e))
        known = runner.load_known().get(prop, {})
        keys = sorted({i['key'] for i in rep.items if not i['ok'] and i['key'] not in known})
        exp = spec['expect']
        if spec.get('expect_silent'):
            return dict(id=spec['id'], status='silent' if not keys else 'false-alarm', keys=keys[:12], expect=[])
        hit = all(any(x in k for k in keys) for x in exp)
        return dict(id=spec['id'], status='fired' if hit else 'missed', keys=keys[:12], expect=exp)
    finally:
        shutil.rmtree(root, ignore_errors=True)


def _init_worker():
    import multiprocessing
    ident = multiprocessing.current_process()._identity
    os.environ['VERIF_SELFTEST_SLOT'] = str(ident[0] if ident else 0)


def _run_spec_safe(prop, spec):
    try:
        return run_spec(prop, spec)
    except Exception as e:   # a crashed self-test is a missed one (fail closed), never silently dropped
        return dict(id=spec['id'], status='false-alarm' if spec.get('expect_silent') else 'missed', keys=['self-test crashed: %s' % str(e)[:200]], expect=spec.get('expect'))


def run_all(prop, R, seed=0):
    specs = load_specs(prop)
    if seed:
        import random
        random.Random(seed).shuffle(specs)
    res = []
    jobs = int(os.environ.get('VERIF_JOBS') or max(1, min(12, (os.cpu_count() or 2) - 2)))
    if jobs > 1 and len(specs) > 1:
        import multiprocessing
        with multiprocessing.get_context('fork').Pool(min(jobs, len(specs)), initializer=_init_worker) as pool:
            results = pool.starmap(_run_spec_safe, [(prop, s) for s in specs], chunksize=1)
    else:
        results = [_run_spec_safe(prop, s) for s in specs]
    for r in results:
        res.append(r)
        if r['status'] == 'stale':
            R.note('self-test stale (not a property violation): %s: %s' % (r['id'], r.get('detail')))
        elif r['status'] == 'nocompile':
            R.note('self-test mutant does not compile any more (not a property violation): %s' % r['id'])
        elif r['status'] in ('silent', 'false-alarm'):
            R.ob('selftest', '%s|%s' % (prop, r['id']), r['status'] == 'silent',
                 'checker self-test: behaviour-preserving edit %s must not be reported; reported: %s' % (r['id'], r.get('keys')))
        else:
            R.ob('selftest', '%s|%s' % (prop, r['id']), r['status'] == 'fired',
                 'checker self-test: mutant %s must be reported with key(s) %s; reported: %s' % (r['id'], r.get('expect'), r.get('keys')))
    return res


if __name__ == '__main__':
    import sys
    sys.path.insert(0, os.path.join(VERIF, 'rules'))
    prop = sys.argv[1]
    only = sys.argv[2] if len(sys.argv) > 2 else None
    for s in load_specs(prop):
        if only and only not in s['id']:
            continue
        t0 = time.time()
        r = run_spec(prop, s)
        print('%-40s %-9s %.1fs %s' % (r['id'], r['status'], time.time() - t0, r.get('keys') if r['status'] not in ('fired', 'silent') else ''))
        if r['status'] in ('stale', 'nocompile'):
            print('   ', r.get('detail'))
