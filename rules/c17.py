"""C17 (structural part): in both MQTT 5 dispatchers the PUBLISH arm resolves an alias-only
message from the connection's alias map before the handler message is built and refuses an unbound
alias without reaching the handler; a message with topic and alias reaches the handler only after the
binding was stored, unless the stored topic compared equal; a new binding is stored only below the
negotiated Topic Alias Maximum, whose origin is traced to the negotiated value; the alias maps are
per-connection objects (no statics, constructed in the per-connection constructors); the router
matches on the resolved topic and consults its cache only for empty topics. Sequences of publishes
as such are not decided. bind (continued): the v5 client's enforced limit is not taken from CONNACK.topic_alias_max (that value limits the other direction). per-connection (continued): nothing clears the alias tables, removes bindings or overwrites the struct holding them while the connection lives.
"""
from facts import *
from disp import *

INSERTS = r'hash_map::(OccupiedEntry|VacantEntry)::<.*>::insert$|^std::collections::HashMap::<K, V, S, A>::insert$'


def alias_rules(F, R, d):
    b = d.call
    reg = d.arm('Publish')
    news = [(bi, t) for bi, t in b.calls_to(r'^v5::publish::Publish::new$') if bi in reg]
    if len(news) != 1:
        raise AnchorLost('%s: Publish::new in PUBLISH arm (%d)' % (d.name, len(news)))
    new_bi = news[0][0]
    handler = [bi for bi, t in d.call_sites(b, 'publish_fn') if bi in reg]
    empties = [(bi, t) for bi, t in b.calls_to(r'^core::str::<impl str>::is_empty$') if bi in reg and (call_recv_path(b, t, 0) or ('',))[-1] == 'topic']
    R.ob('C17.resolve', '%s|topic.is_empty()-test' % d.name, len(empties) == 1, 'found %d tests of the topic being empty in the PUBLISH arm' % len(empties))
    if len(empties) != 1:
        return
    ebi, et = empties[0]
    r = call_bool_branch(b, ebi)
    if not r or r[0] == 'discr':
        raise AnchorLost('%s: is_empty branch' % d.name)
    sb, empty_t, nonempty_t = r
    # an alias-only PUBLISH with an unknown alias fails with TopicAliasInvalid and nothing else: no error is
    # decided inside the alias block before the topic was looked at
    alias_sw = None
    for swb in sorted(b.dom.get(ebi, ())):
        t_ = b.blocks[swb]['term']
        if t_['k'] == 'switch' and swb in reg:
            p_ = op_place(t_['discr'])
            for (xb, xs, kind, x) in (b.whole_defs(p_['l']) if p_ else []):
                if kind == 'assign' and x['rv']['k'] == 'discr' and 'topic_alias' in place_fields(x['rv']['place']):
                    alias_sw = swb
    if alias_sw is not None:
        some_t = [tb for v_, tb in b.blocks[alias_sw]['term']['targets'] if v_ == 1]
        some_t = some_t[0] if some_t else b.blocks[alias_sw]['term']['otherwise']
        pre = b.reachable(some_t, avoid=[ebi])
        errs_pre = [x for x, j_, s_ in agg_sites(b, r'^std::result::Result$', 'Err') if x in pre] + [x for x, t2 in b.calls() if x in pre and (callee_name(t2) or '').endswith('from_residual')]
        viol_pre = [x for x, j_, s_ in agg_sites(b, r'error::SpecViolation$', None) if x in pre]
        R.ob('C17.resolve', '%s|no-error-before-the-topic-is-examined' % d.name, not errs_pre and not viol_pre,
             'the alias block raises an error before testing whether the topic is empty: an alias-only PUBLISH with an unknown alias is then reported with that error\'s (generic) reason instead of Topic Alias Invalid', b.loc((errs_pre or viol_pre or [ebi])[0]))
    # the alias test dominates: discriminant of Option<NonZero<u16>> topic_alias == Some
    # --- resolve
    gets = [(bi, t) for bi, t in b.calls_to(r'^std::collections::HashMap::<K, V, S, A>::get$') if bi in reg and 'aliases' in (call_recv_path(b, t, 0) or ())]
    R.ob('C17.resolve', '%s|aliases.get-on-empty-topic' % d.name, len(gets) == 1 and edge_dominates(b, sb, empty_t, gets[0][0]), 'the alias lookup is not on the empty-topic edge')
    if gets:
        gbi, gt = gets[0]
        key_ap = call_recv_path(b, gt, 1) or ()
        R.ob('C17.resolve', '%s|lookup-key-is-the-publish-alias' % d.name, 'topic_alias' in key_ap, 'lookup key path %s' % apath_str(key_ap))
        rr = discr_switch_after_call(b, gbi)
        # `aliases.get(&alias).cloned().ok_or_else(..)?`: the Some/None test is applied to the value handed on by cloned()/copied()
        hop = gbi
        for _ in range(3):
            if rr:
                break
            nxt_ = [xb for xb, xt in b.calls() if re.search(r'Option::<.*>::(cloned|copied|as_ref|as_deref)$', callee_name(xt) or '') and xt['args']
                    and any(l[0] == 'call' and l[2] == hop for l in Origin(b).of_operand(xt['args'][0]))]
            if not nxt_:
                break
            hop = nxt_[0]
            rr = discr_switch_after_call(b, hop)
        ok_some = ok_none = False
        if rr:
            gsb, tg, oth = rr
            some_t, none_t = tg.get(1, oth), tg.get(0, oth)
            some_reg = b.reachable(some_t, avoid=[none_t])
            none_reg = b.reachable(none_t, avoid=[some_t])
            # Some: publish.topic assigned from the stored value before Publish::new
            for xb, xj, s in b.assigns():
                if xb in some_reg and (place_fields(s['lhs'])[-1:] == ['topic'] or ('*' in place_proj(s['lhs']) and (apath(b, s['lhs']) or ('',))[-1] == 'topic')) and new_bi in b.reachable_after(xb):
                    og = Origin(b, transparent=re.compile(TRANSPARENT_CALLS.pattern[:-2] + r'|branch|ok_or|ok_or_else)$')).of_operand(s['rv'].get('op')) if s['rv']['k'] == 'use' else set()
                    if any(l[0] == 'call' and (l[1].endswith('Clone>::clone') or l[1].endswith('::cloned')) for l in og):
                        ok_some = True
            viol = [bi for bi, t in b.calls_to(r'^error::ProtocolError::violation$') if bi in none_reg]
            tai = [bi for bi, j, s in agg_sites(b, r'DisconnectReasonCode$', 'TopicAliasInvalid') if bi in none_reg]
            ok_none = bool(viol) and bool(tai) and new_bi not in none_reg and not any(h in none_reg for h in handler)
        R.ob('C17.resolve', '%s|bound-alias=>topic-replaced-before-handler' % d.name, ok_some, 'on the bound-alias edge the stored topic is not written into the publish before the handler message is built')
        R.ob('C17.resolve', '%s|unbound-alias=>TopicAliasInvalid,no-handler' % d.name, ok_none, 'an unknown alias must end in ProtocolError::violation(TopicAliasInvalid) without reaching the handler')
    # --- bind: from the non-empty edge the handler message is reachable only through a store or an "equal" edge
    ins = [(bi, t) for bi, t in b.calls_to(INSERTS) if bi in reg and bi in b.reachable(nonempty_t, avoid=[empty_t])]
    # a store through the reference `aliases.get_mut(&alias)` hands out (`*bound = topic`) re-binds in place
    for bi, j, s_ in b.assigns():
        if bi in reg and place_proj(s_['lhs']) == ['*'] and bi in b.reachable(nonempty_t, avoid=[empty_t]):
            for l in Origin(b).of_operand({'cp': {'l': s_['lhs']['l']}}):
                if l[0] == 'call' and re.search(r'HashMap::<K, V, S, A>::get_mut$', l[1] or '') and isinstance(l[2], int) \
                        and (call_recv_path(b, b.blocks[l[2]]['term'], 0) or ('',))[-1] == 'aliases':
                    ins.append((bi, None))
    R.ob('C17.bind', '%s|binding-stores' % d.name, len(ins) >= 1, 'no store into the alias map on the topic+alias edge')
    succ = [list(s) for s in b.succ]
    eq_edges = []
    for bi, t in b.calls_to(r'std::cmp::PartialEq<.*>.*::(ne|eq)$|^core::str::.*::(ne|eq)$'):
        if bi not in reg:
            continue
        aps = [apath_str(call_recv_path(b, t, i)) for i in (0, 1)]
        if not any('as_str' in a or 'topic' in a for a in aps):
            continue
        rr = call_bool_branch(b, bi)
        if rr and rr[0] != 'discr':
            is_ne = callee_name(t).endswith('::ne')
            eq_edges.append((rr[0], rr[2] if is_ne else rr[1]))
    # alias-None edge also skips binding legitimately
    noalias = []
    for swb, place, adt, ty, t in discr_switches(b, ty_pat=r'^std::option::Option<std::num::NonZero<u16>>$'):
        ap = apath(b, place)
        if ap and ap[-1] == 'topic_alias':
            for v, tb in t['targets']:
                if v == 0:
                    noalias.append((swb, tb))
            if 0 not in [v for v, _ in t['targets']]:
                noalias.append((swb, t['otherwise']))
    for s_, t_ in eq_edges:
        succ[s_] = [x for x in succ[s_] if x != t_]
    avoid = {bi for bi, t in ins}
    reach = b.reachable(nonempty_t, avoid=avoid | {empty_t}, succ=succ)
    R.ob('C17.bind', '%s|topic+alias=>stored-or-equal-before-handler' % d.name, new_bi not in reach,
         'a PUBLISH with topic and alias can reach the handler without the binding being stored (and without the stored topic having compared equal): a later alias-only PUBLISH resolves to a stale topic')
    # --- the alias block precedes every non-error exit of the arm (except the duplicate-id refusal):
    #     a PUBLISH that is accepted but not delivered (connection closing) still (re)binds its alias
    alias_sw = [swb for swb, tb in noalias]
    dup_regions = set()
    for ibi, it, iap in d.inflight_calls(b, 'insert'):
        if ibi in reg:
            rr = call_bool_branch(b, ibi)
            if rr and rr[0] != 'discr':
                dup_regions |= b.reachable(rr[2], avoid=[rr[1]])
    exits = [bi for bi, j, s in agg_sites(b, r'^std::result::Result$', 'Ok') if bi in reg and s['lhs']['l'] in b.ret_locals and bi not in dup_regions] + [new_bi]
    early = [x for x in exits if alias_sw and not b.must_pass(set(alias_sw), x)]
    R.ob('C17.bind', '%s|alias-handling-before-every-accepting-exit' % d.name, bool(alias_sw) and not early,
         'the PUBLISH arm can finish (message accepted but dropped, e.g. connection closing) before the topic-alias block ran: the binding carried by that PUBLISH is lost and a later alias-only PUBLISH is refused or resolves to a stale topic',
         b.loc(early[0]) if early else None)
    # --- limit on new bindings
    vac = [(bi, t) for bi, t in ins if t is not None and ('VacantEntry' in callee_name(t) or callee_name(t).endswith('HashMap::<K, V, S, A>::insert'))]
    from c16 import cmp_facts_at, val_key
    for bi, t in vac:
        facts = cmp_facts_at(b, bi)
        lim = [f for f in facts if f[0] in ('Le', 'Lt', 'Gt', 'Ge')]
        src = None
        ok = False
        for (op, x, y) in lim:
            for side, other in ((x, y), (y, x)):
                if side[0] == 'ap' and (any('NonZero' in z and z.endswith('::get') for z in side) or 'topic_alias' in side):
                    # alias.get() <= max : op Le with x=alias or Ge with y=alias
                    if (op in ('Le', 'Lt') and side == x) or (op in ('Ge', 'Gt') and side == y):
                        ok = True
                        src = other
        R.ob('C17.bind', '%s|new-binding|alias<=max' % d.name, ok, 'a new alias is stored without the `alias > maximum` refusal dominating the store', b.loc(bi))
        if src is not None:
            if d.role == 'server':
                good = src[0] == 'ap' and any(z == 'call:v5::shared::MqttShared::topic_alias_max' for z in src)
                R.ob('C17.bind', '%s|maximum-origin' % d.name, good, 'the maximum compared against is %s, expected shared.topic_alias_max() (the value advertised in CONNACK)' % (src,), b.loc(bi))
            else:
                good = src[0] == 'ap' and src[-1] == 'max_topic_alias'
                R.ob('C17.bind', '%s|maximum-is-dispatcher-field' % d.name, good, 'the maximum compared against is %s' % (src,), b.loc(bi))
    if d.role == 'client':
        # the field is set from create_dispatcher's argument; callers must pass the value advertised in CONNECT
        cd = F.one(r'^v5::client::dispatcher::create_dispatcher$')
        n = 0
        lits = defaultdict(list)
        for caller, cbi in F.callers.get(cd.path, []):
            cb = F.bodies[caller]
            t = cb.blocks[cbi]['term']
            for i, a in enumerate(t['args']):
                is_u16 = (cb.local_ty(op_place(a)['l']) == 'u16') if op_place(a) else ((op_const(a) or {}).get('ty') == 'u16')
                if is_u16:
                    og = Origin(cb).of_operand(a)
                    n += 1
                    for c in [l for l in og if l[0] == 'const']:
                        lits[c[1]].append(cb.loc(cbi))
        # a non-literal limit must be the one the client itself advertised (CONNECT.topic_alias_max); the CONNACK carries the
        # limit for the other direction (aliases the client may send)
        wrong_dir = []
        for caller, cbi in F.callers.get(cd.path, []):
            cb = F.bodies[caller]
            t = cb.blocks[cbi]['term']
            for a in t['args']:
                pl0 = op_place(a)
                if pl0 is None or cb.local_ty(pl0['l']) != 'u16':
                    continue
                work_, seen_ = [pl0], set()
                while work_ and len(seen_) < 30:
                    q = work_.pop()
                    for e in place_proj(q):
                        if isinstance(e, dict) and e.get('f') in ('topic_alias_max', 'max_topic_alias') and e.get('adt'):
                            if 'connack::ConnectAck' in e['adt']:
                                wrong_dir.append((cb.loc(cbi), e['adt']))
                            elif 'ClientRouter' in e['adt'] or e['adt'].endswith('::Client'):
                                # stored in the client object: look at where that field is filled
                                for ob in F.find(r'^v5::client::'):
                                    for xb, xj, st_ in ob.assigns():
                                        if st_['rv']['k'] == 'agg' and st_['rv'].get('adt') == e['adt'] and e['f'] in (st_['rv'].get('names') or []):
                                            fo_ = op_place(st_['rv']['fields'][st_['rv']['names'].index(e['f'])])
                                            for dd_ in (ob.whole_defs(fo_['l']) if fo_ else []):
                                                if dd_[2] == 'assign' and dd_[3]['rv']['k'] == 'use' and op_place(dd_[3]['rv']['op']) is not None:
                                                    for e2 in place_proj(op_place(dd_[3]['rv']['op'])):
                                                        if isinstance(e2, dict) and e2.get('f') == 'topic_alias_max' and 'connack::ConnectAck' in (e2.get('adt') or ''):
                                                            wrong_dir.append((ob.loc(xb), e2['adt']))
                    if q['l'] in seen_:
                        continue
                    seen_.add(q['l'])
                    for dd_ in cb.whole_defs(q['l']):
                        if dd_[2] == 'assign' and dd_[3]['rv']['k'] in ('use', 'cast') and op_place(dd_[3]['rv']['op']) is not None:
                            work_.append(op_place(dd_[3]['rv']['op']))
        R.ob('C17.bind', 'v5-client|max_topic_alias|not-the-CONNACK-value', not wrong_dir,
             'the limit enforced on aliases the server uses towards this client is taken from CONNACK.topic_alias_max, which limits the other direction: %s' % wrong_dir[:2])
        # ... and it is: Client::new receives CONNECT.topic_alias_max (read before the packet is moved into the encoder)
        ci = F.one(r'^v5::client::connector::MqttConnectorService::<A, T>::connect_inner::\{closure#0\}$')
        from_connect = False
        for cbi, ct in ci.calls_to(r'^v5::client::connection::Client::new$'):
            for a in ct['args']:
                pl0 = op_place(a)
                if pl0 is None or ci.local_ty(pl0['l']) != 'u16':
                    continue
                work_, seen_ = [pl0], set()
                while work_ and len(seen_) < 30:
                    q = work_.pop()
                    for e in place_proj(q):
                        if isinstance(e, dict) and e.get('f') == 'topic_alias_max' and (e.get('adt') or '').endswith('connect::Connect'):
                            from_connect = True
                    if q['l'] in seen_:
                        continue
                    seen_.add(q['l'])
                    for dd_ in ci.whole_defs(q['l']):
                        if dd_[2] == 'assign' and dd_[3]['rv']['k'] in ('use', 'cast') and op_place(dd_[3]['rv']['op']) is not None:
                            work_.append(op_place(dd_[3]['rv']['op']))
        R.ob('C17.bind', 'v5-client|max_topic_alias|is-CONNECT.topic_alias_max', from_connect,
             'the limit handed to the client object is not the Topic Alias Maximum of the CONNECT packet the client sent')
        R.floor('C17.bind', 'client create_dispatcher call sites (u16 limit args)', n, 1)
        R.ob('C17.bind', 'v5-client|max_topic_alias|negotiated-origin', not lits and n > 0, 'all callers pass a value derived from the CONNECT packet')
        for v, locs in sorted(lits.items()):
            R.ob('C17.bind', 'v5-client|max_topic_alias|literal=%s' % v, False,
                 'the client enforces a literal topic-alias maximum (%s, at %d call sites of create_dispatcher) instead of the value it advertised in CONNECT (Connect.topic_alias_max)' % (v, len(locs)), locs[0])


def negotiated_max(F, R):
    """Server: the enforced maximum (shared.topic_alias_max) is the value written to CONNACK."""
    b = F.one(r'^<v5::server::HandshakeService<St, H> as ntex_service::Service<ntex_io::IoBoxed>>::call::\{closure#0\}$')
    sets = [(bi, t) for bi, t in b.calls_to(r'^v5::shared::MqttShared::set_topic_alias_max$')]
    from_ack = []
    for bi, t in sets:
        ap = apath(b, t['args'][1])
        if ap and 'packet' in ap and ap[-1] == 'topic_alias_max' and any('ack' in x or 'call:' in x for x in ap[:1] + ap):
            from_ack.append(bi)
    encs = [bi for bi, t in b.calls_to(r'^ntex_io::.*IoRef>::encode$')]
    ok = bool(from_ack)
    R.ob('C17.bind', 'v5-server|enforced-maximum=advertised', ok,
         'the handshake does not copy the final CONNACK topic_alias_max (possibly overridden by the application) into the value the dispatcher enforces (set_topic_alias_max(ack.packet.topic_alias_max)): the enforced limit differs from the advertised one',
         b.loc(sets[0][0]) if sets else None)


def per_connection(F, R):
    bad = [s for s in F.statics if re.search(r'HashMap|BTreeMap|RefCell|Rc<', s['ty'])]
    R.ob('C17.per-connection', 'no-static-maps', not bad, 'statics holding shared mutable maps: %s' % [s['path'] for s in bad])
    for mod, ctor in (('v5::dispatcher', r'^v5::dispatcher::Dispatcher::<T, C, E>::new$'), ('v5::client::dispatcher', r'^v5::client::dispatcher::create_dispatcher$')):
        b = F.one(ctor)
        aggs = agg_sites(b, r'^%s::PublishInfo$' % re.escape(mod))
        ok = False
        for bi, j, s in aggs:
            i = s['rv']['names'].index('aliases')
            og = Origin(b).of_operand(s['rv']['fields'][i])
            ok = any(l[0] == 'call' and 'Default>::default' in l[1] for l in og) and not any(l[0] == 'arg' for l in og)
        R.ob('C17.per-connection', '%s|PublishInfo.aliases fresh per dispatcher' % mod, ok, 'the alias map must be created empty per dispatcher (per connection)')
    for ver in ('v5',):
        c = F.one(r'^<v5::router::RouterFactory<S, Err> as ntex_service::ServiceFactory<.*>>::create::\{closure#0\}$')
        aggs = agg_sites(c, r'^v5::router::RouterService$')
        ok = False
        for bi, j, s in aggs:
            i = s['rv']['names'].index('aliases')
            og = Origin(c, transparent=re.compile(TRANSPARENT_CALLS.pattern[:-2] + r'|new)$')).of_operand(s['rv']['fields'][i])
            ok = any(l[0] == 'call' and 'Default>::default' in l[1] for l in og) and not any(l[0] == 'arg' for l in og)
        R.ob('C17.per-connection', 'v5::router|RouterService.aliases fresh per create(session)', ok, 'the router alias cache must be created per session')
    # the field types are not Rc-shared
    for adt, fld in (('v5::dispatcher::PublishInfo', 'aliases'), ('v5::client::dispatcher::PublishInfo', 'aliases'), ('v5::router::RouterService', 'aliases')):
        a = F.adts.get(adt)
        ty = [f['ty'] for v in a['variants'] for f in v['fields'] if f['name'] == fld][0] if a else None
        R.ob('C17.per-connection', '%s.%s|owned-map' % (adt, fld), ty is not None and 'Rc<' not in ty and 'Arc<' not in ty, 'field type %s' % ty)


def alias_table_lifetime(F, R):
    """Topic Alias mappings last for the Network Connection: once registered, a binding is only ever replaced by a re-binding
    of the same alias. Nothing clears the table, removes entries or replaces the struct that holds it while the connection
    lives (a "give memory back when idle" reset makes the next alias-only PUBLISH an unknown-alias protocol error)."""
    n = 0
    for b in F.bodies.values():
        if not re.match(r'^<?v5::(client::)?(dispatcher|router)', b.path):
            continue
        for bi, t in b.calls_to(r'^std::collections::HashMap::<K, V, S, A>::(clear|remove|remove_entry|drain|retain|extract_if)$'):
            if 'aliases' in (call_recv_path(b, t, 0) or ()):
                n += 1
                R.ob('C17.per-connection', '%s|aliases.%s|bindings-are-never-dropped' % (top(b), callee_name(t).split('::')[-1]), False,
                     'an alias binding is removed while the connection lives: a later PUBLISH that uses the alias is refused as unknown (or resolved to nothing)', b.loc(bi))
        for bi, j, s in b.assigns():
            lhs = s['lhs']
            pj = place_proj(lhs)
            whole = pj == ['*'] and re.search(r'^&mut v5::(client::)?dispatcher::PublishInfo$|^&mut v5::router::RouterService', b.local_ty(lhs['l']) or '')
            fld = place_fields(lhs)[-1:] == ['aliases']
            if whole or fld:
                n += 1
                R.ob('C17.per-connection', '%s|%s-overwritten|bindings-are-never-dropped' % (top(b), 'PublishInfo' if whole else 'aliases'), False,
                     'the alias table (or the struct holding it) is replaced by a fresh value while the connection lives: every binding the peer registered is forgotten', b.loc(bi))
    R.counts['C17.per-connection:alias table resets found'] = n
    R.ob('C17.per-connection', 'alias-table|no-reset-site', n == 0, '%d place(s) drop alias bindings' % n)


def top(b):
    return re.sub(r'(::\{(closure|inl)#\d+\})+$', '', b.path)


def route_on_resolved(F, R):
    b = F.one(r'^<v5::router::RouterService<Err> as ntex_service::Service<v5::publish::Publish>>::call::\{closure#0\}$')
    recs = [(bi, t) for bi, t in b.calls_to(r'ntex_router::Router::<U>::recognize$|Router.*::recognize$')]
    R.ob('C17.route-on-resolved', 'router|recognize-sites', len(recs) == 1, 'found %d' % len(recs))
    empties = [(bi, t) for bi, t in b.calls_to(r'^core::str::<impl str>::is_empty$|ByteString.*::is_empty$')]
    gets = [(bi, t) for bi, t in b.calls_to(r'^std::collections::HashMap::<K, V, S, A>::get$') if 'aliases' in (call_recv_path(b, t, 0) or ())]
    ok = False
    for ebi, et in empties:
        r = call_bool_branch(b, ebi)
        if r and r[0] != 'discr':
            sb, empty_t, nonempty_t = r
            ok = all(edge_dominates(b, sb, nonempty_t, x) for x, _ in recs) and all(edge_dominates(b, sb, empty_t, x) for x, _ in gets) and bool(gets)
    R.ob('C17.route-on-resolved', 'router|match-on-topic,cache-only-for-empty-topic', ok, 'the router must match non-empty (resolved) topics with recognize() and use its alias cache only for empty topics')
    for bi, t in recs:
        ap = call_recv_path(b, t, 1)
        R.ob('C17.route-on-resolved', 'router|recognize(req.topic_mut())', ap is not None and any('topic_mut' in x for x in ap), 'recognize argument path %s' % apath_str(ap))
    # Publish::new builds its routing path from pkt.topic
    pn = F.one(r'^v5::publish::Publish::new$')
    paths = list(pn.calls_to(r'ntex_router::Path::<T>::new$|Path.*::new$'))
    ok = False
    for bi, t in paths:
        og = Origin(pn).of_operand(t['args'][0])
        ok = ok or any(l[0] == 'arg' and 'topic' in l[2] for l in og)
    R.ob('C17.route-on-resolved', 'Publish::new|path-from-pkt.topic', ok, 'the routing path of the handler message is not built from the (resolved) topic of the packet')


def run(F, R):
    for d in all_dispatchers(F):
        if d.ver == 'v5':
            alias_rules(F, R, d)
    negotiated_max(F, R)
    per_connection(F, R)
    alias_table_lifetime(F, R)
    route_on_resolved(F, R)
