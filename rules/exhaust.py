"""Frame exhaustion: must-dataflow of the fact "the frame buffer argument is empty" through the packet
decoders. A packet decoder may return Ok only when the whole frame was consumed - otherwise a frame whose
inner lengths contradict its Remaining Length (trailing bytes) is silently accepted.

empty := established on the edge of has_remaining()==false / is_empty()==true / remaining()==0 / len()==0,
          or by a callee whose own Ok returns all establish it for the same buffer;
killed by any other call that receives the buffer by mutable reference or by value (it may consume).
"""
from facts import *
from disp import agg_sites

QUERY = re.compile(r'::(has_remaining|is_empty|remaining|len)$')
READONLY = re.compile(r'::(has_remaining|is_empty|remaining|len|as_ref|chunk|deref|clone|as_slice|bytes)$')


class Exhaust:
    def __init__(self, F):
        self.F = F
        self.memo = {}

    def buffer_args(self, b):
        """Indexes of parameters that are the frame buffer (Bytes / &mut Bytes)."""
        out = []
        for i in range(1, b.argc + 1):
            ty = b.local_ty(i) or ''
            if re.match(r'^(&mut )?ntex_bytes::Bytes$', ty):
                out.append(i)
        return out

    def is_buf(self, b, op, buf):
        """Operand refers to the buffer parameter `buf` (directly, by reference, or moved)."""
        p = op_place(op)
        if p is None:
            return False
        og = Origin(b).of_operand(op)
        return any(l[0] == 'arg' and l[1] == buf for l in og) and not any(l[0] in ('call', 'agg') for l in og)

    def ensures_empty(self, fn, buf=None):
        """True when every Ok return of `fn` is reached with its buffer parameter known empty."""
        b = self.F.bodies.get(fn)
        if b is None:
            return False
        bufs = self.buffer_args(b)
        if not bufs:
            return False
        buf = buf or bufs[0]
        key = (fn, buf)
        if key in self.memo:
            return self.memo[key]
        self.memo[key] = False  # recursion guard (pessimistic)
        res, _ = self.analyse(b, buf)
        self.memo[key] = res
        return res

    def edge_facts(self, b, buf):
        """{(src_block, dst_block): True} edges on which the buffer is known empty."""
        facts = {}
        qs = {}
        for bi, t in b.calls():
            nm = callee_name(t) or ''
            if QUERY.search(nm) and t['args'] and self.is_buf(b, t['args'][0], buf):
                qs[t['dest']['l']] = (nm.split('::')[-1], bi)
        # iteration over the whole remaining slice (`for x in src.as_ref()`): the exhausted edge of next()
        whole = re.compile(r'(^|::)(as_ref|deref|iter|into_iter|copied|cloned|borrow|as_slice)$')
        for bi, t in b.calls():
            nm = callee_name(t) or ''
            if not nm.endswith('::next') or not t['args']:
                continue
            og = Origin(b, transparent=whole).of_operand(t['args'][0])
            if any(l[0] == 'arg' and l[1] == buf for l in og) and not any(l[0] in ('agg', 'binop') or (l[0] == 'call' and not whole.search(l[1] or '')) for l in og):
                r = discr_switch_after_call(b, bi)
                if r:
                    sw, tg = r[0], r[1]
                    for val, tb in (tg.items() if isinstance(tg, dict) else tg):
                        if val == 0:
                            facts[(sw, tb)] = True
        # the same iteration written as a chain that is drained by its consumer (`src.iter().map(..).collect::<Result<Vec<_>, _>>()?`):
        # a complete collection (or the Ok side of a collection into Result, which stops early only with Err) has seen every byte
        chain = re.compile(r'(^|::)(as_ref|deref|iter|into_iter|copied|cloned|borrow|as_slice|map|enumerate|inspect|by_ref)$')
        for bi, t in b.calls():
            nm = callee_name(t) or ''
            if not re.search(r'::(collect|sum|count|for_each|fold|last)$', nm) or not t['args'] or t.get('target') is None or place_proj(t['dest']):
                continue
            og = Origin(b, transparent=chain).of_operand(t['args'][0])
            if not any(l[0] == 'arg' and l[1] == buf for l in og):
                continue
            if any(l[0] == 'binop' or (l[0] == 'call' and not chain.search(l[1] or '')) or (l[0] == 'agg' and not (l[1] in self.F.bodies and self.F.bodies[l[1]].d.get('kind') == 'Closure')) for l in og):
                continue
            dty = b.local_ty(t['dest']['l']) or ''
            if not re.match(r'^std::(result::Result|option::Option)<', dty):
                facts[(bi, t['target'])] = True
                continue
            if not dty.startswith('std::result::Result<'):
                continue
            nxt = t['target']
            for _ in range(6):
                nb = b.blocks[nxt]
                if nb['term']['k'] in ('goto', 'drop') and not any(st['k'] == 'assign' for st in nb['stmts']):
                    nxt = nb['term']['target']      # the `return` of a spliced helper (dropping its by-value arguments first)
                else:
                    break
            nb = b.blocks[nxt]
            nt = nb['term']
            at = bi
            if nt['k'] == 'call' and re.search(r'as std::ops::Try>::branch$', callee_name(nt) or '') and nt['args'] and (op_place(nt['args'][0]) or {}).get('l') == t['dest']['l']:
                at = nxt
            r = discr_switch_after_call(b, at)
            if r and 0 in r[1]:
                facts[(r[0], r[1][0])] = True
        for sb in sorted(b.live):
            t = b.blocks[sb]['term']
            if t['k'] != 'switch':
                continue
            p = op_place(t['discr'])
            if not p or place_proj(p):
                continue
            r = self.resolve(b, p['l'], qs)
            if r is None:
                continue
            kind, neg = r   # kind: 'empty-if-true' / 'empty-if-false'
            bb = bool_branch(b, sb, p['l'])
            if not bb:
                continue
            _, tt, ft = bb
            if neg:
                tt, ft = ft, tt
            if kind == 'empty-if-true':
                facts[(sb, tt)] = True
            else:
                facts[(sb, ft)] = True
        return facts

    def resolve(self, b, l, qs, depth=0):
        if l in qs:
            m = qs[l][0]
            if m == 'has_remaining':
                return ('empty-if-false', False)
            if m == 'is_empty':
                return ('empty-if-true', False)
            return None
        ds = [d for d in b.whole_defs(l) if d[0] in b.live]
        if len(ds) != 1 or depth > 6 or ds[0][2] != 'assign':
            return None
        rv = ds[0][3]['rv']
        if rv['k'] == 'use' and op_place(rv['op']) and not place_proj(op_place(rv['op'])):
            return self.resolve(b, op_place(rv['op'])['l'], qs, depth + 1)
        if rv['k'] == 'un' and rv['op'] == 'Not' and op_place(rv['a']):
            r = self.resolve(b, op_place(rv['a'])['l'], qs, depth + 1)
            return (r[0], not r[1]) if r else None
        if rv['k'] == 'bin' and rv['op'] in ('Eq', 'Ne', 'Gt', 'Lt', 'Ge', 'Le'):
            a, c = rv['a'], rv['b']
            pa, pc = op_place(a), op_place(c)
            qa = qs.get(pa['l']) if pa and not place_proj(pa) else None
            qc = qs.get(pc['l']) if pc and not place_proj(pc) else None
            va, vc = const_val(a), const_val(c)
            op = rv['op']
            if qc and va is not None:
                qa, vc, op = qc, va, {'Eq': 'Eq', 'Ne': 'Ne', 'Gt': 'Lt', 'Lt': 'Gt', 'Ge': 'Le', 'Le': 'Ge'}[op]
            if qa and qa[0] in ('remaining', 'len') and vc is not None:
                if (op == 'Eq' and vc == 0) or (op == 'Lt' and vc == 1) or (op == 'Le' and vc == 0):
                    return ('empty-if-true', False)
                if (op == 'Ne' and vc == 0) or (op == 'Gt' and vc == 0) or (op == 'Ge' and vc == 1):
                    return ('empty-if-false', False)
        return None

    def analyse(self, b, buf):
        """-> (all Ok returns have the fact, list of offending (block, why))."""
        facts = self.edge_facts(b, buf)
        order = b.rpo()
        IN, OUT = {}, {}
        changed = True
        it = 0
        while changed and it < 50:
            changed = False
            it += 1
            for bi in order:
                if bi == order[0]:
                    st = False
                else:
                    preds = [p for p in b.pred[bi] if p in OUT]
                    if not preds:
                        continue
                    st = all(OUT[p] or facts.get((p, bi), False) for p in preds)
                if IN.get(bi) != st:
                    IN[bi] = st
                    changed = True
                out = self.transfer(b, bi, st, buf)
                if OUT.get(bi) != out:
                    OUT[bi] = out
                    changed = True
        bad = []
        oks = self.ok_points(b)
        for bi, why in oks:
            if not IN.get(bi, False) and not self.ok_by_tail(b, bi, buf):
                bad.append((bi, why))
        return (not bad and bool(oks)), bad

    def transfer(self, b, bi, st, buf):
        t = b.blocks[bi]['term']
        if t['k'] != 'call':
            return st
        nm = callee_name(t) or ''
        touches = [i for i, a in enumerate(t['args']) if self.is_buf(b, a, buf)]
        if not touches:
            return st
        if READONLY.search(nm):
            return st
        # shared reference cannot consume
        a = t['args'][touches[0]]
        pa = op_place(a)
        aty = b.local_ty(pa['l']) if pa and not place_proj(pa) else ''
        if aty.startswith('&') and not aty.startswith('&mut'):
            return st
        # callee summary
        for q in self.F.call_targets(t):
            qb = self.F.bodies.get(q)
            if qb is not None:
                qbufs = self.buffer_args(qb)
                if touches[0] + 1 in qbufs and self.ensures_empty(q, touches[0] + 1):
                    return True
        return False

    def ok_points(self, b):
        """Blocks where an Ok result is produced for the function's return value."""
        out = []
        for bi, j, s in agg_sites(b, r'^std::result::Result$', 'Ok'):
            if s['lhs']['l'] == 0 and not place_proj(s['lhs']):
                out.append((bi, 'Ok(..)'))
        # `_0 = move r` where r was built as Ok(..) (the result of a spliced helper handed on unchanged)
        for bi, j, s in b.assigns():
            if s['lhs']['l'] == 0 and not place_proj(s['lhs']) and s['rv']['k'] == 'use':
                seen_ = set()
                work_ = [op_place(s['rv']['op'])]
                while work_:
                    pl_ = work_.pop()
                    if pl_ is None or place_proj(pl_) or pl_['l'] in seen_:
                        continue
                    seen_.add(pl_['l'])
                    for d_ in b.whole_defs(pl_['l']):
                        if d_[0] not in b.live or d_[2] != 'assign':
                            continue
                        rv_ = d_[3]['rv']
                        if rv_['k'] == 'agg' and rv_.get('adt') == 'std::result::Result' and rv_.get('variant') == 'Ok':
                            out.append((d_[0], 'Ok(..) via local'))
                        elif rv_['k'] == 'use':
                            work_.append(op_place(rv_['op']))
        # tail calls whose result is returned as is
        for bi, t in b.calls():
            if t['dest']['l'] == 0 and not place_proj(t['dest']):
                nm = callee_name(t) or ''
                if not nm.endswith('from_residual'):
                    out.append((bi, 'tail:' + nm.split('::')[-1]))
        return out

    def ok_by_tail(self, b, bi, buf):
        t = b.blocks[bi]['term']
        if t['k'] != 'call' or t['dest']['l'] != 0:
            return False
        touches = [i for i, a in enumerate(t['args']) if self.is_buf(b, a, buf)]
        if not touches:
            return False
        for q in self.F.call_targets(t):
            if q in self.F.bodies and self.ensures_empty(q, touches[0] + 1):
                return True
        return False


def per_arm(F, ver, spec_types):
    """[(packet type name, ok, loc, why)] for every first-byte arm of decode_packet."""
    b = F.one(r'^%s::codec::decode::decode_packet$' % ver)
    ex = Exhaust(F)
    buf = ex.buffer_args(b)
    if not buf:
        raise AnchorLost('%s decode_packet: Bytes parameter' % ver)
    buf = buf[0]
    sw = None
    for sb in sorted(b.live):
        t = b.blocks[sb]['term']
        if t['k'] == 'switch' and len(t['targets']) >= 10:
            sw = sb
    if sw is None:
        raise AnchorLost('%s decode_packet: switch on the first byte' % ver)
    t = b.blocks[sw]['term']
    targets = {tb for _, tb in t['targets']} | {t['otherwise']}
    okall, bad = ex.analyse(b, buf)
    badblocks = {x for x, _ in bad}
    out = []
    for v, tb in t['targets']:
        reg = b.reachable(tb, avoid=targets - {tb})
        name = spec_types.get(v, '0x%02X' % v)
        oks = [(bi, why) for bi, why in ex.ok_points(b) if bi in reg]
        offenders = [bi for bi, _ in oks if bi in badblocks]
        out.append((name, bool(oks) and not offenders, b.loc(offenders[0] if offenders else tb), oks))
    return out
