"""A5 (buffer part): forward must-dataflow of "at least k bytes available" facts for Buf-like
values, per body. Facts come from dominating guards on remaining()/len()/has_remaining()/is_empty()
(also symbolic: `remaining() >= n` for a local n) and are consumed by get_*/advance/split_to.
Join = weaker fact. Unknown calls that receive the buffer reset its fact.

prove(body) -> {call_block: (proven, reason)} for every consuming call.
"""
from facts import *

CONSUME = {
    'get_u8': 1, 'get_i8': 1, 'get_u16': 2, 'get_i16': 2, 'get_u32': 4, 'get_i32': 4, 'get_u64': 8, 'get_i64': 8,
    'advance': None, 'split_to': None, 'split_off': None, 'copy_to_slice': None, 'copy_to_bytes': None,
}
QUERY = re.compile(r'::(remaining|len|has_remaining|is_empty)$')
PRESERVE = re.compile(r'::(remaining|len|has_remaining|is_empty|as_ref|chunk|deref|clone|get|position|as_slice|borrow|iter|bytes)$')
BUF_TY = re.compile(r'ntex_bytes::(Bytes|BytesMut)\b|std::io::Cursor<|impl ntex_bytes::Buf|^&mut B$|^B$|&mut B\b')


def buf_of_call(b, t):
    """Access path of the buffer a Buf method is applied to (receiver), or None."""
    if not t['args']:
        return None
    return apath(b, t['args'][0])


def consume_kind(nm):
    base = nm.split('::')[-1]
    if base in CONSUME and ('ntex_bytes' in nm or 'Buf' in nm):
        return base
    return None


def val_key(b, op):
    v = const_val(op)
    if v is not None:
        return ('const', v)
    p = op_place(op)
    if p is None:
        return ('?',)
    for _ in range(10):
        if place_proj(p):
            return ('place', place_key(p))
        l = p['l']
        ds = [d for d in b.whole_defs(l) if d[0] in b.live]
        if len(ds) == 1 and ds[0][2] == 'assign' and ds[0][3]['rv']['k'] in ('use', 'cast'):
            src = ds[0][3]['rv'].get('op')
            if const_val(src) is not None:
                return ('const', const_val(src))
            sp = op_place(src)
            if sp is None:
                break
            p = sp
        elif len(ds) == 1 and ds[0][2] == 'call' and (callee_name(ds[0][3]) or '') in ('std::mem::size_of', 'core::mem::size_of'):
            # `size_of::<u16>()` spelled instead of the literal 2
            c = op_const(ds[0][3]['func']) or {}
            sz = {'u8': 1, 'i8': 1, 'bool': 1, 'u16': 2, 'i16': 2, 'u32': 4, 'i32': 4, 'u64': 8, 'i64': 8, 'u128': 16}.get(((c.get('args') or [None])[0]))
            if sz is not None:
                return ('const', sz)
            break
        else:
            break
    return ('local', p['l']) if not place_proj(p) else ('place', place_key(p))


class BufFlow:
    def __init__(self, body):
        self.b = body
        self.edge_facts = {}   # (src, dst) -> list of (buf, kind, value)
        self.query_of = {}     # local -> (buf, method)
        self._scan()

    def _scan(self):
        b = self.b
        for bi, t in b.calls():
            nm = callee_name(t) or ''
            if QUERY.search(nm):
                buf = buf_of_call(b, t)
                if buf:
                    self.query_of[t['dest']['l']] = (tuple(buf), nm.split('::')[-1])
        # edges refined by comparisons
        for sb in sorted(b.live):
            t = b.blocks[sb]['term']
            if t['k'] != 'switch':
                continue
            p = op_place(t['discr'])
            if not p or place_proj(p):
                continue
            # direct bool query (has_remaining / is_empty), possibly negated
            r = bool_branch(b, sb, p['l'])
            if not r:
                continue
            _, tt, ft = r
            src = self._resolve_bool(p['l'])
            if src is None:
                continue
            kind, payload, neg = src
            if neg:
                tt, ft = ft, tt
            if kind == 'query':
                buf, meth = payload
                if meth == 'has_remaining':
                    self._add(sb, tt, buf, 'lb', 1)
                elif meth == 'is_empty':
                    self._add(sb, ft, buf, 'lb', 1)
            elif kind == 'cmp':
                op, a, c = payload
                qa, qc = self._as_query(a), self._as_query(c)
                if qa and qa[1] in ('remaining', 'len'):
                    self._cmp_facts(sb, tt, ft, qa[0], op, c)
                elif qc and qc[1] in ('remaining', 'len'):
                    flip = {'Lt': 'Gt', 'Le': 'Ge', 'Gt': 'Lt', 'Ge': 'Le', 'Eq': 'Eq', 'Ne': 'Ne'}[op]
                    self._cmp_facts(sb, tt, ft, qc[0], flip, a)

    def _resolve_bool(self, l, depth=0):
        b = self.b
        if l in self.query_of:
            return ('query', self.query_of[l], False)
        ds = [d for d in b.whole_defs(l) if d[0] in b.live]
        if len(ds) != 1 or depth > 6:
            return None
        d = ds[0]
        if d[2] == 'assign':
            rv = d[3]['rv']
            if rv['k'] == 'bin' and rv['op'] in ('Lt', 'Le', 'Gt', 'Ge', 'Eq', 'Ne'):
                return ('cmp', (rv['op'], rv['a'], rv['b']), False)
            if rv['k'] == 'use' and op_place(rv['op']) and not place_proj(op_place(rv['op'])):
                return self._resolve_bool(op_place(rv['op'])['l'], depth + 1)
            if rv['k'] == 'un' and rv['op'] == 'Not' and op_place(rv['a']):
                r = self._resolve_bool(op_place(rv['a'])['l'], depth + 1)
                if r:
                    return (r[0], r[1], not r[2])
        return None

    def _as_query(self, op):
        p = op_place(op)
        if not p or place_proj(p):
            return None
        l = p['l']
        for _ in range(8):
            if l in self.query_of:
                return self.query_of[l]
            ds = [d for d in self.b.whole_defs(l) if d[0] in self.b.live]
            if len(ds) == 1 and ds[0][2] == 'assign' and ds[0][3]['rv']['k'] in ('use', 'cast') and op_place(ds[0][3]['rv'].get('op')) and not place_proj(op_place(ds[0][3]['rv']['op'])):
                l = op_place(ds[0][3]['rv']['op'])['l']
            else:
                return None
        return None

    def _cmp_facts(self, sb, tt, ft, buf, op, other):
        """remaining(buf) <op> other holds on tt, its negation on ft."""
        k = val_key(self.b, other)
        def add(edge_t, rel):
            # rel: ('ge', key) meaning remaining >= key ; ('gt', key)
            if k[0] == 'const':
                n = k[1] + (1 if rel == 'gt' else 0)
                self._add(sb, edge_t, buf, 'lb', n)
            else:
                self._add(sb, edge_t, buf, 'sym' if rel == 'ge' else 'symgt', k)
        if op == 'Ge':
            add(tt, 'ge')
        elif op == 'Gt':
            add(tt, 'gt')
        elif op == 'Lt':
            add(ft, 'ge')
        elif op == 'Le':
            add(ft, 'gt')
        elif op == 'Eq' and k == ('const', 0):
            self._add(sb, ft, buf, 'lb', 1)
        elif op == 'Ne' and k == ('const', 0):
            self._add(sb, tt, buf, 'lb', 1)

    def _add(self, s, d, buf, kind, v):
        self.edge_facts.setdefault((s, d), []).append((buf, kind, v))

    # ------------------------------------------------------------------ dataflow
    def run(self):
        b = self.b
        order = b.rpo()
        IN = {}
        OUT = {}
        proofs = {}
        changed = True
        it = 0
        while changed and it < 60:
            changed = False
            it += 1
            for bi in order:
                preds = [p for p in b.pred[bi] if p in OUT]
                if bi == order[0]:
                    st = {}
                elif not preds:
                    continue
                else:
                    st = None
                    for p in preds:
                        ps = self._edge(OUT[p], p, bi)
                        st = ps if st is None else self._join(st, ps)
                if IN.get(bi) != st:
                    IN[bi] = st
                    changed = True
                out, pr = self._transfer(dict(st), bi)
                if pr:
                    proofs.update(pr)
                if OUT.get(bi) != out:
                    OUT[bi] = out
                    changed = True
        return proofs

    def _edge(self, st, s, d):
        st = dict(st)
        for buf, kind, v in self.edge_facts.get((s, d), []):
            lb, sym = st.get(buf, (0, None))
            if kind == 'lb':
                lb = max(lb, v)
            elif kind == 'sym':
                sym = v
            elif kind == 'symgt':
                sym = v
                lb = max(lb, 1)
            st[buf] = (lb, sym)
        return st

    def _join(self, a, c):
        out = {}
        for k in set(a) & set(c):
            la, sa = a[k]
            lc, sc = c[k]
            out[k] = (min(la, lc), sa if sa == sc else None)
        return out

    def _transfer(self, st, bi):
        b = self.b
        t = b.blocks[bi]['term']
        proofs = {}
        if t['k'] != 'call':
            return st, proofs
        nm = callee_name(t) or ''
        ck = consume_kind(nm)
        buf = buf_of_call(b, t)
        buf = tuple(buf) if buf else None
        if ck and buf is not None:
            lb, sym = st.get(buf, (0, None))
            size = CONSUME[ck]
            if size is not None:
                ok = lb >= size
                proofs[bi] = (ok, 'avail>=%d needed %d' % (lb, size))
                st[buf] = (max(lb - size, 0), None if size else sym)
            else:
                n = t['args'][1] if len(t['args']) > 1 else None
                k = val_key(b, n) if n is not None else ('?',)
                if k[0] == 'const':
                    ok = lb >= k[1]
                    proofs[bi] = (ok, 'avail>=%d needed %d' % (lb, k[1]))
                    st[buf] = (max(lb - k[1], 0), None)
                else:
                    ok = sym is not None and sym == k
                    why = 'avail>=%s needed %s' % (sym, k)
                    if not ok:
                        ok, why2 = self._min_arg(n, buf)
                        why = why2 if ok else why
                    proofs[bi] = (ok, why)
                    st[buf] = (0, None)
            return st, proofs
        if PRESERVE.search(nm):
            return st, proofs
        # any other call that receives a tracked buffer (or a reference to it) resets its fact
        for a in t['args']:
            ap = apath(b, a)
            pa = op_place(a)
            aty = b.local_ty(pa['l']) if pa and not place_proj(pa) else '&mut ?'
            if aty.startswith('&') and not aty.startswith('&mut'):
                continue  # a shared reference (or slice) cannot consume
            if ap:
                for k in list(st):
                    if tuple(ap[:len(k)]) == k or k[:len(ap)] == tuple(ap):
                        st[k] = (0, None)
        return st, proofs

    def _min_arg(self, op, buf):
        """split_to(min(buf.len(), x)) is always within bounds."""
        b = self.b
        p = op_place(op)
        if not p:
            return False, ''
        l = p['l']
        for _ in range(8):
            ds = [d for d in b.whole_defs(l) if d[0] in b.live]
            if len(ds) != 1:
                return False, ''
            d = ds[0]
            if d[2] == 'call' and (callee_name(d[3]) or '').endswith('cmp::min'):
                for a in d[3]['args']:
                    q = self._as_query(a)
                    if q and q[0] == buf and q[1] in ('len', 'remaining'):
                        return True, 'argument is min(len(), ..) of the same buffer'
                return False, ''
            if d[2] == 'assign' and d[3]['rv']['k'] in ('use', 'cast') and op_place(d[3]['rv'].get('op')) and not place_proj(op_place(d[3]['rv']['op'])):
                l = op_place(d[3]['rv']['op'])['l']
            else:
                return False, ''
        return False, ''
