"""C05 (structural part): single-enqueue: only wait_response / wait_publish_response{,_no_block}
and the PUBREC re-queue of pkt_ack_inner (which popped first) add to the outstanding queue;
gated: every sink path to an enqueue passes a readiness decision (wait_readiness() or the
is_ready() assertion); check-then-act: between the readiness decision and the enqueue there is no
await, or the waker reserves the slot (updates a field that wait_readiness reads); cap-source: the
argument of set_cap derives from the negotiated values (v5 server: min(max_send, peer Receive
Maximum); v5 client: CONNACK receive_max; v3: max_send) on the accept path. The count at every
instant for every interleaving is not decided. cap-source (continued, v5 server): every value that can reach set_cap - following copies and branch merges backwards - is `min(.., peer Receive Maximum)` (or the no-peer-limit branch). cap-source (continued, hand-written minimum): a definition that reaches set_cap is bounded when it is the peer's value itself, or when every path to the copy that carries it passes the None edge of the peer-limit test or the `other <= peer` side of a comparison with it. cap-source (continued): set_cap stores the value it is given on every path (no constant reaches the cell).
"""
from facts import *

ENQ = r'^%s::shared::MqttShared::(wait_response|wait_publish_response|wait_publish_response_no_block)$'
READY = r'^%s::shared::MqttShared::(wait_readiness|is_ready)$'


def top_fn(path):
    return re.sub(r'(::\{closure#\d+\})+$', '', path)


def single_enqueue(F, R, ver):
    allowed = {'wait_response', 'wait_publish_response', 'wait_publish_response_no_block', 'pkt_ack_inner'}
    n = 0
    for b in F.find(r'^(<)?%s::' % ver):
        for bi, t, ap in calls_on_field(b, r'VecDeque::<T, A>::(push_back|push_front|insert|extend)$', 'inflight'):
            if 'queues' not in ap:
                continue
            n += 1
            fn = top_fn(b.path).split('::')[-1]
            R.ob('C05.single-enqueue', '%s|%s|push(inflight)' % (ver, top_fn(b.path)), b.path.startswith('%s::shared::MqttShared::' % ver) and fn in allowed,
                 'the outstanding queue is extended from an unreviewed place: the window accounting (readiness gate) does not cover it', b.loc(bi))
            if fn == 'pkt_ack_inner':
                pops = {x[0] for x in calls_on_field(b, r'VecDeque::<T, A>::(pop_front|pop_back|remove|swap_remove_back|swap_remove_front)$', 'inflight')}
                R.ob('C05.single-enqueue', '%s|pkt_ack_inner|requeue-after-pop' % ver, b.must_pass(pops, bi), 'the PUBREC re-queue must replace the entry popped before (net count unchanged)', b.loc(bi))
    R.floor('C05.single-enqueue', '%s enqueue sites' % ver, n, 4)


def single_dequeue(F, R, ver):
    """Entries leave the outstanding queue only where an acknowledgement is processed (pkt_ack_inner), where a
    send that put nothing on the wire is cancelled (cancel_response) and when the connection's queues are
    cleared: any other removal frees a window slot although the exchange is still open at the peer."""
    allowed = {'pkt_ack_inner', 'cancel_response', 'clear_queues'}
    n = 0
    for b in F.find(r'^(<)?%s::' % ver):
        for bi, t, ap in calls_on_field(b, r'VecDeque::<T, A>::(pop_front|pop_back|remove|retain|retain_mut|clear|drain|truncate|split_off|swap_remove_back|swap_remove_front)$', 'inflight'):
            if 'queues' not in ap:
                continue
            n += 1
            fn = top_fn(b.path).split('::')[-1]
            R.ob('C05.single-enqueue', '%s|%s|%s(inflight)' % (ver, top_fn(b.path), (callee_name(t) or '').split('::')[-1]), b.path.startswith('%s::shared::MqttShared::' % ver) and fn in allowed,
                 'an entry is removed from the outstanding queue outside acknowledgement processing: its slot is reused while the peer has not acknowledged it, so more than the limit is in flight', b.loc(bi))
    # the same through a destructured reference (`let MqttSharedQueues { inflight, .. } = &mut *queues`)
    for b in F.find(r'^(<)?%s::shared::' % ver):
        fn = top_fn(b.path).split('::')[-1]
        for bi, t in b.calls_to(r'VecDeque::<T, A>::(retain|retain_mut|drain|truncate|clear|remove)$'):
            ty = b.local_ty(op_place(t['args'][0])['l']) if t['args'] and op_place(t['args'][0]) else ''
            if 'AckType' in ty and fn not in allowed:
                n += 1
                R.ob('C05.single-enqueue', '%s|%s|%s(outstanding queue by type)' % (ver, top_fn(b.path), (callee_name(t) or '').split('::')[-1]), False,
                     'an entry is removed from the outstanding queue outside acknowledgement processing', b.loc(bi))
    R.floor('C05.single-enqueue', '%s dequeue sites' % ver, n, 3)


def pubrec_keeps_slot(F, R, ver):
    """A QoS 2 exchange occupies its window slot until PUBCOMP: on every Ok exit of the PUBREC branch
    of pkt_ack_inner the popped entry has been re-queued."""
    import c06
    b = F.one(r'^%s::shared::MqttShared::pkt_ack_inner$' % ver)
    ack = F.adts['%s::shared::Ack' % ver]
    ridx = [i for i, v in enumerate(ack['variants']) if v['name'] == 'Receive'][0]
    edges = [(s_, t_) for s_, t_, lab in c06.discr_bool_edges(b, 2) if lab == 'pkt#%d' % ridx]
    # a `matches!` first branches on the discriminant to set a bool and then on the bool: keep the deciding (last) edge
    edges = [(s_, t_) for s_, t_ in edges if not any((s2, t2) != (s_, t_) and s2 in b.reachable(t_) for s2, t2 in edges)]
    requeue = {x[0] for x in calls_on_field(b, r'VecDeque::<T, A>::push_back$', 'inflight')}
    oks = [bi for bi, j, s in b.assigns() if s['lhs']['l'] in b.ret_locals and s['rv']['k'] == 'agg' and s['rv'].get('variant') == 'Ok']
    # Ok exits reachable from the PUBREC edge (the `Ok(())` may be shared by all arms after the match)
    in_rec = [x for x in oks if any(x == t_ or x in b.reachable(t_) for s_, t_ in edges)]
    R.ob('C05.single-enqueue', '%s|pkt_ack_inner|PUBREC-branch-found' % ver, bool(edges) and bool(in_rec), 'could not locate the PUBREC branch (edges %d, Ok exits %d)' % (len(edges), len(in_rec)))
    for x in in_rec:
        ok = all(b.must_pass(requeue, x, start=t_) for s_, t_ in edges if x == t_ or x in b.reachable(t_))
        R.ob('C05.single-enqueue', '%s|pkt_ack_inner|PUBREC=>entry-stays-outstanding' % ver, ok,
             'the PUBREC branch can finish without re-queueing the exchange (e.g. when the sender future was dropped): its window slot is freed at PUBREC although PUBREL/PUBCOMP are still outstanding, so more than `cap` exchanges are open', b.loc(x))


def gated(F, R, ver):
    enq_sites = []
    for b in F.find(r'^(<)?%s::sink::' % ver):
        for bi, t in b.calls_to(ENQ % ver):
            enq_sites.append((b, bi, t))
    R.floor('C05.gated', '%s enqueue call sites in sink' % ver, len(enq_sites), 6)
    for b, bi, t in enq_sites:
        ok, how = gated_site(F, b, bi, ver, 0)
        R.ob('C05.gated', '%s|%s' % (top_fn(b.path), callee_name(t).split('::')[-1]), ok,
             'a send path reaches the outstanding queue without a readiness decision (wait_readiness / is_ready): %s' % how, b.loc(bi))


def gated_site(F, b, bi, ver, depth):
    rd = {x for x, t in b.calls_to(READY % ver)}
    if rd and b.must_pass(rd, bi):
        return True, 'readiness decision dominates in %s' % top_fn(b.path)
    if depth >= 3:
        return False, 'no readiness decision found within 3 caller levels'
    # who creates/calls this body?
    me = b.path
    callers = []
    parent = b.d.get('parent')
    if parent and parent in F.bodies:
        pb = F.bodies[parent]
        for xb, xj, s in pb.assigns():
            if s['rv']['k'] == 'agg' and s['rv'].get('def') == me:
                callers.append((pb, xb))
    for cp, cbi in F.callers.get(me, []):
        if re.match(r'^(<)?%s::sink::' % ver, cp):
            callers.append((F.bodies[cp], cbi))
    if not callers:
        return False, '%s has no gated caller' % top_fn(me)
    for cb, cbi in callers:
        ok, how = gated_site(F, cb, cbi, ver, depth + 1)
        if not ok:
            return False, how
    return True, 'all callers gated'


def predicate_fields(F, ver):
    b = F.one(r'^%s::shared::MqttShared::wait_readiness$' % ver)
    fields = set()
    for bi, t in b.calls():
        ap = call_recv_path(b, t, 0)
        if ap and ap[0] == 'arg1' and len(ap) > 1:
            nm = callee_name(t) or ''
            if re.search(r'::(len|get|contains|is_empty|borrow|borrow_mut)$', nm):
                fields.add(ap[-1] if ap[-1] != 'queues' else None)
    fields.discard(None)
    fields.discard('queues')
    return fields


def wakers_reserve(F, ver, pred_fields):
    """Does any waker update a predicate field on the successful-wake edge?"""
    res = False
    for fn in ('pkt_ack_inner', 'set_cap', 'disable_wr_backpressure', 'cancel_response'):
        b = F.body('%s::shared::MqttShared::%s' % (ver, fn))
        if b is None:
            continue
        for bi, t in b.calls_to(r'ntex_util::channel::pool::Sender::<T>::send$'):
            a0 = op_place(t['args'][0])
            if not a0 or 'Sender<()>' not in b.local_ty(a0['l']):
                continue
            r = call_bool_branch(b, bi)
            if not r or r[0] == 'discr':
                continue
            ok_t = r[1]
            reg = b.reachable(ok_t)
            for xb, xt in b.calls():
                if xb in reg and xb != bi:
                    nm = callee_name(xt) or ''
                    ap = call_recv_path(b, xt, 0)
                    if ap and ap[-1] in pred_fields and re.search(r'::(set|push_back|insert|replace|fetch_add)$', nm) and not (fn == 'set_cap' and ap[-1] == 'cap'):
                        res = True
    return res


def check_then_act(F, R, ver):
    pf = predicate_fields(F, ver)
    R.ob('C05.check-then-act', '%s|predicate-read-set' % ver, {'inflight', 'cap', 'flags'} <= pf or len(pf) >= 3, 'wait_readiness reads %s' % sorted(pf))
    reserve = wakers_reserve(F, ver, pf)
    R.table('%s readiness predicate reads' % ver, sorted(pf))
    n = 0
    for b in F.find(r'^(<)?%s::sink::' % ver):
        if not b.is_coroutine:
            continue
        for a in await_points(b):
            ty = a['callee'] or ''
            # awaits of a pool::Receiver<()> obtained from wait_readiness
            if 'pool::Receiver' not in ty:
                continue
            arg_ty = b.local_ty(op_place(b.blocks[a['poll']]['term']['args'][0])['l']) if op_place(b.blocks[a['poll']]['term']['args'][0]) else ''
            if 'Receiver<()>' not in arg_ty and 'Receiver<()>' not in str(a['awaited']):
                # find by type of the awaited future local
                pass
            after = b.reachable(a['ready'])
            leads = []
            for bi, t in b.calls():
                if bi in after:
                    nm = callee_name(t) or ''
                    if re.match(ENQ % ver, nm) or re.search(r'::sink::PublishBuilder::(send_at_least_once_inner|stream_at_least_once_inner|send_exactly_once_inner)$', nm):
                        leads.append((bi, nm))
            if not leads or not awaited_is_waiter(b, a):
                continue
            rechecks = {x for x, t in b.calls_to(READY % ver) if x in after}
            for bi, nm in leads:
                n += 1
                ok = reserve or (bool(rechecks) and b.must_pass(rechecks, bi, start=a['ready']))
                R.ob('C05.check-then-act', '%s|await(waiter)->%s' % (top_fn(b.path), nm.split('::')[-1]), ok,
                     'the send resumes after awaiting its wake-up and enqueues without re-evaluating the window; the wakers (pkt_ack_inner/set_cap/disable_wr_backpressure) reserve nothing, so a different '
                     'sender can take the freed slot between the wake-up and the resumption: cap + 1 packets outstanding', b.loc(bi))
    R.floor('C05.check-then-act', '%s awaiting send paths' % ver, n, 5)


def eager_reservation(F, R, ver):
    """A sink function that tests the window when it is CALLED (plain fn returning a future) must also take
    the slot at the call: the enqueue may not be deferred into a coroutine that only runs when the returned
    future is first polled - two sends created back to back would both pass the test."""
    n = 0
    for b in F.find(r'^%s::sink::\w+::\w+$' % ver):
        if b.is_coroutine:
            continue
        rs = [(bi, t) for bi, t in b.calls_to(r'^%s::shared::MqttShared::wait_readiness$' % ver)]
        if not rs:
            continue
        for rb, rt in rs:
            r = discr_switch_after_call(b, rb)
            if not r:
                continue
            sw, tg, oth = r
            free = tg.get(0, oth)      # None: window is free
            wait = tg.get(1, oth)
            reg = b.reachable(free, avoid=[wait])
            for bi, t in b.calls():
                if bi not in reg:
                    continue
                nm = callee_name(t) or ''
                if re.match(ENQ % ver, nm):
                    n += 1
                    R.ob('C05.check-then-act', '%s|window-free=>slot-taken-at-the-call|%s' % (b.path, nm.split('::')[-1]), True, '', b.loc(bi))
                    continue
                q = F.bodies.get(nm)
                if q is None or not re.search(r'^%s::sink::' % ver, nm):
                    continue
                direct = any(re.match(ENQ % ver, callee_name(t2) or '') for _, t2 in q.calls())
                lazy = [c for c in F.descendants(q) if c.is_coroutine and any(re.match(ENQ % ver, callee_name(t2) or '') for _, t2 in c.calls())] if hasattr(F, 'descendants') else []
                if not direct and not lazy:
                    continue
                n += 1
                R.ob('C05.check-then-act', '%s|window-free=>slot-taken-at-the-call|%s' % (b.path, nm.split('::')[-1]), direct and not lazy,
                     'the window is tested when %s() is called but %s() enqueues only inside its future (first poll): sends created back to back and then driven together all pass the test and exceed the window' % (b.path.split('::')[-1], nm.split('::')[-1]), b.loc(bi))
    R.floor('C05.check-then-act', '%s call-time window tests with a send behind them' % ver, n, 3)


def awaited_is_waiter(b, a):
    t = b.blocks[a['poll']]['term']
    # Pin<&mut Receiver<()>> argument type
    p = op_place(t['args'][0])
    ty = b.local_ty(p['l']) if p else ''
    return 'pool::Receiver<()>' in ty


def cap_source(F, R):
    spec = [
        ('v5-server', r'^<v5::server::HandshakeService<St, H> as ntex_service::Service<ntex_io::IoBoxed>>::call::\{closure#0\}$', 'v5', ['max_send', 'receive_max']),
        ('v5-client', r'^v5::client::connector::MqttConnectorService::<A, T>::connect_inner::\{closure#0\}$', 'v5', ['receive_max']),
        ('v3-server', r'^<v3::server::HandshakeService<St, H> as ntex_service::Service<ntex_io::IoBoxed>>::call::\{closure#0\}$', 'v3', ['max_send']),
        ('v3-client', r'^v3::client::connector::MqttConnectorService::<A, T>::connect_inner::\{closure#0\}$', 'v3', ['max_send']),
    ]
    wide = re.compile(TRANSPARENT_CALLS.pattern[:-2] + r'|map_or|min|unwrap_or)$')
    for name, pat, ver, want in spec:
        b = F.one(pat)
        sc = list(b.calls_to(r'^%s::shared::MqttShared::set_cap$' % ver))
        R.ob('C05.cap-source', '%s|set_cap-sites' % name, len(sc) == 1, 'found %d set_cap calls on the accept path' % len(sc))
        for bi, t in sc:
            names = origin_field_names(F, b, t['args'][1], wide)
            for w in want:
                R.ob('C05.cap-source', '%s|set_cap<-%s' % (name, w), w in names, 'the send window is set from %s; it must depend on %s' % (sorted(names)[:8], w), b.loc(bi))
            if name == 'v5-server':
                fam = F.family(b)
                mins = [1 for x in fam for _ in x.calls_to(r'^std::cmp::min$')]
            if name == 'v5-server':
                # every value that can reach set_cap is the bounded one: following copies/casts and the merges of branches,
                # each terminal definition is `min(.., peer Receive Maximum)` or `peer.map_or(.., |v| min(.., v))`; a branch
                # that hands on an override (ack.max_send) without the `min` lets the window exceed what the peer announced
                terms = reaching_defs(b, t['args'][1])
                unb = []
                # hand-written bounds: edges on which the travelling value is known not to exceed the peer's limit - the None edge
                # of a test of the peer's Receive Maximum (no limit announced) and the side of a comparison `other <= peer`
                safe_edges = set()
                for sb_ in sorted(b.live):
                    tt_ = b.blocks[sb_]['term']
                    if tt_['k'] != 'switch':
                        continue
                    pl_ = op_place(tt_['discr'])
                    for dd_ in (b.whole_defs(pl_['l']) if pl_ and not place_proj(pl_) else []):
                        if dd_[2] != 'assign':
                            continue
                        rv_ = dd_[3]['rv']
                        tg_ = dict((v_, x2_) for v_, x2_ in tt_['targets'])
                        if rv_['k'] == 'discr' and 'receive_max' in origin_field_names(F, b, {'cp': rv_['place']}, wide):
                            if tg_.get(0, tt_['otherwise']) != tg_.get(1, tt_['otherwise']):
                                safe_edges.add((sb_, tg_.get(0, tt_['otherwise'])))
                        elif rv_['k'] == 'bin' and rv_['op'] in ('Lt', 'Le', 'Gt', 'Ge') and dd_[0] == sb_:
                            ra_ = op_place(rv_['a']) is not None and 'receive_max' in origin_field_names(F, b, rv_['a'], wide)
                            rb_ = op_place(rv_['b']) is not None and 'receive_max' in origin_field_names(F, b, rv_['b'], wide)
                            if ra_ == rb_:
                                continue
                            # side on which the non-peer operand is <= the peer's value
                            good_true = (rv_['op'] in ('Gt', 'Ge')) if ra_ else (rv_['op'] in ('Lt', 'Le'))
                            tt2_, ft2_ = (tt_['otherwise'], tg_.get(0)) if 0 in tg_ else (tg_.get(1), tt_['otherwise'])
                            if tt2_ is not None and ft2_ is not None and tt2_ != ft2_:
                                safe_edges.add((sb_, tt2_ if good_true else ft2_))
                succ_cut_ = [[x_ for x_ in b.succ[i_] if (i_, x_) not in safe_edges] for i_ in range(len(b.succ))] if safe_edges else None
                open_ = b.reachable(0, succ=succ_cut_) if succ_cut_ else None
                for kind_, xb_, x_, via_ in terms:
                    okd = False
                    if kind_ == 'call':
                        nm_ = callee_name(x_) or ''
                        if re.search(r'(^std::cmp::min$|::min$)', nm_):
                            okd = any('receive_max' in origin_field_names(F, b, a_, wide) for a_ in x_['args'])
                        elif re.search(r'Option::<.*>::(map_or|map_or_else|map)$', nm_) and x_['args']:
                            recv_ok = 'receive_max' in origin_field_names(F, b, x_['args'][0], wide)
                            clos_ = [c_ for c_ in F.descendants(b) if any(True for _ in c_.calls_to(r'(^std::cmp::min$|::min$)'))]
                            okd = recv_ok and bool(clos_)
                    if not okd and kind_ in ('call', 'arg', 'use', 'cast') and via_:
                        # the value is the peer's own limit (nothing else flows into it)
                        src_ = x_['dest'] if kind_ == 'call' else None
                        if src_ is not None and (lambda ns_: 'receive_max' in ns_ and not (ns_ & {'max_send', 'cfg'}))(origin_field_names(F, b, {'cp': src_}, wide)) and not re.search(r'(unwrap_or|map_or)', callee_name(x_) or ''):
                            okd = True
                    if not okd and open_ is not None and any(v_ not in open_ for v_ in via_):
                        # the copy that carries it sits behind a None-edge / `other <= peer` edge on every path
                        okd = True
                    if not okd:
                        unb.append((kind_, xb_))
                R.ob('C05.cap-source', 'v5-server|every-value-reaching-set_cap-is-bounded-by-the-peer-receive-maximum', bool(terms) and not unb,
                     'a value can reach set_cap() that was not passed through min(.., CONNECT Receive Maximum) (%d of %d reaching definitions): on that branch the send window can exceed what the peer allows' % (len(unb), len(terms)), b.loc(unb[0][1]) if unb else b.loc(bi))
                R.ob('C05.cap-source', 'v5-server|set_cap=min(..)', bool(mins) or (bool(terms) and not unb and bool(safe_edges)),
                     'the window must be the minimum of the configured max_send and the peer Receive Maximum')
            consts = [l for l in Origin(b, transparent=wide).of_operand(t['args'][1]) if l[0] == 'const']
            R.ob('C05.cap-source', '%s|set_cap-not-literal' % name, not consts, 'literal window %s' % consts, b.loc(bi))


def cap_stored_verbatim(F, R):
    """set_cap(n) stores n: the window in force is the negotiated value itself - no constant can reach the cell (a `0 means
    unlimited` mapping turns min(0, peer Receive Maximum) = 0 into no limit at all)."""
    n = 0
    for ver in ('v3', 'v5'):
        b = F.one(r'^%s::shared::MqttShared::set_cap$' % ver)
        for bi, t in b.calls_to(r'^std::cell::Cell::<T>::set$'):
            if (call_recv_path(b, t, 0) or ('',))[-1] != 'cap':
                continue
            n += 1
            vals = reaching_defs(b, t['args'][1])
            consts = [x for x in vals if x[0] == 'const']
            from_arg = any(x[0] == 'arg' for x in vals)
            R.ob('C05.cap-source', '%s|set_cap|stores-its-argument' % ver, from_arg and not consts and all(x[0] == 'arg' for x in vals),
                 'set_cap() can store something else than the value it was given (%s): the send window in force is not the negotiated one' % sorted({x[0] for x in vals}), b.loc(bi))
    R.floor('C05.cap-source', 'stores of the send window', n, 2)


def reaching_defs(b, op, limit=80):
    """Terminal definitions of an operand's value: copies, moves, casts and field-less reborrows are followed backwards,
    every definition of a local that is assigned on several branches is followed; stops at calls, aggregates, operators.
    -> [(kind, block, stmt-or-terminator, blocks of the copies the value travelled through)]"""
    out = []
    seen = set()
    work = [(op_place(op), ())]
    while work and len(seen) < limit:
        p, via = work.pop()
        if p is None:
            continue
        key = (p['l'], tuple(str(e) for e in place_proj(p)))
        if key in seen:
            continue
        seen.add(key)
        proj = [e for e in place_proj(p) if e != '*']
        defs = [d for d in b.whole_defs(p['l']) if d[0] in b.live]
        if 1 <= p['l'] <= b.argc and not defs:
            out.append(('arg', 0, p, via))
            continue
        for d in defs:
            v2 = via + (d[0],)
            if d[2] == 'assign':
                rv = d[3]['rv']
                if rv['k'] in ('use', 'cast') and op_place(rv['op']) is not None:
                    q = op_place(rv['op'])
                    work.append(({'l': q['l'], 'p': list(q.get('p') or []) + list(p.get('p') or [])}, v2))
                elif rv['k'] in ('use', 'cast'):
                    out.append(('const', d[0], d[3], v2))
                elif rv['k'] in ('ref',):
                    q = rv['place']
                    work.append(({'l': q['l'], 'p': list(q.get('p') or []) + list(p.get('p') or [])}, v2))
                elif rv['k'] == 'agg' and proj and rv.get('agg') in ('adt', 'tuple'):
                    names = rv.get('names') or [str(i_) for i_ in range(len(rv['fields']))]
                    fld = [e for e in proj if isinstance(e, dict) and 'f' in e]
                    if fld and str(fld[0]['f']) in names and op_place(rv['fields'][names.index(str(fld[0]['f']))]) is not None:
                        work.append((op_place(rv['fields'][names.index(str(fld[0]['f']))]), v2))
                    else:
                        out.append(('agg', d[0], d[3], v2))
                else:
                    out.append((rv['k'], d[0], d[3], v2))
            elif d[2] == 'call':
                nm = callee_name(d[3]) or ''
                if re.search(r'::(into|from|get|clone|unwrap_or_default)$', nm) and d[3]['args'] and op_place(d[3]['args'][0]) is not None and not re.search(r'Option|Result', nm):
                    work.append((op_place(d[3]['args'][0]), v2))
                else:
                    out.append(('call', d[0], d[3], v2))
            else:
                out.append((d[2], d[0], d[3], v2))
    return out


def origin_field_names(F, b, op, wide, depth=0):
    """Field names (and closure-captured names) the operand's value derives from, following
    map_or/min/unwrap_or arguments (all of them) and closures passed to them."""
    names = set()
    seen = set()
    work = [op]
    steps = 0
    while work and steps < 400:
        steps += 1
        o = work.pop()
        p = op_place(o)
        if p is None:
            continue
        for f in place_fields(p):
            names.add(f)
        l = p['l']
        if l in seen:
            continue
        seen.add(l)
        for (xb, xs, kind, x) in b.defs.get(l, []):
            if kind == 'assign':
                rv = x['rv']
                if rv['k'] in ('use', 'cast', 'un'):
                    work.append(rv.get('op') or rv.get('a'))
                elif rv['k'] in ('ref', 'discr'):
                    work.append({'cp': rv['place']})
                elif rv['k'] == 'bin':
                    work += [rv['a'], rv['b']]
                elif rv['k'] == 'agg':
                    work += rv['fields']
            elif kind == 'call':
                nm = callee_name(x) or ''
                if wide.search(nm) or re.search(r'::(map|get|as_ref|copied)$', nm):
                    work += x['args']
                else:
                    names.add('call:' + nm.split('::')[-1])
    return names


def wake_bounded(F, R):
    """Senders parked by back-pressure / a full window are released per free slot (imports the C13.wake-count
    rule): releasing more than cap - outstanding lets them write without re-checking the window."""
    import c13, runner
    for ver in ('v3', 'v5'):
        rep = runner.Report('C13', 'quick')
        c13.wake_count(F, rep, ver)
        c13.wakes_only_where_the_window_opens(F, rep, ver)
        bad = [i for i in rep.items if not i['ok']]
        R.ob('C05.gated', '%s|released-senders<=free-slots (C13.wake-count)' % ver, not bad,
             'more parked senders can be released than there are free slots in the send window: %s' % '; '.join(i['key'] for i in bad)[:300])


def run(F, R):
    wake_bounded(F, R)
    for ver in ('v3', 'v5'):
        single_enqueue(F, R, ver)
        single_dequeue(F, R, ver)
        pubrec_keeps_slot(F, R, ver)
        gated(F, R, ver)
        check_then_act(F, R, ver)
        eager_reservation(F, R, ver)
    cap_source(F, R)
    cap_stored_verbatim(F, R)
