"""C10 (structural part). Both decoders' `decode` are treated as a typestate machine over DecodeState.
consume-implies-state: after every consuming call on the receive buffer each non-error exit (and the
loop back-edge) passes `state.set(..)`, so a re-entry with more bytes resumes where decoding stopped;
`Ok(None)` exits have consumed nothing since the state was recorded. state-graph: the transition
relation extracted from the arms (which DecodeState variants each arm stores) equals the expected graph
and Decoded::PayloadChunk / Decoded::Publish are only built in their arms. payload-accounting: the paths
of the two payload-producing arms (PublishPayload, and the arm that announces a PUBLISH) are extracted
by path enumeration as (conditions, calls, stored state, returned item) and *evaluated as expressions*
for every small combination of buffered length, declared/remaining size and min_chunk_size: the piece is
never longer than what is buffered or owed (no byte of the next packet), is the final one exactly when
nothing remains (eof flag, FrameHeader), otherwise the stored remainder is old - piece, a non-final
non-empty piece is never smaller than the minimum, a piece is produced whenever the rest of the payload
is buffered (no stall), no empty non-final chunk is produced, and the announced size is the frame's
payload length. feed: in the four dispatchers' PayloadChunk arms the chunk is handed unmodified to
feed_data, feed_eof is called exactly on the eof edge, the sender slot is restored exactly on the other
edge, with no suspension point between taking the sender and that; the Publish arms stream through
Payload::from_stream exactly when the announced size differs from the first piece and install the sender
before their first await. The sequence of items for every cut of a concrete byte stream is not
enumerated; nothing is executed (the evaluation is of extracted path conditions over small integers). feed (continued): no path leaves a PayloadChunk arm without consulting the sender slot, and with a sender present the bytes are fed and the sender is completed or restored; consume-implies-state (continued): functions that look into a possibly incomplete frame read variable byte integers only through the tolerant reader (Ok(None) when cut). feed (continued): inside the protocol dispatchers drop_payload runs only where the connection is torn down (a drop_sink / close precedes it, or every way out afterwards tears down or reports an error). feed (continued): the request classifiers the in-flight limiter relies on (`is_publish`, `is_chunk` of Decoded) are plain tests of the item's variant - true for every Publish / PayloadChunk, for nothing else, depending on nothing else. feed (continued): the four connection set-up functions install cfg.min_chunk_size into the decoder on every path that accepts the connection.
"""
import itertools
from facts import *
from disp import agg_sites, all_dispatchers, Disp
from symex import SymEx, term_str_v, skip_logging

CONSUME = re.compile(r'::(advance|split_to|split_off|get_u8|get_u16|get_u32|copy_to_bytes|copy_to_slice|truncate|clear)$')

EXPECTED_GRAPH = {
    'v5': {'FrameHeader': {'Frame', 'PublishHeader'}, 'PublishHeader': {'PublishProperties'}, 'PublishProperties': {'PublishPayload', 'FrameHeader'},
           'PublishPayload': {'PublishPayload', 'FrameHeader'}, 'Frame': {'FrameHeader'}},
    'v3': {'FrameHeader': {'Frame', 'PublishHeader'}, 'PublishHeader': {'PublishPayload', 'FrameHeader'},
           'PublishPayload': {'PublishPayload', 'FrameHeader'}, 'Frame': {'FrameHeader'}},
}
ANNOUNCE_ARM = {'v5': 'PublishProperties', 'v3': 'PublishHeader'}


def decoder(F, ver):
    return F.one(r'^<%s::codec::codec::Codec as ntex_codec::Decoder>::decode$' % ver)


def src_calls(b, pat):
    out = []
    for bi, t in b.calls():
        nm = callee_name(t) or ''
        if pat.search(nm) and t['args']:
            ap = apath(b, t['args'][0])
            if ap and ap[0] in ('src', '_2', 'arg2') or (op_place(t['args'][0]) and base_is_arg(b, t['args'][0], 2)):
                out.append((bi, t))
    return out


def base_is_arg(b, op, n):
    og = Origin(b).of_operand(op)
    return any(l[0] == 'arg' and l[1] == n for l in og)


def state_sets(b):
    return [(bi, t) for bi, t in b.calls_to(r'^std::cell::Cell::<T>::set$') if (call_recv_path(b, t, 0) or ('',))[-1] == 'state']


def consume_implies_state(F, R, ver):
    b = decoder(F, ver)
    cons = src_calls(b, CONSUME)
    sets = {bi for bi, _ in state_sets(b)}
    R.floor('C10.consume-implies-state', '%s consuming calls on the receive buffer' % ver, len(cons), 4)
    gets = [bi for bi, t in b.calls_to(r'^std::cell::Cell::<T>::get$') if (call_recv_path(b, t, 0) or ('',))[-1] == 'state']
    if len(gets) != 1:
        raise AnchorLost('%s decode: state.get (%d)' % (ver, len(gets)))
    head = gets[0]
    errs = {bi for bi, j, s in agg_sites(b, r'^std::result::Result$', 'Err')} | {bi for bi, t in b.calls() if (callee_name(t) or '').endswith('from_residual')}
    k = 0
    for bi, t in cons:
        k += 1
        nm = (callee_name(t) or '').split('::')[-1]
        tgt = t.get('target')
        if tgt is None:
            continue
        # blocks reachable after the consumption without recording the state
        reach = b.reachable(tgt, avoid=sets | errs)
        rets = [x for x in reach if b.blocks[x]['term']['k'] == 'return']
        # a return reached this way must be an error return: its value assigned in an Err block we avoided -> so any return here is non-error
        back = head in reach
        R.ob('C10.consume-implies-state', '%s::Codec::decode|%s#%d|state-recorded-before-leaving' % (ver, nm, k), not rets and not back,
             'after consuming from the receive buffer the decoder can %s without storing the new DecodeState: the next call would re-interpret the stream from the wrong position' % ('loop to the state dispatch' if back else 'return a non-error result'),
             b.loc(bi))
    # Ok(None) exits: nothing consumed since entry / since the last state.set
    nones = [bi for bi, j, s in agg_sites(b, r'^std::option::Option$', 'None')]
    R.floor('C10.consume-implies-state', '%s need-more-data exits' % ver, len(nones), 4)
    cons_blocks = {bi for bi, _ in cons}
    n = 0
    for nb in nones:
        n += 1
        # is there a consuming call that reaches this exit without a state.set in between?
        bad = [cb for cb in cons_blocks if nb in b.reachable(b.blocks[cb]['term'].get('target', cb), avoid=sets)]
        R.ob('C10.consume-implies-state', '%s::Codec::decode|Ok(None)#%d|nothing-consumed-since-state-recorded' % (ver, n), not bad,
             'need-more-data is returned after bytes were consumed (%s) and before the state was stored' % [b.loc(x) for x in bad][:2], b.loc(nb))


def state_graph(F, R, ver):
    b = decoder(F, ver)
    st = '%s::codec::codec::DecodeState' % ver
    ve = variant_edges(F, b, st)
    arms = {v: arm_region(b, e) for v, e in ve.items()}
    starts = {e[1] for es in ve.values() for e in es}
    graph = {}
    for v, es in ve.items():
        reg = set()
        for e in es:
            reg |= b.reachable(e[1], avoid=starts - {e[1]})
        # cut at the dispatch head: blocks of this arm only
        gets = [bi for bi, t in b.calls_to(r'^std::cell::Cell::<T>::get$') if (call_recv_path(b, t, 0) or ('',))[-1] == 'state']
        reg = set()
        for e in es:
            reg |= b.reachable(e[1], avoid=set(gets))
        tos = set()
        for bi, t in state_sets(b):
            if bi not in reg:
                continue
            for l in Origin(b).of_operand(t['args'][1]):
                if l[0] == 'agg' and st in str(l[1]):
                    tos.add(str(l[1]).split('::')[-1])
        graph[v] = tos
        arms[v] = reg
    exp = EXPECTED_GRAPH[ver]
    for v in sorted(exp):
        got = graph.get(v)
        R.ob('C10.state-graph', '%s::DecodeState::%s|successors' % (ver, v), got == exp[v], 'arm stores %s, the framing automaton allows %s' % (sorted(got or []), sorted(exp[v])), b.loc(ve[v][0][1]) if v in ve else None)
    R.ob('C10.state-graph', '%s::DecodeState|variants' % ver, set(graph) == set(exp), 'variants %s' % sorted(graph))
    R.table('state_graph_%s' % ver, {k: sorted(v) for k, v in graph.items()})
    # items only from their arms
    dec_adt = r'^%s::codec::Decoded$' % ver
    for variant, allowed in (('PayloadChunk', {'PublishPayload'}), ('Publish', {ANNOUNCE_ARM[ver]}), ('Packet', {'Frame'})):
        sites = [bi for bi, j, s in agg_sites(b, dec_adt, variant)]
        bad = [bi for bi in sites if not any(bi in arms.get(a, ()) for a in allowed)]
        others = [bi for bi in sites if any(bi in arms.get(a, ()) for a in set(arms) - allowed)]
        R.ob('C10.state-graph', '%s::Decoded::%s|built-only-in-%s' % (ver, variant, '/'.join(sorted(allowed))), sites and not bad and not others,
             'constructed at %s' % [b.loc(x) for x in (bad or others)][:3] if sites else 'not constructed at all', b.loc(sites[0]) if sites else None)
    # a fresh / cloned codec starts in FrameHeader
    for fn in (r'^%s::codec::codec::Codec::new$' % ver, r'^<%s::codec::codec::Codec as std::clone::Clone>::clone$' % ver):
        for nb in F.find(fn):
            vs = {s['rv'].get('variant') for bi, j, s in agg_sites(nb, r'DecodeState$', None)} if False else {x[2]['rv'].get('variant') for x in [(bi, j, s) for bi, j, s in nb.assigns() if s['rv']['k'] == 'agg' and st in str(s['rv'].get('adt'))]}
            if not vs:
                R.note('%s builds no DecodeState (derived Clone copies the field)' % nb.path)
                continue
            R.ob('C10.state-graph', '%s|initial-state==FrameHeader' % nb.path, vs == {'FrameHeader'}, 'initial DecodeState: %s' % sorted(map(str, vs)), nb.loc(0))
    return ve, arms


# ----------------------------------------------------------------------------- path evaluation

class Panic(Exception):
    pass


class Sim:
    """Evaluates one extracted path for concrete small values."""

    def __init__(self, body, ctx):
        self.b = body
        self.ctx = ctx
        self.B = ctx['L']
        self.memo = {}
        self.consumed = []
        self.state = []
        self.pieces = {}

    def field_of_state(self, variant, idx):
        return self.ctx['state'].get((variant, idx))

    def ev(self, t):
        if not isinstance(t, tuple) or not t:
            return None
        k = t[0]
        if k == 'const':
            return t[1] if isinstance(t[1], int) else None
        if k == 'cast':
            v = self.ev(t[1])
            if isinstance(v, int):
                bits = {'u8': 8, 'u16': 16, 'u32': 32}.get(t[2])
                return v & ((1 << bits) - 1) if bits else v
            return v
        if k in ('ref', 'deref'):
            return self.ev(t[1])
        if k == 'bin':
            a, c = self.ev(t[2]), self.ev(t[3])
            if not isinstance(a, int) or not isinstance(c, int):
                return None
            op = t[1].replace('WithOverflow', '').replace('Unchecked', '')
            if op == 'Sub':
                if a - c < 0:
                    raise Panic('subtraction underflow %d - %d' % (a, c))
                return a - c
            if op == 'Add':
                return a + c
            if op == 'Mul':
                return a * c
            if op in ('Eq', 'Ne', 'Lt', 'Le', 'Gt', 'Ge'):
                return int({'Eq': a == c, 'Ne': a != c, 'Lt': a < c, 'Le': a <= c, 'Gt': a > c, 'Ge': a >= c}[op])
            if op == 'BitAnd':
                return a & c
            if op == 'BitOr':
                return a | c
            return None
        if k == 'un':
            v = self.ev(t[2])
            if t[1] == 'Not' and v in (0, 1):
                return 1 - v
            return None
        if k == 'tuple':
            return tuple(self.ev(x) for x in t[1])
        if k == 'call':
            return self.memo.get(t[3])
        if k == 'agg':
            return ('agg', t[2], {n: self.ev(v) for n, v in t[3].items()})
        if k == 'discr':
            v = self.ev(t[1])
            if isinstance(v, tuple) and v:
                return {'some': 1, 'none': 0, 'ok': 0, 'err': 1, 'continue': 0, 'break': 1}.get(v[0])
            return None
        if k == 'field':
            base = t[1]
            if base[0] == 'downcast':
                inner = base[1]
                while inner[0] in ('ref', 'deref'):
                    inner = inner[1]
                if inner[0] == 'undef':
                    v = self.field_of_state(base[2], t[2])
                    return v
                v = self.ev(inner)
                if isinstance(v, tuple) and v and v[0] in ('some', 'ok', 'continue') and len(v) > 1:
                    pv = v[1]
                    if t[2] in ('0', 0):
                        return pv
                return None
            v = self.ev(base)
            if isinstance(v, dict):
                return v.get(t[2])
            if isinstance(v, tuple) and v and v[0] == 'agg':
                return v[2].get(t[2])
            if isinstance(v, tuple):
                try:
                    return v[int(t[2])]
                except (ValueError, IndexError):
                    return None
            return None
        if k == 'downcast':
            return self.ev(t[1])
        return None

    def is_src(self, t):
        while isinstance(t, tuple) and t and t[0] in ('ref', 'deref'):
            t = t[1]
        return t == ('arg', 2)

    def run_calls(self, path):
        for nm, args, bi in path.calls:
            base = nm.split('::')[-1]
            val = None
            if base in ('len', 'remaining') and args:
                if self.is_src(args[0]):
                    val = self.B
                else:
                    v = self.ev(args[0])
                    val = v[1] if isinstance(v, tuple) and v and v[0] == 'bytes' else None
            elif base in ('split_to', 'advance') and args and self.is_src(args[0]):
                n = self.ev(args[1])
                if not isinstance(n, int):
                    raise Panic('cannot evaluate the consumed length')
                if n > self.B:
                    raise Panic('%s(%d) with only %d bytes buffered' % (base, n, self.B))
                self.B -= n
                self.consumed.append(n)
                val = ('bytes', n)
            elif base == 'min' and len(args) == 2:
                a, c = self.ev(args[0]), self.ev(args[1])
                val = min(a, c) if isinstance(a, int) and isinstance(c, int) else None
            elif base == 'max' and len(args) == 2:
                a, c = self.ev(args[0]), self.ev(args[1])
                val = max(a, c) if isinstance(a, int) and isinstance(c, int) else None
            elif base == 'get' and 'Cell' in nm:
                fld = field_name(args[0])
                if fld == 'min_chunk_size':
                    val = self.ctx['M']
                elif fld in ('max_in_size', 'max_size'):
                    val = 0
            elif base == 'set' and 'Cell' in nm:
                if field_name(args[0]) == 'state':
                    self.state.append(self.ev(args[1]))
            elif base == 'checked_sub' and len(args) == 2:
                a, c = self.ev(args[0]), self.ev(args[1])
                if isinstance(a, int) and isinstance(c, int):
                    val = ('some', a - c) if a >= c else ('none',)
            elif base == 'saturating_sub' and len(args) == 2:
                a, c = self.ev(args[0]), self.ev(args[1])
                if isinstance(a, int) and isinstance(c, int):
                    val = max(a - c, 0)
            elif base == 'ok_or' and args:
                v = self.ev(args[0])
                if isinstance(v, tuple) and v:
                    val = ('ok', v[1]) if v[0] == 'some' else ('err',)
            elif base == 'branch' and args:
                v = self.ev(args[0])
                if isinstance(v, tuple) and v and v[0] in ('ok', 'err'):
                    val = ('continue', v[1]) if v[0] == 'ok' else ('break',)
            elif base == 'new' and 'Bytes' in nm and not args:
                val = ('bytes', 0)
            elif base in ('publish_size', 'packet_header_size'):
                h = self.ctx.get('H')
                val = ('ok', ('some', h)) if h is not None else ('ok', ('none',))
            elif base == 'from_residual':
                val = ('err',)
            self.memo[bi] = val

    def conds_hold(self, path):
        for term, c in path.conds:
            if term[0] == 'assert':
                continue
            v = self.ev(term)
            if v is None or not isinstance(v, int):
                continue  # undecidable: opaque callee (decode of the header fields)
            if c[0] == 'eq' and v != c[1]:
                return False
            if c[0] == 'ne' and v in c[1]:
                return False
        return True


def field_name(t):
    while isinstance(t, tuple) and t and t[0] in ('ref', 'deref'):
        t = t[1]
    if isinstance(t, tuple) and t and t[0] == 'field':
        return t[2]
    return None


def arm_paths(F, b, start):
    se = SymEx(b, F, max_paths=8000, loop_visits=0, call_model=skip_logging)
    ps = se.run(start_block=start)
    if se.truncated:
        raise AnchorLost('%s: arm path enumeration truncated' % b.path)
    return ps


def outcome(sim, path):
    """('none'|'chunk'|'publish'|'err'|'other', piece, eof, announced_size_ok)"""
    r = sim.ev(path.ret) if path.ret else None
    if not (isinstance(r, tuple) and r and r[0] == 'agg'):
        return ('other',)
    if r[1] == 'Err':
        return ('err',)
    o = r[2].get('0')
    if not (isinstance(o, tuple) and o and o[0] == 'agg'):
        return ('other',)
    if o[1] == 'None':
        return ('none',)
    d = o[2].get('0')
    if not (isinstance(d, tuple) and d and d[0] == 'agg'):
        return ('other',)
    if d[1] == 'PayloadChunk':
        piece = d[2].get('0')
        return ('chunk', piece[1] if isinstance(piece, tuple) and piece and piece[0] == 'bytes' else None, d[2].get('1'))
    if d[1] == 'Publish':
        piece = d[2].get('1')
        return ('publish', piece[1] if isinstance(piece, tuple) and piece and piece[0] == 'bytes' else None, d[2].get('2'))
    return ('other', d[1])


def check_piece(kind, n, owed, L, M, eofflag, states):
    """Property clauses for one produced piece. Returns list of complaints."""
    bad = []
    if n is None:
        return ['the piece length cannot be evaluated']
    if n > owed:
        bad.append('piece of %d bytes although only %d payload bytes are owed: bytes of the next packet leak into the payload' % (n, owed))
    final = n >= owed
    if kind == 'chunk':
        if n == 0 and not final:
            bad.append('an empty non-final chunk is produced')
        if eofflag not in (0, 1) or bool(eofflag) != final:
            bad.append('eof flag is %s for a piece of %d of %d owed bytes' % (eofflag, n, owed))
    if not final and n != 0 and M != 0 and n < M:
        bad.append('non-final piece of %d bytes is smaller than min_chunk_size %d' % (n, M))
    if len(states) != 1:
        bad.append('state stored %d times' % len(states))
    else:
        st = states[0]
        if not (isinstance(st, tuple) and st and st[0] == 'agg'):
            bad.append('stored state cannot be evaluated')
        elif final:
            if st[1] != 'FrameHeader':
                bad.append('payload complete but the decoder stays in %s' % st[1])
        else:
            if st[1] != 'PublishPayload' or st[2].get('0') != owed - n:
                bad.append('%d of %d bytes delivered, stored state is %s(%s) instead of PublishPayload(%d)' % (n, owed, st[1], st[2].get('0'), owed - n))
    return bad


def payload_accounting(F, R, ver, ve):
    b = decoder(F, ver)
    # --- PublishPayload arm
    start = ve['PublishPayload'][0][1]
    paths = [p for p in arm_paths(F, b, start) if p.end[0] in ('return', 'loop')]
    R.floor('C10.payload-accounting', '%s PublishPayload arm paths' % ver, len(paths), 4)
    complaints = {}
    combos = 0
    big = R.tier == 'thorough'
    for L, Rm, M in itertools.product(range(0, 21 if big else 9), range(1, 17 if big else 8), range(0, 13 if big else 6)):
        ctx = dict(L=L, M=M, state={('PublishPayload', '0'): Rm})
        combos += 1
        feas = []
        for p in paths:
            sim = Sim(b, ctx)
            try:
                sim.run_calls(p)
                if sim.conds_hold(p):
                    feas.append((p, sim, None))
            except Panic as e:
                # a panicking path counts when its (evaluable) conditions hold
                if sim.conds_hold(p):
                    feas.append((p, sim, str(e)))
        key_ctx = 'buffered=%d owed=%d min=%d' % (L, Rm, M)
        if len(feas) != 1:
            complaints.setdefault('exactly-one-outcome', '%s: %d feasible paths' % (key_ctx, len(feas)))
            continue
        p, sim, panic = feas[0]
        if panic:
            complaints.setdefault('no-panic', '%s: %s' % (key_ctx, panic))
            continue
        if p.end[0] == 'loop':
            complaints.setdefault('arm-returns', '%s: the arm loops back without returning' % key_ctx)
            continue
        oc = outcome(sim, p)
        if oc[0] == 'none':
            if sim.consumed or sim.state:
                complaints.setdefault('none-is-neutral', '%s: need-more-data after consuming/storing state' % key_ctx)
            if L >= Rm:
                complaints.setdefault('no-stall', '%s: the rest of the payload is buffered but no piece is produced (the stream stalls)' % key_ctx)
        elif oc[0] == 'chunk':
            if len(sim.consumed) != 1 or sim.consumed[0] != oc[1]:
                complaints.setdefault('piece==consumed', '%s: consumed %s, piece %s' % (key_ctx, sim.consumed, oc[1]))
            for c in check_piece('chunk', oc[1], Rm, L, M, oc[2], sim.state):
                complaints.setdefault(c.split(' ')[0] + ' ' + c.split(' ')[1] if False else classify(c), '%s: %s' % (key_ctx, c))
        else:
            complaints.setdefault('outcome-kind', '%s: unexpected outcome %s' % (key_ctx, oc[:2]))
    for name in ('exactly-one-outcome', 'no-panic', 'arm-returns', 'none-is-neutral', 'no-stall', 'piece==consumed', 'no-leak', 'eof-flag', 'min-chunk', 'stored-state', 'no-empty-chunk', 'outcome-kind', 'evaluable'):
        R.ob('C10.payload-accounting', '%s::PublishPayload|%s' % (ver, name), name not in complaints, complaints.get(name, ''), b.loc(start))
    R.counts['C10.payload-accounting:%s PublishPayload combinations' % ver] = combos
    # --- announcing arm
    arm = ANNOUNCE_ARM[ver]
    start = ve[arm][0][1]
    paths = [p for p in arm_paths(F, b, start) if p.end[0] in ('return', 'loop')]
    R.floor('C10.payload-accounting', '%s %s arm paths' % (ver, arm), len(paths), 5)
    complaints = {}
    combos = 0
    hs = range(0, 6 if big else 4)
    for H, RL, Lx, M in itertools.product(hs, range(0, 15 if big else 9), range(0, 17 if big else 10), range(0, 9 if big else 5)):
        if ver == 'v5':
            state = {(arm, '0'): H, (arm, '1'): dict(first_byte=0x30, remaining_length=RL)}
        else:
            state = {(arm, '0'): dict(first_byte=0x30, remaining_length=RL)}
        ctx = dict(L=Lx, M=M, H=H, state=state)
        combos += 1
        key_ctx = 'header=%d remaining_length=%d buffered=%d min=%d' % (H, RL, Lx, M)
        feas = []
        for p in paths:
            sim = Sim(b, ctx)
            try:
                sim.run_calls(p)
                if sim.conds_hold(p):
                    feas.append((p, sim, None))
            except Panic as e:
                feas.append((p, sim, str(e)))
        oks = []
        for p, sim, panic in feas:
            if panic:
                # only a panic on a path whose evaluable conditions hold matters
                if sim.conds_hold(p):
                    complaints.setdefault('no-panic', '%s: %s' % (key_ctx, panic))
                continue
            if p.end[0] == 'loop':
                continue
            oc = outcome(sim, p)
            if oc[0] in ('err', 'other'):
                continue
            oks.append((p, sim, oc))
        if Lx < H:
            # header not complete: no consumption, no item
            for p, sim, oc in oks:
                if oc[0] != 'none' or sim.consumed or sim.state:
                    complaints.setdefault('header-incomplete-is-neutral', '%s: %s with consumption %s' % (key_ctx, oc[0], sim.consumed))
            continue
        if RL < H:
            for p, sim, oc in oks:
                complaints.setdefault('inner-length-contradiction-is-error', '%s: header longer than the frame yields %s' % (key_ctx, oc[0]))
            continue
        owed = RL - H
        kinds = {oc[0] for _, _, oc in oks}
        if kinds != {'publish'}:
            complaints.setdefault('announce-once', '%s: outcomes %s' % (key_ctx, sorted(kinds)))
            continue
        sigs = set()
        for p, sim, oc in oks:
            n = oc[1]
            hdr = sim.consumed[0] if sim.consumed else None
            if hdr != H:
                complaints.setdefault('header-consumed', '%s: first consumption %s' % (key_ctx, hdr))
            rest = sim.consumed[1:]
            if (rest and (len(rest) != 1 or rest[0] != n)) or (not rest and n not in (0, None)):
                complaints.setdefault('piece==consumed', '%s: consumed %s, piece %s' % (key_ctx, sim.consumed, n))
            if oc[2] != RL:
                complaints.setdefault('announced-frame-size', '%s: announced %s' % (key_ctx, oc[2]))
            for c in check_piece('publish', n, owed, Lx - H, M, None, sim.state):
                complaints.setdefault(classify(c), '%s: %s' % (key_ctx, c))
            sigs.add((n, repr(sim.state)))
        if len(sigs) > 1:
            complaints.setdefault('exactly-one-outcome', '%s: %d different outcomes' % (key_ctx, len(sigs)))
    for name in ('no-panic', 'header-incomplete-is-neutral', 'inner-length-contradiction-is-error', 'announce-once', 'header-consumed', 'piece==consumed', 'announced-frame-size', 'no-leak', 'min-chunk', 'stored-state', 'exactly-one-outcome', 'evaluable'):
        R.ob('C10.payload-accounting', '%s::%s|%s' % (ver, arm, name), name not in complaints, complaints.get(name, ''), b.loc(start))
    R.counts['C10.payload-accounting:%s %s combinations' % (ver, arm)] = combos
    # declared payload size handed to the PUBLISH decoder == remaining_length - header
    decs = [(bi, t) for bi, t in b.calls() if re.search(r'(Publish::decode|decode_publish_packet)$', callee_name(t) or '')]
    ok = False
    for bi, t in decs:
        og = Origin(b, transparent=re.compile(TRANSPARENT_CALLS.pattern[:-2] + r'|branch|ok_or)$')).of_operand(t['args'][2])
        ok = any(l[0] == 'call' and (l[1] or '').endswith('checked_sub') for l in og)
    R.ob('C10.payload-accounting', '%s::%s|declared-size==remaining_length-header' % (ver, arm), len(decs) == 1 and ok, 'the payload size given to the PUBLISH header decoder is not remaining_length.checked_sub(header)', b.loc(decs[0][0]) if decs else None)


def classify(c):
    if 'leak' in c:
        return 'no-leak'
    if 'eof flag' in c:
        return 'eof-flag'
    if 'min_chunk_size' in c:
        return 'min-chunk'
    if 'empty non-final' in c:
        return 'no-empty-chunk'
    if 'cannot be evaluated' in c:
        return 'evaluable'
    return 'stored-state'


# ----------------------------------------------------------------------------- dispatchers

def feed(F, R):
    n = 0
    for d in all_dispatchers(F):
        b = d.call
        arm = d.arm('PayloadChunk')
        key = d.name
        if not arm:
            R.ob('C10.feed', '%s|PayloadChunk-arm' % key, False, 'arm not found')
            continue
        n += 1
        takes = [(bi, t) for bi, t in b.calls() if bi in arm and re.search(r'Cell::<T>::take$', callee_name(t) or '') and (call_recv_path(b, t, 0) or ('',))[-1] == 'payload']
        feeds = [(bi, t) for bi, t in b.calls() if bi in arm and re.search(r'PlSender::feed_data$|::feed_data$', callee_name(t) or '')]
        eofs = [(bi, t) for bi, t in b.calls() if bi in arm and re.search(r'::feed_eof$', callee_name(t) or '')]
        sets = [(bi, t) for bi, t in b.calls() if bi in arm and re.search(r'Cell::<T>::set$', callee_name(t) or '') and (call_recv_path(b, t, 0) or ('',))[-1] == 'payload']
        ok_shape = len(takes) == 1 and len(feeds) == 1 and len(eofs) == 1 and len(sets) == 1
        R.ob('C10.feed', '%s|take-feed-eof-restore' % key, ok_shape, 'expected one take / feed_data / feed_eof / restore, found %d/%d/%d/%d' % (len(takes), len(feeds), len(eofs), len(sets)), b.loc(min(arm)))
        if not ok_shape:
            continue
        # the chunk handed over is the decoded chunk itself
        og = Origin(b).of_operand(feeds[0][1]['args'][1])
        calls = [l for l in og if l[0] == 'call']
        ap = apath(b, feeds[0][1]['args'][1])
        from_req = ap is not None and ap[0] == 'arg1' and ap[-1] == '0' and not any(x.startswith('call:') for x in ap) and not calls
        R.ob('C10.feed', '%s|chunk-unmodified' % key, from_req, 'feed_data receives %s (origin %s), not the bytes of the decoded chunk' % (apath_str(ap), [c[1] for c in calls][:3]), b.loc(feeds[0][0]))
        # eof edge
        sw = None
        for sb in sorted(arm):
            t = b.blocks[sb]['term']
            if t['k'] == 'switch':
                p = op_place(t['discr'])
                ap2 = apath(b, t['discr']) if p else None
                if ap2 and ap2[0] == 'arg1' and ap2[-1] == '1' and not any(x.startswith('call:') for x in ap2) and b.local_ty(p['l']) == 'bool':
                    sw = sb
        if sw is None:
            R.ob('C10.feed', '%s|eof-branch' % key, False, 'no branch on the eof flag of the chunk', b.loc(min(arm)))
            continue
        r = bool_branch(b, sw, op_place(b.blocks[sw]['term']['discr'])['l'])
        _, tt, ft = r
        e_ok = edge_dominates(b, sw, tt, eofs[0][0]) and not edge_dominates(b, sw, ft, eofs[0][0])
        s_ok = edge_dominates(b, sw, ft, sets[0][0])
        R.ob('C10.feed', '%s|feed_eof-iff-eof' % key, e_ok, 'feed_eof is not confined to the eof edge', b.loc(eofs[0][0]))
        R.ob('C10.feed', '%s|sender-restored-iff-not-eof' % key, s_ok, 'the payload sender is not put back exactly when more pieces follow', b.loc(sets[0][0]))
        # restore puts back the sender that was taken
        og = Origin(b).of_operand(sets[0][1]['args'][1])
        R.ob('C10.feed', '%s|restored-sender-is-the-taken-one' % key, any(l[0] == 'call' and (l[1] or '').endswith('Cell::<T>::take') for l in og), 'restored value does not come from payload.take()', b.loc(sets[0][0]))
        # order: feed_data before feed_eof / restore; no suspension in the arm region between take and the end
        order_ok = feeds[0][0] in b.dom.get(eofs[0][0], ()) and feeds[0][0] in b.dom.get(sets[0][0], ())
        R.ob('C10.feed', '%s|data-before-eof-and-restore' % key, order_ok, 'feed_data does not precede feed_eof / the restore on every path', b.loc(feeds[0][0]))
        ys = [y for y in b.yields() if y in b.reachable(takes[0][0]) and y in arm]
        aw = [bi for bi, t in b.calls() if bi in arm and bi in b.reachable(takes[0][0]) and re.search(r'IntoFuture>::into_future$|Future>::poll$', callee_name(t) or '')]
        R.ob('C10.feed', '%s|no-suspension-between-take-and-feed' % key, not ys and not aw,
             'the chunk handler can be suspended after taking the sender: chunk calls run concurrently, so later pieces (and eof) can overtake this one', b.loc((ys or aw or [takes[0][0]])[0]))
        # every chunk is looked at: nothing in the arm (closed-connection shortcuts, receiver-dropped shortcuts) lets a chunk
        # leave the arm without the sender slot having been consulted, and with a sender present the bytes are always fed
        entries = {x for x in arm if any(p_ not in arm and p_ in b.live for p_ in b.pred[x])} or {min(arm)}
        exits = {x for a_ in arm for x in b.succ[a_] if x not in arm}
        bypass = [x for x in exits for e_ in entries if x in b.reachable(e_, avoid=[takes[0][0]])]
        R.ob('C10.feed', '%s|every-chunk-consults-the-sender-slot' % key, not bypass,
             'a payload chunk can leave the PayloadChunk arm without `payload.take()` having been evaluated: its bytes are dropped while the handler of the PUBLISH still waits for them', b.loc(min(arm)))
        rsw = discr_switch_after_call(b, takes[0][0])
        if rsw:
            sb_, tg, oth = rsw
            some_t = tg.get(1, oth)
            none_t = tg.get(0, oth)
            skip = [x for x in exits if x in b.reachable(some_t, avoid=[feeds[0][0], none_t])]
            R.ob('C10.feed', '%s|sender-present=>bytes-fed' % key, not skip,
                 'with a payload stream open a chunk can leave the arm without feed_data: the handler sees a truncated payload (and the sender may be lost)', b.loc(feeds[0][0]))
            lost = [x for x in exits if x in b.reachable(some_t, avoid=[eofs[0][0], sets[0][0], none_t])]
            R.ob('C10.feed', '%s|sender-present=>eof-or-restored' % key, not lost,
                 'with a payload stream open a chunk can leave the arm with the sender neither completed (feed_eof) nor put back: the next chunk fails with UnexpectedPayload', b.loc(sets[0][0]))
        else:
            R.undecided('C10.feed', '%s|sender-present=>bytes-fed' % key, 'no branch on the result of payload.take() found', b.loc(takes[0][0]))
        # failure branch: no sender -> error
        errs = [bi for bi, j, s in agg_sites(b, r'DecodeError$', 'UnexpectedPayload') if bi in arm]
        R.ob('C10.feed', '%s|chunk-without-stream-is-an-error' % key, bool(errs), 'a chunk that arrives while no payload stream is open is not reported as UnexpectedPayload', b.loc(min(arm)))
    R.floor('C10.feed', 'PayloadChunk arms', n, 4)
    # Publish arms
    m = 0
    for d in all_dispatchers(F):
        b = d.call
        arm = d.arm('Publish')
        if not arm:
            continue
        fs = [(bi, t) for bi, t in b.calls() if bi in arm and re.search(r'Payload::from_stream$', callee_name(t) or '')]
        fb = [(bi, t) for bi, t in b.calls() if bi in arm and re.search(r'Payload::from_bytes$', callee_name(t) or '')]
        key = d.name
        m += 1
        if len(fs) != 1 or len(fb) != 1:
            R.ob('C10.feed', '%s|Publish|from_bytes/from_stream' % key, False, 'expected one from_bytes and one from_stream, found %d/%d' % (len(fb), len(fs)), b.loc(min(arm)))
            continue
        # the comparison payload_size == payload.len()
        cmpb = None
        for bi, j, s in b.assigns():
            if bi in arm and s['rv']['k'] == 'bin' and s['rv']['op'] in ('Eq', 'Ne'):
                aps = [apath(b, s['rv']['a']), apath(b, s['rv']['b'])]
                flat = [x for ap_ in aps if ap_ for x in ap_]
                if 'payload_size' in flat and any(x.startswith('call:') and x.endswith('::len') for x in flat):
                    cmpb = (bi, s)
        if not cmpb:
            R.ob('C10.feed', '%s|Publish|complete-iff-announced==first-piece' % key, False, 'no comparison of payload_size with the length of the first piece', b.loc(min(arm)))
            continue
        bi, s = cmpb
        r = bool_branch(b, bi, s['lhs']['l'])
        _, tt, ft = r
        eq_edge, ne_edge = (tt, ft) if s['rv']['op'] == 'Eq' else (ft, tt)
        ok = edge_dominates(b, bi, eq_edge, fb[0][0]) and edge_dominates(b, bi, ne_edge, fs[0][0])
        R.ob('C10.feed', '%s|Publish|complete-iff-announced==first-piece' % key, ok, 'from_bytes / from_stream are not selected by payload_size == first piece length', b.loc(bi))
        for (cb, ct), what in ((fb[0], 'from_bytes'), (fs[0], 'from_stream')):
            ap = apath(b, ct['args'][0])
            calls = [l for l in Origin(b).of_operand(ct['args'][0]) if l[0] == 'call']
            R.ob('C10.feed', '%s|Publish|%s-gets-the-first-piece-unmodified' % (key, what), ap is not None and ap[0] == 'arg1' and ap[-1] == '1' and not any(x.startswith('call:') for x in ap) and not calls,
                 '%s receives %s' % (what, apath_str(ap)), b.loc(cb))
        # sender installed on the streaming edge before the first await of the arm after from_stream
        sets = [(x, t) for x, t in b.calls() if x in arm and re.search(r'Cell::<T>::set$', callee_name(t) or '') and (call_recv_path(b, t, 0) or ('',))[-1] == 'payload']
        inst = [x for x, t in sets if edge_dominates(b, bi, ne_edge, x) and fs[0][0] in b.dom.get(x, ())]
        ys = [y for y in b.yields() if y in b.reachable(fs[0][0], avoid=[x for x in inst])]
        ok_inst = bool(inst) and not [y for y in ys if y in b.reachable(fs[0][0], avoid=inst)]
        if not ok_inst and sets:
            # path-sensitive second opinion (the sender may travel through a tuple / Option before it is stored): on every
            # path of the arm that runs from_stream, `payload.set(..)` is called before the first suspension point
            entry = min(x for x in arm if any(p_ not in arm and p_ in b.live for p_ in b.pred[x])) if [x for x in arm if any(p_ not in arm and p_ in b.live for p_ in b.pred[x])] else min(arm)
            se = SymEx(b, F, loop_visits=0, max_paths=3000, stop_at=lambda x: x not in arm and x != entry)
            set_blocks = {x for x, t in sets}
            bad_paths = 0
            seen_stream = 0
            for p_ in se.run(start_block=entry):
                order = [c_[2] if not isinstance(c_[2], tuple) else c_[2][0] for c_ in p_.calls]
                names = [c_[0] for c_ in p_.calls]
                if fs[0][0] not in order:
                    continue
                seen_stream += 1
                i_fs = order.index(fs[0][0])
                installed = False
                for k_ in range(i_fs + 1, len(order)):
                    if order[k_] in set_blocks:
                        installed = True
                        break
                    if names[k_] == '<yield>':
                        break
                if not installed:
                    bad_paths += 1
            ok_inst = seen_stream > 0 and bad_paths == 0 and not se.truncated
        R.ob('C10.feed', '%s|Publish|sender-installed-before-first-await' % key, ok_inst,
             'the stream sender is not stored in sink.payload before the handler can be suspended: following chunks would be refused', b.loc(fs[0][0]))
    R.floor('C10.feed', 'Publish arms with payload streaming', m, 4)


def read_all(F, R):
    """Payload::read_all on a streamed payload returns Ok only after a read() reported the end of the stream
    (the None edge of an awaited read), so every buffered piece was collected."""
    b = F.one(r'^payload::Payload::read_all::\{closure#0\}$')
    aws = [a for a in await_points(b) if a['callee'] and re.search(r'Receiver.*::read|::read::', a['callee'] or '') or (a.get('awaited') and any('read' in x for x in a['awaited']))]
    none_edges = []
    for a in aws:
        # after Ready: the Option<Result<Bytes, _>> is matched; find the discriminant switch on the ready value
        reg = b.reachable(a['ready'])
        for sb in sorted(reg):
            t = b.blocks[sb]['term']
            if t['k'] != 'switch':
                continue
            p = op_place(t['discr'])
            if not p:
                continue
            for (xb, xs, kind, x) in b.whole_defs(p['l']):
                if kind == 'assign' and x['rv']['k'] == 'discr':
                    ty = x['rv'].get('ty') or ''
                    if ty.startswith('std::option::Option<std::result::Result<ntex_bytes::Bytes'):
                        for v, tb in t['targets']:
                            if v == 0:
                                none_edges.append((sb, tb))
                        if 0 not in [v for v, _ in t['targets']]:
                            none_edges.append((sb, t['otherwise']))
    oks = []
    for bi, j, s in agg_sites(b, r'^std::result::Result$', 'Ok'):
        if (s['lhs']['l'] == 0 or s['lhs']['l'] in b.ret_locals) and not place_proj(s['lhs']):
            oks.append(bi)      # (the result of a spliced `helper(..).await` in tail position reaches the return place through a local)
    stream_oks = [bi for bi in oks if any(bi in b.reachable(a['ready']) for a in aws)]
    R.ob('C10.feed', 'Payload::read_all|stream-read-sites', len(aws) >= 2 and bool(none_edges), 'expected the first read and the loop read of the stream, found %d awaited reads, %d end-of-stream edges' % (len(aws), len(none_edges)), b.loc(0))
    bad = [bi for bi in stream_oks if not any(edge_dominates(b, sb, tb, bi) for sb, tb in none_edges)]
    R.ob('C10.feed', 'Payload::read_all|Ok-only-after-end-of-stream', bool(stream_oks) and not bad,
         'read_all can return the collected bytes before a read() reported the end of the stream: pieces already buffered behind the first one are dropped and a truncated payload is returned as Ok', b.loc(bad[0]) if bad else b.loc(0))


def partial_frame_reads(F, R):
    """Need-more-data discipline of the functions that look into a frame that may not be complete yet: the two
    Codec::decode bodies and every function they hand the receive buffer to by shared reference (`&BytesMut`, `&[u8]`:
    packet_header_size, decode_variable_length). A length field cut by the read boundary must give Ok(None) (wait for
    more bytes), so these functions may read variable byte integers only through utils::decode_variable_length, which
    maps the strict reader's 'ran out of bytes' to None; the strict cursor reader is for complete frames only."""
    roots = [decoder(F, 'v3'), decoder(F, 'v5')]
    def complete_frame_consumer(p):
        b = F.bodies.get(p)
        if b is None:
            return True
        tys = [b.local_ty(i) for i in range(1, b.argc + 1)]
        return any(re.search(r'&mut ntex_bytes::Bytes$|&mut ntex_bytes::Bytes\b(?!Mut)', t) for t in tys)
    cg = F.callgraph_from([b.path for b in roots], stop=complete_frame_consumer)
    peekers = []
    for p in cg:
        b = F.bodies.get(p)
        if b is None or complete_frame_consumer(p):
            continue
        tys = [b.local_ty(i) for i in range(1, b.argc + 1)]
        if b in roots or any(re.search(r'&ntex_bytes::BytesMut|&\[u8\]', t) for t in tys):
            peekers.append(b)
    R.floor('C10.consume-implies-state', 'functions that look into a possibly incomplete frame', len(peekers), 3)
    for b in peekers:
        if b.path.endswith('utils::decode_variable_length'):
            continue
        strict = [(bi, t) for bi, t in b.calls_to(r'utils::decode_variable_length_cursor$')]
        R.ob('C10.consume-implies-state', '%s|length-fields-read-tolerantly' % b.path, not strict,
             'a function that examines a frame which may still be incomplete reads a variable byte integer with the strict reader: when the read boundary falls inside the length field the packet is refused as malformed instead of waiting for more bytes', b.loc(strict[0][0]) if strict else None)
    w = F.one(r'^utils::decode_variable_length$')
    de = F.adts['error::DecodeError']
    mi = [i for i, v in enumerate(de['variants']) if v['name'] == 'MalformedPacket'][0]
    ok = False
    for p in SymEx(w, F).run():
        if p.end[0] != 'return' or not p.ret or p.ret[0] != 'agg' or p.ret[2] != 'Ok':
            continue
        inner = p.ret[3].get('0')
        if inner and inner[0] == 'agg' and inner[2] == 'None' and any(t[0] == 'discr' and c == ('eq', mi) for t, c in p.conds):
            ok = True
    R.ob('C10.consume-implies-state', 'utils::decode_variable_length|ran-out-of-bytes=>None', ok, 'the tolerant reader does not map the strict reader\'s MalformedPacket (no more bytes) to Ok(None)', w.loc(0))


def payload_failed_only_at_teardown(F, R):
    """The payload sender slot is per connection: it belongs to whichever PUBLISH is streaming right now. Inside the protocol
    dispatchers drop_payload(..) - which fails that reader - therefore runs only where the connection is being torn down:
    a drop_sink / close / force_close precedes it, or follows it on every way out. Failing the slot on a path that keeps the
    connection (a handler error that becomes a negative PUBACK) hands another publish's reader an error instead of its bytes."""
    n = 0
    for b in F.find(r'^(<)?v[35]::(client::)?dispatcher::'):
        sites = [bi for bi, t in b.calls_to(r'::drop_payload$')]
        if not sites:
            continue
        td = {bi for bi, t in b.calls_to(r'MqttShared::(drop_sink|close|force_close)$|::sink::MqttSink::(close|force_close)$')}
        errs = {bi for bi, j, s in agg_sites(b, r'^std::result::Result$', 'Err') if s['lhs']['l'] in b.ret_locals}
        for x in sites:
            n += 1
            if any(t in b.dom.get(x, ()) for t in td):
                ok = True
            else:
                # ways out that neither tear down nor report an error (which stops the dispatcher)
                outs = set(b.returns()) & b.reachable_after(x, avoid=td | errs)
                ok = not outs
            top = re.sub(r'(::\{(closure|inl)#\d+\})+$', '', b.path)
            R.ob('C10.feed', '%s|drop_payload|only-where-the-connection-ends' % top, ok,
                 'the streaming payload reader is failed on a path that keeps the connection open: the payload of another PUBLISH that is still arriving is lost although every byte was delivered', b.loc(x))
    R.floor('C10.feed', 'drop_payload sites in the dispatchers', n, 6)


def request_classes(F, R):
    """The in-flight limiter lets the chunks of a streamed PUBLISH through while the publish call still holds the budget; it
    recognises them by `is_publish()` (raises the pass-through flag) and `is_chunk()`. Both are pure tests of the item's kind:
    true for every Decoded::Publish / Decoded::PayloadChunk and for nothing else - a publish that is not classified as one
    (by QoS, size, ..) stalls as soon as its payload needs a second read."""
    n = 0
    for ver in ('v3', 'v5'):
        adt = F.adts['%s::codec::Decoded' % ver]
        for fn, var in (('is_publish', 'Publish'), ('is_chunk', 'PayloadChunk')):
            b = F.one(r'^(%s::(\w+::)*<impl inflight::SizedRequest for %s::codec::Decoded>|<%s::codec::Decoded as inflight::SizedRequest>)::%s$' % (ver, ver, ver, fn))   # (the impl may live next to the type)
            n += 1
            tab, other = {}, []
            for p in SymEx(b, F, max_paths=400).run():
                if p.end[0] != 'return':
                    continue
                d = None
                for t, c in p.conds:
                    x = t[1] if t[0] == 'discr' else None
                    while isinstance(x, tuple) and x and x[0] in ('ref', 'deref'):
                        x = x[1]
                    if x == ('arg', 1):
                        d = c
                    elif t[0] != 'assert':
                        other.append(term_str_v(t)[:80])
                val = p.ret[1] if p.ret and p.ret[0] == 'const' else None
                for i, v in enumerate(adt['variants']):
                    k = v.get('discr', i)
                    if d is None or (d[0] == 'eq' and d[1] == k) or (d[0] == 'ne' and k not in d[1]):
                        tab.setdefault(v['name'], set()).add(val)
            want = {v['name']: {int(v['name'] == var)} for v in adt['variants']}
            R.ob('C10.feed', '%s|Decoded::%s|true-exactly-for-%s' % (ver, fn, var), tab == want and not other,
                 '%s() is not the plain kind test (by variant: %s%s): items of a streamed publish are not recognised by the in-flight limiter and wait behind the call that is waiting for them' % (
                     fn, {k: sorted(map(str, v)) for k, v in sorted(tab.items())}, '; also depends on ' + ', '.join(sorted(set(other))[:3]) if other else ''), b.loc(0))
    R.floor('C10.feed', 'request classifiers of the in-flight limiter', n, 4)


def min_chunk_installed(F, R):
    """The configured minimum chunk size reaches the decoder of every connection: the four places that set a connection up
    (v3/v5 server handshake, v3/v5 client connector) call set_min_chunk_size(cfg.min_chunk_size) on every path that goes on to
    create the session / client - not only under some unrelated condition (e.g. only when the peer sent a size limit)."""
    n = 0
    for pat, name in ((r'^<v3::server::HandshakeService<St, H> as ntex_service::Service<ntex_io::IoBoxed>>::call::\{closure#0\}$', 'v3-server'),
                      (r'^<v5::server::HandshakeService<St, H> as ntex_service::Service<ntex_io::IoBoxed>>::call::\{closure#0\}$', 'v5-server'),
                      (r'^v3::client::connector::MqttConnectorService::<A, T>::connect_inner::\{closure#0\}$', 'v3-client'),
                      (r'^v5::client::connector::MqttConnectorService::<A, T>::connect_inner::\{closure#0\}$', 'v5-client')):
        b = F.one(pat)
        sets = [bi for bi, t in b.calls_to(r'::set_min_chunk_size$') if (apath(b, t['args'][1]) or ('',))[-1] == 'min_chunk_size']
        # ... or the codec is built with the value in place (`Codec::with_inbound_limits(max, cfg.min_chunk_size)` spliced in)
        import c05
        for bi, j, s_ in agg_sites(b, r'^v[35]::codec::codec::Codec$'):
            names_ = s_['rv'].get('names') or []
            if 'min_chunk_size' in names_ and 'min_chunk_size' in c05.origin_field_names(F, b, s_['rv']['fields'][names_.index('min_chunk_size')], re.compile(TRANSPARENT_CALLS.pattern[:-2] + r'|new)$')):
                sets.append(bi)
        n += len(sets)
        oks = [bi for bi, j, s in agg_sites(b, r'^std::result::Result$', 'Ok') if s['lhs']['l'] in b.ret_locals]
        bad = [o for o in oks if not b.must_pass(sets, o)]
        R.ob('C10.feed', '%s|min_chunk_size-installed-on-every-accepted-connection' % name, bool(sets) and bool(oks) and not bad,
             'a connection can be set up without the configured min_chunk_size reaching its decoder (the setter is skipped on some path): the handler then receives non-final pieces smaller than the configured minimum', b.loc(bad[0]) if bad else b.loc(0))
    R.floor('C10.feed', 'min_chunk_size installations', n, 4)


def run(F, R):
    payload_failed_only_at_teardown(F, R)
    request_classes(F, R)
    min_chunk_installed(F, R)
    read_all(F, R)
    partial_frame_reads(F, R)
    for ver in ('v5', 'v3'):
        consume_implies_state(F, R, ver)
        ve, arms = state_graph(F, R, ver)
        payload_accounting(F, R, ver, ve)
    feed(F, R)
    R.assume('path conditions that depend on the decoded PUBLISH header fields (opaque callee results) are treated as undecided: both outcomes are examined')
    R.assume('domains (quick): buffered 0..9, owed/remaining 0..8, header 0..3, min_chunk_size 0..5; (thorough): buffered 0..20, owed 0..16, header 0..5, min_chunk_size 0..12; the extracted conditions are comparisons and min() only, so larger values repeat these orderings')
