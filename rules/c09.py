"""C09 (structural part). size-terms: for every (encoded_size, encode) pair of the encoders - all
`Encode`/`EncodeLtd` impls, the property helpers, ack_props, the v3 functions - the returned size and
the sum of what the emitter appends on its success paths are evaluated symbolically from the MIR
(rules/sizeflow.py: linear forms over len()/value/var-int-length atoms, loops and folds summarised per
item) and must be equal in every combination of the branch conditions over the packet's fields; frame
level functions must emit `1 + varint(size) + size` with the Remaining Length written from the very
size argument; a size handed to a nested limited encoder must equal that part's own computed size;
every unsigned subtraction on an emitter's success path must be a non-negative form when
size == encoded_size. opt-props: encoded_size_opt_props and encode_opt_props walk the user properties
identically (same per-item size, stop at the first that does not fit, whole properties only) and the
emitter's reason-string test agrees with the sizer's for every exact remaining budget. varint-len: the
three var_int_len* tables/inverse and write_variable_length agree on 1..4 byte boundaries (extracted
constants, evaluated at the boundaries). contract: both codecs pass the result of encoded_size of the
same packet as size, compare it with the limit first and fail with OverMaxPacketSize on the over-size
edge; header-allowance: set_max_outbound_size keeps 5 bytes for the fixed header. limit-arith: every
subtraction in the sizers that involves the limit is guarded or goes through reduce_limit.
only-diagnostics-dropped: under NO_PROBLEM_INFO only properties/user_properties/reason_string are
cleared, for every acknowledgement type, and the flag comes from CONNECT's request_problem_info.
reported-size: the builders' size() use the codec's own size functions. failed-encode-appends-nothing
is C08.validate-before-write (imported). Numeric equality written == size for concrete values is
implied only as far as the symbolic forms are; nothing is executed. only-diagnostics-dropped (continued): CONNACK and DISCONNECT are never stripped. only-diagnostics-dropped (continued): the stripping happens before encoded_size() is evaluated. contract (continued): the value compared with the limit is the computed size itself, not the size minus a part.
"""
import os
from facts import *
from disp import agg_sites
import sizeflow
from sizeflow import SizeFlow, Lin, Unsupported, compare, lin_str, cond_str, flatten_events, thaw
import panics
from symex import SymEx, term_str_v

PAYLOAD_ATOM = ('val', ('field', ('arg', 1), 'payload_size'))

# emitters that write a whole frame (fixed header included); everything else is content-level
FRAME = [
    (r'^<v5::codec::packet::Packet as v5::codec::encode::EncodeLtd>::encode$', 'frame'),
    (r'^<v5::codec::packet::publish::Publish as v5::codec::encode::EncodeLtd>::encode$', 'frame-minus-payload'),
    (r'^v3::codec::encode::encode$', 'frame'),
    (r'^v3::codec::encode::encode_publish$', 'frame-minus-payload'),
]
EXTRA_PAIRS = [
    ('v3::codec::encode::get_encoded_size', 'v3::codec::encode::encode'),
    ('v3::codec::encode::get_encoded_publish_size', 'v3::codec::encode::encode_publish'),
    ('v5::codec::encode::encoded_property_size', 'v5::codec::encode::encode_property'),
    ('v5::codec::encode::encoded_property_size_default', 'v5::codec::encode::encode_property_default'),
]
PAIR_FLOOR = 30


def arg_ix(leaves):
    return {a for a, _ in leaves_args(leaves)}


def pairs(F):
    out = []
    for p in sorted(F.bodies):
        m = re.match(r'^(.*)::encoded_size$', p)
        if m and (m.group(1) + '::encode') in F.bodies and '{closure' not in p:
            out.append((p, m.group(1) + '::encode'))
    for s, e in EXTRA_PAIRS:
        if s not in F.bodies or e not in F.bodies:
            raise AnchorLost('encoder pair %s / %s' % (s, e))
        out.append((s, e))
    return out


def relation_of(efn):
    for pat, rel in FRAME:
        if re.search(pat, efn):
            return rel
    return 'content'


def short_fn(p):
    p = re.sub(r' as (v5::codec::encode::EncodeLtd|utils::Encode)>', '>', p)
    p = p.replace('v5::codec::packet::', 'v5::').replace('v5::codec::encode::', 'v5::encode::').replace('v3::codec::encode::', 'v3::encode::')
    return p


def size_terms(F, R, sf):
    ps = pairs(F)
    R.floor('C09.size-terms', 'size/emit pairs', len(ps), PAIR_FLOOR)
    worlds_total = 0
    table = {}
    nsubs = 0
    for sfn, efn in ps:
        rel = relation_of(efn)
        eb = F.bodies[efn]
        idx = None
        for i in range(1, eb.argc + 1):
            if eb.local_ty(i) == 'u32':
                idx = i - 1
        name = short_fn(efn)
        try:
            worlds, bad, notes, S, E = compare(sf, sfn, efn, rel, idx, PAYLOAD_ATOM)
        except Unsupported as ex:
            R.ob('C09.size-terms', '%s|evaluable' % name, False, 'cannot evaluate the pair symbolically (fail closed): %s' % str(ex)[:300], eb.loc(0))
            continue
        worlds_total += worlds
        R.ob('C09.size-terms', '%s|evaluable' % name, worlds > 0 and not notes, 'no comparable world / undecided: %s' % '; '.join(sorted(set(notes)))[:200], eb.loc(0))
        table[name] = dict(relation=rel, worlds=worlds, size=[lin_str(l)[:160] for _, l in S][:3])
        kinds = {}
        for x in bad:
            kinds.setdefault(x['kind'], []).append(x)
        size_bad = kinds.pop('size', [])
        R.ob('C09.size-terms', '%s|%s' % (name, {'content': 'emitted==encoded_size', 'frame': 'emitted==1+varint(size)+size', 'frame-minus-payload': 'emitted+payload==1+varint(size)+size'}[rel]),
             not size_bad, 'bytes appended on a success path differ from the computed size; emitted - expected = %s  [when %s]' % (size_bad[0]['diff'][:300], size_bad[0]['world'][:200]) if size_bad else '', eb.loc(0))
        has_arg = has_sub = has_inv = False
        for c, l, evs in E:
            for ev in flatten_events(evs):
                has_arg |= ev[0] in ('nested', 'optprops', 'ackprops')
                has_sub |= ev[0] == 'sub'
                has_inv |= ev[0] == 'vilinv-arg'
                nsubs += ev[0] == 'sub'
        if has_arg:
            ab = [x for k, v in kinds.items() if k.startswith('size-arg:') for x in v]
            R.ob('C09.size-terms', '%s|nested-size-argument==nested-computed-size' % name, not ab,
                 'the size handed to %s is not the size computed for that part: passed - computed = %s [when %s]' % (ab[0]['kind'][9:], ab[0]['diff'][:300], ab[0]['world'][:160]) if ab else '', eb.loc(0))
        if has_sub:
            sb = [x for k, v in kinds.items() if k.startswith('sub-underflow') for x in v]
            R.ob('C09.limit-arith', '%s|subtractions-non-negative-when-size==encoded_size' % name, not sb,
                 'an unsigned subtraction can underflow although size == encoded_size(limit): value = %s [when %s]' % (sb[0]['got'][:300], sb[0]['world'][:160]) if sb else '', sb[0].get('loc') if sb else eb.loc(0))
        if has_inv:
            ib = kinds.get('var_int_len_from_size-arg>=1', [])
            R.ob('C09.limit-arith', '%s|var_int_len_from_size-argument>=1' % name, not ib,
                 'var_int_len_from_size is called with a value that can be 0 (it underflows): %s' % (ib[0]['got'][:300] if ib else ''), eb.loc(0))
    R.counts['C09.size-terms:worlds'] = worlds_total
    R.counts['C09.limit-arith:subtractions evaluated'] = nsubs
    R.floor('C09.size-terms', 'worlds compared', worlds_total, 30)
    R.table('size_emit_pairs', table)
    for fn, v in sorted(set(sf.sentinels)):
        R.note('%s has an over-size sentinel return (%d): such a value can never pass the codec limit comparison' % (fn, v))


def frame_header(F, R, sf):
    """Frame-level emitters: first the type byte, then the Remaining Length written from the size argument
    itself (or the two constant bytes [type, 0] for the bodiless packets)."""
    n = 0
    for pat, rel in FRAME:
        eb = F.one(pat)
        idx = [i - 1 for i in range(1, eb.argc + 1) if eb.local_ty(i) == 'u32'][0]
        eargs = [('arg', i + 1) for i in range(eb.argc)]
        eargs[idx] = ('ARGSIZE',)
        try:
            E = sf.emit_of_call(eb.path, eargs)
        except Unsupported as ex:
            R.ob('C09.frame-header', '%s|evaluable' % short_fn(eb.path), False, str(ex)[:200])
            continue
        bad = []
        for c, l, evs in E:
            evl = [e for e in flatten_events(evs) if e[0] not in ('sub', 'vilinv-arg')]
            n += 1
            if len(evl) >= 2 and evl[0][0] == 'put' and evl[0][2] == 'put_u8' and evl[1][0] == 'varint':
                arg = evl[1][3]
                if arg != ('ARGSIZE',):
                    bad.append('Remaining Length is written from %s, not from the size argument [when %s]' % (term_str_v(arg)[:80], cond_str(tuple(sorted(c.items(), key=repr)))[:80]))
            elif len(evl) == 1 and evl[0][0] == 'slice' and evl[0][1] == Lin(2):
                arr = evl[0][3]
                while arr[0] in ('ref', 'deref', 'cast'):
                    arr = arr[1]
                if not (arr[0] == 'array' and arr[1][1][0] == 'const' and arr[1][1][1] == 0):
                    bad.append('two-byte packet whose second byte is not the constant 0')
            else:
                bad.append('success path does not start with type byte + Remaining Length: %s [when %s]' % ([e[2] for e in evl[:3]], cond_str(tuple(sorted(c.items(), key=repr)))[:80]))
        R.ob('C09.frame-header', '%s|type-byte-then-remaining-length(size)' % short_fn(eb.path), not bad, '; '.join(bad[:2]), eb.loc(0))
    R.floor('C09.frame-header', 'frame-level success paths', n, 30)


# ----------------------------------------------------------------------------- opt props sibling agreement

def loop_shape(F, sf, fn, budget_arg):
    """Facts about one of the two opt-props walkers from its MIR:
    per-item size, the comparison that guards it, what the not-fitting edge can reach."""
    b = F.bodies[fn]
    out = dict(fn=fn)
    nexts = [bi for bi, t in b.calls() if sizeflow.short(callee_name(t) or '') == 'next']
    if len(nexts) != 1:
        raise AnchorLost('%s: one loop expected, %d found' % (fn, len(nexts)))
    hdr = nexts[0]
    out['hdr'] = hdr
    # comparison blocks inside the loop: Gt/Lt between a usize item size and the (cast) budget
    loop_blocks = {x for x in b.reachable(hdr) if hdr in b.reachable(x)}
    cmps = []
    for bi, j, s in b.assigns():
        if bi in loop_blocks and s['rv']['k'] == 'bin' and s['rv']['op'] in ('Gt', 'Lt', 'Ge', 'Le'):
            cmps.append((bi, j, s))
    out['cmps'] = cmps
    out['loop_blocks'] = loop_blocks
    return b, out


def checked_sub_fit(b, sh, budget):
    """[(call block, switch block, fit target, no-fit target)] for `budget.checked_sub(item)` calls inside the loop whose
    result is matched: first operand derives from the budget argument."""
    out = []
    for bi, t in b.calls_to(r'<impl u32>::checked_sub$|<impl usize>::checked_sub$'):
        if bi not in sh['loop_blocks'] or len(t['args']) != 2 or budget not in arg_ix(Origin(b).of_operand(t['args'][0])):
            continue
        for sb in sorted(b.live):
            tt = b.blocks[sb]['term']
            if tt['k'] != 'switch' or sb not in b.reachable_after(bi):
                continue
            pl = op_place(tt['discr'])
            for dd in (b.whole_defs(pl['l']) if pl and not place_proj(pl) else []):
                if dd[2] == 'assign' and dd[3]['rv']['k'] == 'discr' and dd[0] == sb and any(l[0] == 'call' and len(l) > 2 and l[2] == bi for l in Origin(b).of_operand({'cp': {'l': dd[3]['rv']['place']['l']}})):
                    tg = dict((v, x) for v, x in tt['targets'])
                    fit, nofit = tg.get(1, tt['otherwise']), tg.get(0, tt['otherwise'])
                    if fit != nofit and not any(o[0] == bi for o in out):
                        out.append((bi, sb, fit, nofit))
    return out


def opt_props(F, R, sf):
    S = 'v5::codec::encode::encoded_size_opt_props'
    E = 'v5::codec::encode::encode_opt_props'
    for fn in (S, E):
        if fn not in F.bodies:
            raise AnchorLost(fn)
    res = {}
    for fn, budget in ((S, 3), (E, 4)):
        b, sh = loop_shape(F, sf, fn, budget)
        name = short_fn(fn)
        ok_cmp = len(sh['cmps']) == 1
        chk = [] if sh['cmps'] else checked_sub_fit(b, sh, budget)
        if chk:
            # `budget.checked_sub(item)`: Some(rest) iff the item fits, rest = budget - item
            cbi, sw_, fit, nofit = chk[0]
            R.ob('C09.opt-props', '%s|one-fit-test-per-user-property' % name, len(chk) == 1, 'expected exactly one fit test inside the user-property loop, found %d checked subtractions' % len(chk), b.loc(sh['hdr']))
            R.ob('C09.opt-props', '%s|fit-test-compares-item-with-budget' % name, True, '', b.loc(cbi))
            R.ob('C09.opt-props', '%s|fits-iff-item<=budget' % name, True, '', b.loc(cbi))
            reach = b.reachable(nofit, avoid=[fit])
            back = sh['hdr'] in reach
            emits = [x for x, t in b.calls() if x in reach and (re.search(r'BufMut|BytePages', callee_name(t) or '') or re.search(r'Encode>::encode$|Encode::encode$', callee_name(t) or ''))]
            adds = [x for x in reach if b.blocks[x]['term']['k'] == 'assert' and b.blocks[x]['term'].get('op') == 'Add']
            R.ob('C09.opt-props', '%s|first-property-that-does-not-fit-ends-the-walk' % name, not back and not emits and not adds,
                 'after a user property did not fit the function continues (%s): the sizer and the emitter then disagree about what is written' % ('back to the loop' if back else 'emits/accumulates more'), b.loc(nofit))
            res[fn] = dict(b=b, fit=fit, nofit=nofit, hdr=sh['hdr'])
            continue
        R.ob('C09.opt-props', '%s|one-fit-test-per-user-property' % name, ok_cmp, 'expected exactly one size comparison inside the user-property loop, found %d' % len(sh['cmps']), b.loc(sh['hdr']))
        if not ok_cmp:
            continue
        bi, j, s = sh['cmps'][0]
        rv = s['rv']
        r = bool_branch(b, bi, s['lhs']['l'])
        if not r:
            R.ob('C09.opt-props', '%s|fit-test-branches' % name, False, 'comparison result is not branched on', b.loc(bi))
            continue
        _, tt, ft = r
        # which operand is the budget: origin reaches the budget argument
        og_a = Origin(b).of_operand(rv['a'])
        og_b = Origin(b).of_operand(rv['b'])
        a_budget = budget in arg_ix(og_a)
        b_budget = budget in arg_ix(og_b)
        if a_budget == b_budget:
            R.ob('C09.opt-props', '%s|fit-test-compares-item-with-budget' % name, False, 'cannot tell which side of the comparison is the remaining budget', b.loc(bi))
            continue
        R.ob('C09.opt-props', '%s|fit-test-compares-item-with-budget' % name, True, '', b.loc(bi))
        op = rv['op']
        # normalise to item ? budget
        if a_budget:
            op = {'Gt': 'Lt', 'Lt': 'Gt', 'Ge': 'Le', 'Le': 'Ge'}[op]
        # not-fit edge: item > budget
        if op == 'Gt':
            nofit, fit = tt, ft
        elif op == 'Le':
            nofit, fit = ft, tt
        else:
            R.ob('C09.opt-props', '%s|fits-iff-item<=budget' % name, False, 'a property fits iff its size <= remaining budget; found item %s budget' % op, b.loc(bi))
            continue
        R.ob('C09.opt-props', '%s|fits-iff-item<=budget' % name, True, '', b.loc(bi))
        # the not-fitting edge goes straight to the return: no way back into the loop, no further emission or accumulation
        reach = b.reachable(nofit, avoid=[fit])
        back = sh['hdr'] in reach
        emits = [x for x, t in b.calls() if x in reach and (re.search(r'BufMut|BytePages', callee_name(t) or '') or re.search(r'Encode>::encode$|Encode::encode$', callee_name(t) or ''))]
        adds = [x for x in reach if b.blocks[x]['term']['k'] == 'assert' and b.blocks[x]['term'].get('op') == 'Add']
        R.ob('C09.opt-props', '%s|first-property-that-does-not-fit-ends-the-walk' % name, not back and not emits and not adds,
             'after a user property did not fit the function continues (%s): the sizer and the emitter then disagree about what is written' % ('back to the loop' if back else 'emits/accumulates more'), b.loc(nofit))
        res[fn] = dict(b=b, fit=fit, nofit=nofit, hdr=sh['hdr'])
    # per-item size and budget decrement agree: symbolic evaluation of the one-iteration path
    try:
        sf.zero_loop_exits_ok = True   # the early exit of the walk is decided by the CFG rule above
        sres = sf._eval_paths(F.bodies[S], [('arg', 1), ('arg', 2), ('arg', 3)], (), emit=False)
        eres = sf.emit_of_call(E, [('arg', 1), ('arg', 2), ('arg', 3), ('ARGSIZE',)])
    except Unsupported as ex:
        R.ob('C09.opt-props', 'pair|evaluable', False, str(ex)[:300])
        return
    finally:
        sf.zero_loop_exits_ok = False
    def per_item(res_, emit):
        out = set()
        for r in res_:
            l = r[1]
            for a, k in l.t.items():
                if a[0] == 'sum' and a[1] == ('arg', 1):
                    out.add((k, a[2]))
                if a[0] == 'len' and a[1] == ('arg', 1):
                    out.add((k, Lin(1).key()))
        return out
    ps, pe = per_item(sres, False), per_item(eres, True)
    R.ob('C09.opt-props', 'pair|per-user-property-size-agrees', len(ps) == 1 and ps == pe,
         'sizer counts %s per user property, emitter writes %s' % ([lin_str(thaw(x[1])) for x in ps], [lin_str(thaw(x[1])) for x in pe]))
    R.table('opt_props', dict(sizer=[(cond_str(tuple(sorted(c.items(), key=repr)))[:120], lin_str(l)[:200]) for c, l in sres][:8],
                              emitter=[(cond_str(tuple(sorted(c.items(), key=repr)))[:120], lin_str(l)[:200]) for c, l, _ in eres][:8]))
    reason_lemma(F, R, sf, sres, eres)
    budget_decrement(F, R, S, 3)
    budget_decrement(F, R, E, 4)


def budget_decrement(F, R, fn, budget):
    """Inside the loop the budget is decreased by exactly the item size that was compared."""
    b = F.bodies[fn]
    name = short_fn(fn)
    subs = [(bi, b.blocks[bi]['term']) for bi in sorted(b.live) if b.blocks[bi]['term']['k'] == 'assert' and b.blocks[bi]['term'].get('op') == 'Sub']
    ok = False
    msg = 'no `budget -= item size` found in the loop'
    if not subs:
        # `budget = rest` with `Some(rest) = budget.checked_sub(item)`: the new budget is the checked difference of the old one
        for bi, t in b.calls_to(r'<impl u32>::checked_sub$|<impl usize>::checked_sub$'):
            a0 = op_place(t['args'][0]) if t['args'] else None
            # locals the minuend is a copy of (through plain copies, references, fields of a closure environment built here)
            roots, work = set(), [a0['l']] if a0 is not None else []
            while work and len(roots) < 40:
                l_ = work.pop()
                if l_ in roots:
                    continue
                roots.add(l_)
                for dd in b.whole_defs(l_):
                    if dd[2] != 'assign':
                        continue
                    rv_ = dd[3]['rv']
                    if rv_['k'] in ('use', 'cast') and op_place(rv_['op']) is not None:
                        work.append(op_place(rv_['op'])['l'])
                    elif rv_['k'] == 'ref':
                        work.append(rv_['place']['l'])
                    elif rv_['k'] == 'agg' and rv_.get('agg') in ('closure', 'tuple'):
                        work.extend(op_place(f_)['l'] for f_ in rv_['fields'] if op_place(f_) is not None)
            for xb, xj, s_ in b.assigns():
                if place_proj(s_['lhs']) or s_['rv']['k'] != 'use' or op_place(s_['rv']['op']) is None:
                    continue
                og = Origin(b).of_operand(s_['rv']['op'])
                if any(l[0] == 'call' and len(l) > 2 and l[2] == bi for l in og) and s_['lhs']['l'] in roots and b.local_name(s_['lhs']['l']) and xb in b.reachable_after(bi):
                    ok = True
        if ok:
            R.ob('C09.limit-arith', '%s|budget-=item-size-under-fit-guard' % name, True, '', b.loc(0))
            return
    for bi, t in subs:
        oa = Origin(b).of_operand(t['a'])
        if budget in arg_ix(oa):
            # b operand: same value key as the compared item size
            from c16 import val_key, cmp_facts_at
            facts = cmp_facts_at(b, bi)
            kb = val_key(b, t['b'])
            ka = val_key(b, t['a'])
            ok = any((x == kb and y == ka and cop in ('Le', 'Lt')) or (x == ka and y == kb and cop in ('Ge', 'Gt')) for cop, x, y in facts)
            if not ok:
                # comparison is made on usize casts of the same locals
                ok = guarded_cast_cmp(b, bi, t)
            msg = 'the decrement is not guarded by the comparison of the same two values'
    R.ob('C09.limit-arith', '%s|budget-=item-size-under-fit-guard' % name, ok, msg, b.loc(subs[0][0]) if subs else b.loc(0))


def strip_cast(b, op, depth=0):
    """Local behind integer casts/copies."""
    p = op_place(op)
    while p is not None and not place_proj(p) and depth < 8:
        ds = [d for d in b.whole_defs(p['l']) if d[0] in b.live]
        if len(ds) == 1 and ds[0][2] == 'assign' and ds[0][3]['rv']['k'] in ('use', 'cast') and op_place(ds[0][3]['rv'].get('op')):
            p = op_place(ds[0][3]['rv']['op'])
            depth += 1
        else:
            break
    return place_key(p) if p is not None else ('const', const_val(op))


def guarded_cast_cmp(b, bi, t):
    """a - b where a dominating branch established b' <= a' for the same locals behind casts."""
    ka, kb = strip_cast(b, t['a']), strip_cast(b, t['b'])
    for xb, j, s in b.assigns():
        rv = s['rv']
        if rv['k'] != 'bin' or rv['op'] not in ('Gt', 'Lt', 'Ge', 'Le'):
            continue
        r = bool_branch(b, xb, s['lhs']['l'])
        if not r:
            continue
        _, tt, ft = r
        x, y = strip_cast(b, rv['a']), strip_cast(b, rv['b'])
        op = rv['op']
        # edge on which kb <= ka holds
        edge = None
        if (x, y) == (kb, ka):
            edge = {'Gt': ft, 'Le': tt, 'Lt': tt, 'Ge': None}[op]
        elif (x, y) == (ka, kb):
            edge = {'Lt': ft, 'Ge': tt, 'Gt': tt, 'Le': None}[op]
        if edge is not None and edge_dominates(b, xb, edge, bi):
            return True
    return False


def reason_lemma(F, R, sf, sres, eres):
    """Reason string: the sizer includes it iff 1 + encoded_size <= budget; the emitter is given the exact
    remaining size (0 when it was left out, 3 + len when it was counted) and must decide the same way.
    The emitter's condition is extracted and evaluated for len 0..70000 at both budgets."""
    E = F.bodies['v5::codec::encode::encode_opt_props']
    S = F.bodies['v5::codec::encode::encoded_size_opt_props']
    def reason_cmp(b, budget):
        out = []
        hdrs = [bi for bi, t in b.calls() if sizeflow.short(callee_name(t) or '') == 'next']
        loop_blocks = {x for x in b.reachable(hdrs[0]) if hdrs[0] in b.reachable(x)} if hdrs else set()
        for bi, j, s in b.assigns():
            if bi in loop_blocks or s['rv']['k'] != 'bin' or s['rv']['op'] not in ('Gt', 'Lt', 'Ge', 'Le', 'Eq', 'Ne'):
                continue
            if budget in arg_ix(Origin(b).of_operand(s['rv']['a'])) or budget in arg_ix(Origin(b).of_operand(s['rv']['b'])):
                out.append((bi, j, s))
        return out
    for b, budget, who in ((S, 3, 'sizer'), (E, 4, 'emitter')):
        cs = reason_cmp(b, budget)
        if len(cs) != 1:
            R.ob('C09.opt-props', '%s|reason-string-fit-test' % short_fn(b.path), False, 'expected one comparison of the reason string with the remaining budget, found %d' % len(cs))
            continue
        bi, j, s = cs[0]
        rv = s['rv']
        a_budget = budget in arg_ix(Origin(b).of_operand(rv['a']))
        other = rv['b'] if a_budget else rv['a']
        # the other side as a function of len(reason): use sizeflow on a tiny path evaluation
        form = other_form(F, sf, b, other)
        r = bool_branch(b, bi, s['lhs']['l'])
        if form is None or not r:
            R.undecided('C09.opt-props', '%s|reason-string-fit-test' % short_fn(b.path), 'cannot extract the reason-string condition', b.loc(bi))
            continue
        _, tt, ft = r
        # on which edge is the reason string emitted / counted?
        def does_work(start, avoid):
            reach = b.reachable(start, avoid=[avoid])
            if who == 'emitter':
                return any(x in reach and re.search(r'put_u8$', callee_name(t) or '') for x, t in b.calls())
            return any(x in reach and b.blocks[x]['term']['k'] == 'assert' and b.blocks[x]['term'].get('op') == 'Add' and budget not in arg_ix(Origin(b).of_operand(b.blocks[x]['term']['a'])) and x != bi for x in reach if x not in (bi,)) and any(
                x in reach and b.blocks[x]['term']['k'] == 'assert' and b.blocks[x]['term'].get('op') == 'Add' and dominated_only(b, x, start, avoid) for x in reach)
        work_t = does_work(tt, ft)
        work_f = does_work(ft, tt)
        if work_t == work_f:
            R.undecided('C09.opt-props', '%s|reason-string-fit-test' % short_fn(b.path), 'cannot tell on which edge the reason string is handled', b.loc(bi))
            continue
        cconst, clen = form
        op = rv['op']
        def decide(n, budget_v):
            o = cconst + clen * n
            x, y = (budget_v, o) if a_budget else (o, budget_v)
            res = {'Gt': x > y, 'Lt': x < y, 'Ge': x >= y, 'Le': x <= y, 'Eq': x == y, 'Ne': x != y}[op]
            return work_t if res else work_f
        bad = None
        lens = list(range(0, 300)) + [65532, 65533, 65534, 65535]
        if R.tier == 'thorough':
            lens = list(range(0, 65536))
        for n in lens:
            need = 3 + n
            if who == 'emitter':
                # exact budgets handed over by a truthful sizer
                if decide(n, 0) is not False:
                    bad = 'len %d: emitted although the sizer left it out (remaining size 0)' % n
                    break
                if decide(n, need) is not True:
                    bad = 'len %d: not emitted although the sizer counted it (remaining size %d)' % (n, need)
                    break
            else:
                for bud in (0, need - 1, need, need + 1, 1 << 28):
                    if decide(n, bud) != (need <= bud):
                        bad = 'len %d budget %d: sizer %s the reason string, it needs %d bytes' % (n, bud, 'counts' if decide(n, bud) else 'omits', need)
                        break
                if bad:
                    break
        R.ob('C09.opt-props', '%s|reason-string-decision-exact' % short_fn(b.path), bad is None, bad or '', b.loc(bi))


def dominated_only(b, x, start, avoid):
    return x in b.reachable(start, avoid=[avoid]) and x not in b.reachable(avoid, avoid=[start])


def other_form(F, sf, b, op):
    """Value of an operand as (const, coefficient of len(reason)) using the size evaluator on the
    defining statements (straight-line: Add of constants, len()/encoded_size() of the reason string)."""
    c = const_val(op)
    if c is not None:
        return (c, 0)
    p = op_place(op)
    seen = 0
    const_part, len_part = 0, 0
    work = [(p, 1)]
    while work and seen < 40:
        seen += 1
        q, k = work.pop()
        if q is None:
            return None
        if place_proj(q):
            # field .0 of a WithOverflow tuple
            base = {'l': q['l'], 'p': []}
            ds = [d for d in b.whole_defs(q['l']) if d[0] in b.live]
            if len(ds) == 1 and ds[0][2] == 'assign' and ds[0][3]['rv']['k'] == 'bin' and ds[0][3]['rv']['op'].startswith('Add'):
                rv = ds[0][3]['rv']
                for side in ('a', 'b'):
                    cv = const_val(rv[side])
                    if cv is not None:
                        const_part += k * cv
                    else:
                        work.append((op_place(rv[side]), k))
                continue
            return None
        ds = [d for d in b.whole_defs(q['l']) if d[0] in b.live]
        if len(ds) != 1:
            return None
        d = ds[0]
        if d[2] == 'assign':
            rv = d[3]['rv']
            if rv['k'] in ('use', 'cast'):
                cv = const_val(rv['op'])
                if cv is not None:
                    const_part += k * cv
                else:
                    work.append((op_place(rv['op']), k))
                continue
            if rv['k'] == 'bin' and rv['op'] in ('Add',):
                for side in ('a', 'b'):
                    cv = const_val(rv[side])
                    if cv is not None:
                        const_part += k * cv
                    else:
                        work.append((op_place(rv[side]), k))
                continue
            return None
        if d[2] == 'call':
            nm = callee_name(d[3]) or ''
            if nm.endswith('::len'):
                len_part += k
                continue
            if re.search(r'ByteString as utils::Encode>::encoded_size$', nm):
                const_part += 2 * k
                len_part += k
                continue
            return None
        return None
    return (const_part, len_part)


# ----------------------------------------------------------------------------- varint length lemma

def const_array(F, b):
    """Constant u32 arrays (the MAP tables) used by a function: from its promoted / const bodies."""
    out = []
    for p, pb in list(F.promoted.items()) + list(F.bodies.items()):
        if p.startswith(b.path + '::'):
            for bi, j, s in pb.assigns():
                rv = s['rv']
                if rv['k'] == 'agg' and rv.get('agg') == 'array':
                    vals = [const_val(x) for x in rv['fields']]
                    if all(isinstance(v, int) for v in vals) and len(vals) >= 33:
                        out.append(vals)
    return out


def true_vil(n):
    return 1 if n < 128 else 2 if n < 16384 else 3 if n < 2097152 else 4 if n < 268435456 else 5


def varint_len(F, R):
    """var_int_len(_u32): MAP[leading_zeros(v)] must be the MQTT variable byte integer length at every
    boundary; var_int_len_from_size must invert L + vil(L); write_variable_length's ranges must match."""
    bounds = sorted({x for k in (0, 1, 127, 128, 16383, 16384, 2097151, 2097152, 268435455) for x in (k - 2, k - 1, k, k + 1, k + 2, k + 3, k + 4) if 0 <= x <= 268435455})
    if R.tier == 'thorough':
        bounds = sorted(set(bounds) | set(range(0, 70000)) | {x for k in (2097152, 268435455) for x in range(k - 3000, k + 3000) if 0 <= x <= 268435455} | {1 << k for k in range(0, 28)} | {(1 << k) - 1 for k in range(1, 29)})
    R.counts['C09.varint-len:values evaluated'] = len(bounds)
    tabs = {}
    for fn, width in (('v5::codec::encode::var_int_len', 64), ('v5::codec::encode::var_int_len_u32', 32)):
        b = F.bodies.get(fn)
        if b is None:
            raise AnchorLost(fn)
        arrs = const_array(F, b)
        ok = False
        msg = 'lookup table not found'
        uses_lz = any(re.search(r'leading_zeros$', callee_name(t) or '') for _, t in b.calls())
        for arr in arrs:
            if len(arr) != width + 1:
                continue
            badv = [v for v in bounds if arr[width - v.bit_length()] != true_vil(v)]
            ok = not badv and uses_lz
            msg = 'table gives %s for %s, the variable byte integer needs %s' % ([arr[width - v.bit_length()] for v in badv[:3]], badv[:3], [true_vil(v) for v in badv[:3]]) if badv else ('leading_zeros() is not the index' if not uses_lz else '')
            tabs[fn] = arr
        R.ob('C09.varint-len', '%s|table==variable-byte-integer-length' % short_fn(fn), ok, msg, b.loc(0))
    # var_int_len_from_size: extract as expression over var_int_len_u32
    b = F.bodies.get('v5::codec::encode::var_int_len_from_size')
    if b is None:
        raise AnchorLost('var_int_len_from_size')
    tab = tabs.get('v5::codec::encode::var_int_len_u32')
    def vil32(v):
        return tab[32 - v.bit_length()] if tab else true_vil(v)
    def model(nm, args, t, path):
        return None
    ps = [p for p in SymEx(b, F).run() if p.end[0] == 'return']
    ok = False
    msg = 'cannot extract the expression'
    if len(ps) == 1:
        expr = ps[0].ret
        def ev(t, val):
            k = t[0]
            if k == 'arg':
                return val
            if k == 'const':
                return t[1]
            if k == 'bin':
                x, y = ev(t[2], val), ev(t[3], val)
                if x is None or y is None:
                    return None
                r = {'Add': x + y, 'Sub': x - y, 'Mul': x * y}.get(t[1])
                if r is None or r < 0:
                    raise ArithmeticError('underflow')
                return r
            if k == 'call' and t[1].endswith('var_int_len_u32'):
                x = ev(t[2][0], val)
                return vil32(x)
            if k == 'cast':
                return ev(t[1], val)
            return None
        bad = None
        for L in bounds:
            total = L + true_vil(L)
            try:
                got = ev(expr, total)
            except ArithmeticError:
                got = 'underflow'
            if got != L:
                bad = 'for a property section of %d bytes (size %d) it returns %s' % (L, total, got)
                break
        ok = bad is None
        msg = bad or ''
    R.ob('C09.varint-len', 'v5::encode::var_int_len_from_size|inverts len+varint_len(len)', ok, msg, b.loc(0))
    # write_variable_length: number of bytes per range
    b = F.bodies.get('utils::write_variable_length')
    if b is None:
        raise AnchorLost('write_variable_length')
    se = SymEx(b, F)
    ranges = []
    for p in se.run():
        if p.end[0] != 'return':
            continue
        n = 0
        for nm, a, bi in p.calls:
            if nm.endswith('put_u8'):
                n += 1
            elif nm.endswith('put_slice'):
                arr = a[1]
                while arr[0] in ('ref', 'deref', 'cast'):
                    arr = arr[1]
                n += len(arr[1]) if arr[0] == 'array' else 99
        ranges.append((n, p.conds))
    # evaluate the range conditions at the boundaries
    bad = None
    for v in bounds:
        hits = []
        for n, conds in ranges:
            okc = True
            for term, c in conds:
                val = eval_cmp(term, v)
                if val is None:
                    continue
                if c[0] == 'eq' and val != c[1]:
                    okc = False
                if c[0] == 'ne' and val in c[1]:
                    okc = False
            if okc:
                hits.append(n)
        if sorted(set(hits)) != [true_vil(v)]:
            bad = 'value %d is written with %s byte(s), the variable byte integer needs %d' % (v, sorted(set(hits)), true_vil(v))
            break
    R.ob('C09.varint-len', 'utils::write_variable_length|bytes-per-range', bad is None and len(ranges) >= 4, bad or ('%d ranges' % len(ranges)), b.loc(0))


def eval_cmp(term, v):
    k = term[0]
    if k == 'bin' and term[1] in ('Le', 'Lt', 'Ge', 'Gt', 'Eq', 'Ne'):
        def e(t):
            if t[0] == 'arg':
                return v
            if t[0] == 'const':
                return t[1]
            if t[0] == 'cast':
                return e(t[1])
            return None
        x, y = e(term[2]), e(term[3])
        if x is None or y is None:
            return None
        return int({'Le': x <= y, 'Lt': x < y, 'Ge': x >= y, 'Gt': x > y, 'Eq': x == y, 'Ne': x != y}[term[1]])
    if k == 'arg':
        return v
    return None


# ----------------------------------------------------------------------------- codec contract

def contract(F, R):
    specs = [
        ('v5', 'Packet', r'EncodeLtd>::encoded_size$|EncodeLtd::encoded_size$', r'Packet as v5::codec::encode::EncodeLtd>::encode$', True),
        ('v5', 'Publish', r'EncodeLtd>::encoded_size$|EncodeLtd::encoded_size$', r'Publish as v5::codec::encode::EncodeLtd>::encode$', True),
        ('v3', 'Packet', r'^v3::codec::encode::get_encoded_size$', r'^v3::codec::encode::encode$', False),
        ('v3', 'Publish', r'^v3::codec::encode::get_encoded_publish_size$', r'^v3::codec::encode::encode_publish$', True),
    ]
    for ver, arm, spat, epat, limited in specs:
        b = F.one(r'^<%s::codec::codec::Codec as ntex_codec::Encoder>::encodev$' % ver)
        encs = [(bi, t) for bi, t in b.calls() if re.search(epat, callee_name(t) or '')]
        key = '%s::Codec::encodev|%s' % (ver, arm)
        if len(encs) != 1:
            R.ob('C09.contract', key + '|one-encode-call', False, 'expected one call of the %s emitter, found %d' % (arm, len(encs)), b.loc(0))
            continue
        ebi, et = encs[0]
        size_op = et['args'][2]
        og = Origin(b).of_operand(size_op)
        calls = [l for l in og if l[0] == 'call']
        szs = [l for l in calls if re.search(spat, l[1] or '')]
        R.ob('C09.contract', key + '|size==encoded_size-of-the-same-packet', len(og) >= 1 and len(szs) == len(calls) == 1 and all(l[0] in ('call',) for l in og),
             'the size passed to the emitter does not (only) come from the size function: %s' % [l[:2] for l in og][:4], b.loc(ebi))
        if szs:
            sbi = szs[0][2] if len(szs[0]) > 2 else None
            # same packet: first argument access paths agree
            st = None
            for bi, t in b.calls():
                if re.search(spat, callee_name(t) or '') and (sbi is None or bi == sbi):
                    st = (bi, t)
            if st:
                pa, pb_ = apath(b, st[1]['args'][0]), apath(b, et['args'][0])
                R.ob('C09.contract', key + '|sized-and-encoded-packet-are-the-same-value', pa is not None and pa == pb_, 'size computed for %s, encoded %s' % (apath_str(pa), apath_str(pb_)), b.loc(ebi))
        if limited:
            # a comparison content_size > max dominating the encode call on its false edge, true edge -> OverMaxPacketSize
            okc = False
            why = 'no comparison of the computed size with the maximum dominates the emitter'
            for bi, j, s in b.assigns():
                rv = s['rv']
                if rv['k'] != 'bin' or rv['op'] not in ('Gt', 'Lt', 'Ge', 'Le'):
                    continue
                oa, ob = Origin(b).of_operand(rv['a']), Origin(b).of_operand(rv['b'])
                a_sz = any(l[0] == 'call' and re.search(spat, l[1] or '') for l in oa)
                b_sz = any(l[0] == 'call' and re.search(spat, l[1] or '') for l in ob)
                if a_sz == b_sz:
                    continue
                other = ob if a_sz else oa
                mx = any(term_mentions_max(b, l) for l in other)
                if not mx:
                    continue
                mine = oa if a_sz else ob
                if any((l[0] == 'binop' and l[1] in ('Sub', 'SubWithOverflow', 'Div', 'Shr')) or (l[0] == 'call' and re.search(r'::(saturating_sub|checked_sub|wrapping_sub)$', l[1] or '')) for l in mine):
                    why = 'the value compared with the maximum is the computed size minus something (e.g. without the payload): a packet that is over the limit only because of that part passes the check'
                    continue
                r = bool_branch(b, bi, s['lhs']['l'])
                if not r:
                    continue
                _, tt, ft = r
                op = rv['op'] if a_sz else {'Gt': 'Lt', 'Lt': 'Gt', 'Ge': 'Le', 'Le': 'Ge'}[rv['op']]
                if op == 'Gt':
                    over, under = tt, ft
                elif op == 'Le':
                    over, under = ft, tt
                else:
                    why = 'the size is compared with %s against the maximum: a packet of exactly/over the maximum is treated wrongly' % op
                    continue
                if not edge_dominates(b, bi, under, ebi) and not only_via_under_or_disabled(b, bi, under, ebi):
                    why = 'the emitter is not confined to the within-limit edge of the comparison'
                    continue
                oreg = b.reachable(over, avoid=[under])
                errs = [x for x, jj, ss in agg_sites(b, r'^error::EncodeError$', 'OverMaxPacketSize') if x in oreg]
                writes = [x for x, t in b.calls() if x in oreg and re.search(r'BytePages|BufMut', callee_name(t) or '')]
                if errs and not writes and ebi not in oreg:
                    okc = True
                else:
                    why = 'the over-size edge does not end in OverMaxPacketSize without writing'
            R.ob('C09.contract', key + '|size>max=>OverMaxPacketSize-before-any-write', okc, why, b.loc(ebi))
    # v5: the limit used is max_out_size when set, MAX_PACKET_SIZE otherwise
    b = F.one(r'^<v5::codec::codec::Codec as ntex_codec::Encoder>::encodev$')
    lim_ok = 0
    for bi, t in b.calls():
        if re.search(r'EncodeLtd>::encoded_size$|EncodeLtd::encoded_size$', callee_name(t) or ''):
            og = Origin(b).of_operand(t['args'][1])
            srcs = set()
            for l in og:
                if l[0] == 'call' and re.search(r'Cell::<T>::get$', l[1] or ''):
                    srcs.add('cell')
                elif l[0] in ('const', 'constx'):
                    srcs.add(str(l[1]))
            if 'cell' in srcs and any('MAX_PACKET_SIZE' in x or x == '268435455' for x in srcs):
                lim_ok += 1
            else:
                R.ob('C09.contract', 'v5::Codec::encodev|limit-source', False, 'the limit handed to encoded_size is not max_out_size-or-MAX_PACKET_SIZE: %s' % sorted(srcs), b.loc(bi))
    R.ob('C09.contract', 'v5::Codec::encodev|limit==max_out_size-or-MAX_PACKET_SIZE', lim_ok == 2, 'expected both encoded_size calls to receive the negotiated limit, %d do' % lim_ok, b.loc(0))


def only_via_under_or_disabled(b, cmp_block, under, ebi):
    """`max != 0 && size > max`: the emitter is reached only through the block both false edges lead to,
    whose other predecessors are tests `max == 0` (limit disabled) of a value read from a Cell."""
    # forward through trivial goto blocks to the join block
    for _ in range(4):
        t = b.blocks[under]['term']
        if t['k'] == 'goto' and all(x['k'] == 'dead' for x in b.blocks[under]['stmts']) and len(b.pred[under]) == 1:
            under = t['target']
        else:
            break
    if under not in b.dom.get(ebi, ()):
        return False
    for p in b.pred[under]:
        if p == cmp_block:
            continue
        # follow trivial gotos backwards
        q = p
        for _ in range(4):
            if b.blocks[q]['term']['k'] == 'goto' and len(b.pred[q]) == 1:
                q = list(b.pred[q])[0]
            else:
                break
        if q == cmp_block:
            continue
        t = b.blocks[q]['term']
        if t['k'] != 'switch':
            return False
        dp = op_place(t['discr'])
        if not dp:
            return False
        okz = False
        for xb, j, s in b.assigns():
            if s['lhs']['l'] == dp['l'] and s['rv']['k'] == 'bin' and s['rv']['op'] in ('Ne', 'Eq'):
                rv = s['rv']
                zero = const_val(rv['b']) == 0 or const_val(rv['a']) == 0
                other = rv['a'] if const_val(rv['b']) == 0 else rv['b']
                if zero and any(term_mentions_max(b, l) for l in Origin(b).of_operand(other)):
                    r = bool_branch(b, xb, s['lhs']['l'])
                    if r:
                        _, tt, ft = r
                        disabled = ft if rv['op'] == 'Ne' else tt
                        if disabled in (p, under, q):
                            okz = True
        if not okz:
            return False
    return True


def term_mentions_max(b, leaf):
    if leaf[0] == 'call' and re.search(r'Cell::<T>::get$', leaf[1] or ''):
        return True
    if leaf[0] in ('const', 'constx') and ('MAX_PACKET_SIZE' in str(leaf[1]) or leaf[1] == 268435455):
        return True
    return False


def concrete(term, argv):
    """Evaluate an extracted u32 expression for a concrete argument value (None = not evaluable)."""
    k = term[0]
    if k == 'arg':
        return argv
    if k == 'const':
        return term[1]
    if k == 'cast':
        return concrete(term[1], argv)
    if k == 'bin':
        x, y = concrete(term[2], argv), concrete(term[3], argv)
        if x is None or y is None:
            return None
        op = term[1]
        if op in ('Add', 'Sub', 'Mul'):
            r = {'Add': x + y, 'Sub': x - y, 'Mul': x * y}[op]
            return r if 0 <= r < (1 << 32) else None
        if op in ('Gt', 'Lt', 'Ge', 'Le', 'Eq', 'Ne'):
            return int({'Gt': x > y, 'Lt': x < y, 'Ge': x >= y, 'Le': x <= y, 'Eq': x == y, 'Ne': x != y}[op])
        if op in ('BitAnd', 'BitOr'):
            return x & y if op == 'BitAnd' else x | y
        return None
    if k == 'call':
        base = term[1].split('::')[-1]
        a = [concrete(x, argv) for x in term[2]]
        if any(v is None for v in a):
            return None
        if base == 'saturating_sub':
            return max(a[0] - a[1], 0)
        if base == 'wrapping_sub':
            return (a[0] - a[1]) & 0xFFFFFFFF
        if base == 'checked_sub':
            return None
        if base in ('min', 'max') and len(a) == 2:
            return min(a) if base == 'min' else max(a)
        return None
    if k == 'un' and term[1] == 'Not':
        v = concrete(term[2], argv)
        return None if v is None else 1 - v
    # `x.checked_sub(y)` / `checked_add`: the discriminant of the Option and its payload
    def checked(t):
        while isinstance(t, tuple) and t and t[0] in ('ref', 'deref'):
            t = t[1]
        if isinstance(t, tuple) and t and t[0] == 'call' and t[1].split('::')[-1] in ('checked_sub', 'checked_add') and len(t[2]) == 2:
            x, y = concrete(t[2][0], argv), concrete(t[2][1], argv)
            if x is None or y is None:
                return None
            r = x - y if t[1].endswith('checked_sub') else x + y
            return (0 <= r < (1 << 32), r)
        return None
    if k == 'discr':
        c = checked(term[1])
        return None if c is None else int(c[0])
    if k == 'field' and isinstance(term[1], tuple) and term[1] and term[1][0] == 'downcast' and term[1][2] == 'Some' and str(term[2]) == '0':
        c = checked(term[1][1])
        return c[1] if c is not None and c[0] else None
    return None


def header_allowance(F, R):
    """set_max_outbound_size: the function is extracted as (conditions, stored value) per path and
    evaluated for the announced limits 1..=64, 2^28 and u32::MAX: a non-zero limit is never stored as 0
    (= unlimited) and the stored content limit leaves room for the 5 fixed-header bytes."""
    b = F.one(r'^v5::codec::codec::Codec::set_max_outbound_size$')
    sets = [(bi, t) for bi, t in b.calls_to(r'^std::cell::Cell::<T>::set$') if (call_recv_path(b, t, 0) or ('',))[-1] == 'max_out_size']
    if len(sets) != 1:
        raise AnchorLost('set_max_outbound_size: max_out_size.set')
    ps = [p for p in SymEx(b, F).run() if p.end[0] == 'return']
    table = []
    for p in ps:
        stored = None
        for nm, a, bi in p.calls:
            if nm.endswith('Cell::<T>::set'):
                stored = a[1]
        table.append(([(t, c) for t, c in p.conds if t[0] != 'assert'], stored))
    def stored_for(v):
        hits = []
        for conds, st in table:
            ok = True
            for t, c in conds:
                cv = concrete(t, v)
                if cv is None:
                    return 'unevaluable'
                if (c[0] == 'eq' and cv != c[1]) or (c[0] == 'ne' and cv in c[1]):
                    ok = False
                    break   # (conditions are in path order: what follows was only evaluated under this one)
            if ok:
                hits.append(None if st is None else concrete(st, v))
        if len(hits) != 1 or hits[0] is None:
            return 'unevaluable'
        return hits[0]
    big, tiny_unl, tiny_room, uneval = [], [], [], []
    for v in list(range(1, 65)) + [1 << 28, (1 << 32) - 1]:
        st = stored_for(v)
        if st == 'unevaluable':
            uneval.append(v)
            continue
        if v > 5:
            if not (1 <= st <= v - 5):
                big.append((v, st))
        else:
            if st == 0:
                tiny_unl.append((v, st))
            if st + 5 > v:
                tiny_room.append((v, st))
    loc = b.loc(sets[0][0])
    R.ob('C09.contract', 'v5::Codec::set_max_outbound_size|evaluable', not uneval, 'cannot evaluate the stored limit for announced values %s' % uneval[:5], loc)
    R.ob('C09.contract', 'v5::Codec::set_max_outbound_size|limit>5|1<=stored<=announced-5', not big,
         'announced Maximum Packet Size -> stored content limit: %s (a frame is up to 5 bytes larger than its content)' % big[:4], loc)
    R.ob('C09.contract', 'v5::Codec::set_max_outbound_size|limit-1..=5|not-stored-as-0-(unlimited)', not tiny_unl,
         'a peer limit of %s is stored as 0, which the encoder treats as "no limit at all"' % [v for v, _ in tiny_unl], loc)
    R.ob('C09.contract', 'v5::Codec::set_max_outbound_size|limit-1..=5|stored+5<=announced', not tiny_room,
         'for an announced Maximum Packet Size of %s the 5-byte fixed-header allowance is not subtracted (stored %s): e.g. limit 4 lets a 6-byte PUBACK frame through' % ([v for v, _ in tiny_room], [s_ for _, s_ in tiny_room]), loc)
    R.table('set_max_outbound_size', [dict(when=' & '.join('%s %s' % (term_str_v(t), c) for t, c in conds), stored=term_str_v(st) if st else None) for conds, st in table])


# ----------------------------------------------------------------------------- limit arithmetic in the sizers

def limit_arith(F, R):
    """Every Overflow:Sub assert in the size functions' call graph is guarded by a dominating comparison of
    the same two values (reduce_limit, `limit < 4`, `prop_len > limit`), or is constant."""
    import c16
    roots = [p for p in F.bodies if re.search(r'::encoded_size$|^v3::codec::encode::get_encoded', p) and '/codec/' in F.bodies[p].file or p in ('v5::codec::encode::reduce_limit', 'v5::codec::encode::encoded_size_opt_props', 'v5::codec::packet::ack_props::encoded_size')]
    cg = F.callgraph_from(roots)
    n = 0
    for p in sorted(cg):
        b = F.bodies.get(p)
        if b is None or '/codec/' not in b.file and b.file != 'src/utils.rs':
            continue
        if emit_fn(b):
            continue
        k = 0
        for s in panics.sites(b):
            t = s['term']
            if s['kind'] != 'assert' or t.get('op') != 'Sub':
                continue
            n += 1
            k += 1
            ok = c16.guarded_arith(b, s) or guarded_cast_cmp(b, s['block'], t) or (const_val(t['a']) is not None and const_val(t['b']) is not None and const_val(t['a']) >= const_val(t['b']))
            R.ob('C09.limit-arith', '%s|sub#%d-guarded' % (short_fn(p), k), ok,
                 'unsigned subtraction %s - %s in a size computation is not protected by a comparison of the same values: a small limit underflows (panic in debug, huge limit in release)' % (op_str(t['a']), op_str(t['b'])), s['loc'])
    R.floor('C09.limit-arith', 'subtractions in size functions', n, 1)
    # the limit parameter reaches only the diagnostics sizers
    for p in sorted(F.bodies):
        if not re.search(r'EncodeLtd>::encoded_size$', p):
            continue
        b = F.bodies[p]
        lim = 2
        bad = []
        for bi, t in b.calls():
            nm = callee_name(t) or ''
            for ai, a in enumerate(t['args']):
                if lim in arg_ix(Origin(b).of_operand(a)):
                    if re.search(r'reduce_limit$|encoded_size_opt_props$|ack_props::encoded_size$|EncodeLtd>::encoded_size$|EncodeLtd::encoded_size$', nm):
                        continue
                    bad.append(nm.split('::')[-1])
        for s in panics.sites(b):
            t = s['term']
            if s['kind'] == 'assert' and t.get('msg') == 'Overflow':
                for side in ('a', 'b'):
                    if lim in arg_ix(Origin(b, transparent=re.compile(r'$^')).of_operand(t[side])) and not via_call(b, t[side]):
                        bad.append('arithmetic:%s' % t['op'])
        R.ob('C09.limit-arith', '%s|limit-only-shortens-diagnostics' % short_fn(p), not bad,
             'the limit flows into something other than reduce_limit / the Reason String + User Property sizers: %s' % sorted(set(bad)), b.loc(0))


def via_call(b, op):
    """The operand is (a copy/cast of) a call result, i.e. the limit only influenced it through a callee."""
    p = op_place(op)
    for _ in range(8):
        if p is None or place_proj(p):
            return bool(p) and True
        ds = [d for d in b.whole_defs(p['l']) if d[0] in b.live]
        if len(ds) != 1:
            return False
        if ds[0][2] == 'call':
            return True
        if ds[0][2] == 'assign' and ds[0][3]['rv']['k'] in ('use', 'cast'):
            p = op_place(ds[0][3]['rv'].get('op'))
            continue
        if ds[0][2] == 'assign' and ds[0][3]['rv']['k'] == 'bin':
            rv = ds[0][3]['rv']
            return all(const_val(rv[s]) is not None or via_call(b, rv[s]) for s in ('a', 'b'))
        return False
    return False


def emit_fn(b):
    return any('BytePages' in (b.local_ty(i) or '') for i in range(1, b.argc + 1))


# ----------------------------------------------------------------------------- NO_PROBLEM_INFO

ACK_VARIANTS = ['PublishAck', 'PublishReceived', 'PublishRelease', 'PublishComplete', 'SubscribeAck', 'UnsubscribeAck']


def only_diagnostics(F, R):
    b = F.one(r'^<v5::codec::codec::Codec as ntex_codec::Encoder>::encodev$')
    # region under the flag test: from the contains() call's true edge until the max_out_size read
    cont = [(bi, t) for bi, t in b.calls() if re.search(r'CodecFlags::contains$|CodecFlags.*::contains$', callee_name(t) or '')]
    if len(cont) != 1:
        raise AnchorLost('encodev: CodecFlags::contains (%d)' % len(cont))
    r = call_bool_branch(b, cont[0][0])
    if not r or r[0] == 'discr':
        raise AnchorLost('encodev: branch on NO_PROBLEM_INFO')
    _, tt, ft = r
    # the code that runs only under the flag: reachable from the true edge and not from the false edge
    region = b.reachable(tt, avoid=[ft]) - b.reachable(ft)
    flag_arg = apath(b, cont[0][1]['args'][1]) if len(cont[0][1]['args']) > 1 else None
    R.ob('C09.only-diagnostics-dropped', 'v5::Codec::encodev|tested-flag==NO_PROBLEM_INFO', flag_is(F, b, cont[0][1], 'NO_PROBLEM_INFO'), 'the block that strips diagnostics is conditioned on a different flag', b.loc(cont[0][0]))
    allowed = {'properties', 'user_properties', 'reason_string'}
    mut = []
    per_variant = {}
    for bi, t in b.calls():
        if bi not in region:
            continue
        nm = callee_name(t) or ''
        base = nm.split('::')[-1]
        if base in ('clear', 'take', 'truncate', 'pop', 'remove', 'drain', 'retain', 'replace', 'swap', 'push', 'insert', 'set', 'extend') or '&mut' in (b.local_ty(op_place(t['args'][0])['l']) if t['args'] and op_place(t['args'][0]) else ''):
            ap = apath(b, t['args'][0]) if t['args'] else None
            fields = [x for x in (ap or []) if not x.startswith('call:') and not x.startswith('as ')]
            field = fields[-1] if fields else '?'
            var = [x[3:] for x in (ap or []) if x.startswith('as ')]
            mut.append((bi, base, field, var))
            for v in var:
                per_variant.setdefault(v, set()).add((base, field))
    bad = [(base, field) for bi, base, field, var in mut if field not in allowed or base not in ('clear', 'take')]
    R.ob('C09.only-diagnostics-dropped', 'v5::Codec::encodev|only-reason-string-and-user-properties-are-cleared', not bad and bool(mut),
         'under NO_PROBLEM_INFO something other than the Reason String / User Properties is modified: %s' % bad[:4], b.loc(mut[0][0]) if mut else b.loc(tt))
    # ... but never from CONNACK and DISCONNECT (nor PUBLISH, which is not a `Packet`): they keep their Reason String / User
    # Properties whatever the client asked for (MQTT 5, 3.1.2.11.7)
    keep = ('Disconnect', 'ConnectAck', 'Connect')
    others = sorted({v for bi, base, field, var in mut for v in var if v in keep})
    ve0 = variant_edges(F, b, 'v5::codec::packet::Packet')
    for v_, es_ in ve0.items():
        if v_.endswith('?') or v_ not in keep:
            continue
        reg_ = set()
        for e in es_:
            if e[0] in region or e[1] in region:
                # blocks of this arm only: reachable from its edge without passing another arm's edge target
                reg_ |= b.reachable(e[1], avoid={x[1] for vv, xs in ve0.items() if vv != v_ for x in xs}) & region
        if any(bi in reg_ for bi, base, field, var in mut):
            others.append(v_)
    others = sorted(set(others))
    R.ob('C09.only-diagnostics-dropped', 'v5::Codec::encodev|CONNACK-and-DISCONNECT-keep-their-diagnostics', not others,
         'under NO_PROBLEM_INFO the diagnostics of %s are removed as well: Request Problem Information = 0 does not concern PUBLISH, CONNACK and DISCONNECT - the peer decodes a different packet than the one that was encoded' % ', '.join(others), b.loc(mut[0][0]) if mut else b.loc(tt))
    # direct field writes in the region
    wr = [(bi, place_str(s['lhs'])) for bi, j, s in b.assigns() if bi in region and place_proj(s['lhs']) and any(isinstance(e, dict) and 'f' in e for e in place_proj(s['lhs'])) and b.local_name(s['lhs']['l']) in ('item', 'pkt')]
    R.ob('C09.only-diagnostics-dropped', 'v5::Codec::encodev|no-direct-field-writes', not wr, 'fields of the packet are overwritten under NO_PROBLEM_INFO: %s' % wr[:3])
    # every acknowledgement type loses both
    ve = variant_edges(F, b, 'v5::codec::packet::Packet')
    for v in ACK_VARIANTS:
        reg = set()
        for e in ve.get(v, []):
            if e[0] in region or e[1] in region:
                reg |= b.reachable(e[1]) & region
        got = set()
        for bi, base, field, var in mut:
            if bi in reg:
                got.add((base, field))
        need = {('clear', 'properties'), ('take', 'reason_string')}
        R.ob('C09.only-diagnostics-dropped', 'v5::Codec::encodev|%s|loses-user-properties-and-reason-string' % v, need <= got,
             'after a CONNECT with Request Problem Information = 0 this acknowledgement still carries %s' % sorted(f for _, f in need - got), b.loc(tt))
    R.counts['C09.only-diagnostics-dropped:mutations'] = len(mut)
    # the packet is stripped before its size is computed: the lengths in the header describe what is written
    sizers = [bi for bi, t in b.calls() if re.search(r'EncodeLtd>?::encoded_size$', callee_name(t) or '')]
    late = [bi for bi, base, field, var in mut if any(bi in b.reachable_after(sz) for sz in sizers)]
    R.ob('C09.only-diagnostics-dropped', 'v5::Codec::encodev|stripped-before-the-size-is-computed', bool(sizers) and not late,
         'the Reason String / User Properties are removed after encoded_size() was evaluated: Remaining Length and Property Length announce bytes that are not written', b.loc(late[0]) if late else b.loc(tt))
    # where the flag is written
    dec = F.one(r'^<v5::codec::codec::Codec as ntex_codec::Decoder>::decode$')
    sets = []
    for fb in F.find(r'^(<)?v5::'):
        for bi, t in fb.calls():
            nm = callee_name(t) or ''
            if re.search(r'CodecFlags.*::(set|insert|remove|toggle)$', nm) and flag_is(F, fb, t, 'NO_PROBLEM_INFO'):
                sets.append((fb, bi, t))
    ok = len(sets) == 1 and sets[0][0] is dec
    msg = 'NO_PROBLEM_INFO is written at %s' % [(x[0].path, x[0].loc(x[1])) for x in sets]
    if ok:
        fb, bi, t = sets[0]
        og = Origin(fb).of_operand(t['args'][2])
        # value = !connect.request_problem_info
        ap_ok = False
        for xb, j, s in fb.assigns():
            if s['rv']['k'] == 'un' and s['rv']['op'] == 'Not':
                ap = apath(fb, s['rv']['a'])
                if ap and ap[-1] == 'request_problem_info':
                    if any(dd[0] == xb and dd[3] is s for dd in def_chain(fb, t['args'][2])):
                        ap_ok = True
        ok = ap_ok
        msg = 'the flag value is not `!connect.request_problem_info`'
    R.ob('C09.only-diagnostics-dropped', 'v5::Codec|NO_PROBLEM_INFO==!CONNECT.request_problem_info', ok, msg, sets[0][0].loc(sets[0][1]) if sets else None)


def flags_preserved(F, R):
    """Every other place of the v5 codec that stores into `flags` only adds/removes single named flags on the
    value it read: the NO_PROBLEM_INFO bit set when CONNECT was decoded survives the capability setters the
    server handshake calls afterwards."""
    n = 0
    for b in F.find(r'^v5::codec::codec::Codec::\w+$'):
        sets = [(bi, t) for bi, t in b.calls_to(r'^std::cell::Cell::<T>::set$') if (call_recv_path(b, t, 0) or ('',))[-1] == 'flags']
        if not sets:
            continue
        for bi, t in sets:
            n += 1
            name = b.path.split('::')[-1]
            p0 = op_place(t['args'][1])
            ok = False
            why = 'the stored flags value is not the value read from the cell'
            if p0 is not None:
                # follow plain moves back to the local that holds the working copy
                l = p0['l']
                for _ in range(6):
                    ds = [d for d in b.whole_defs(l) if d[0] in b.live]
                    if len(ds) == 1 and ds[0][2] == 'assign' and ds[0][3]['rv']['k'] == 'use' and op_place(ds[0][3]['rv']['op']) is not None and not place_proj(op_place(ds[0][3]['rv']['op'])):
                        l = op_place(ds[0][3]['rv']['op'])['l']
                    else:
                        break
                ds = [d for d in b.whole_defs(l) if d[0] in b.live]
                from_get = len(ds) == 1 and ds[0][2] == 'call' and (callee_name(ds[0][3]) or '').endswith('Cell::<T>::get') and (call_recv_path(b, ds[0][3], 0) or ('',))[-1] == 'flags'
                if not from_get:
                    why = 'the stored value is computed (%d definitions) instead of being the value read from the cell modified in place: bits it does not mention are lost' % len(ds)
                else:
                    ok = True
                    import c01
                    for xb, xt in b.calls():
                        if not xt['args']:
                            continue
                        if c01.root_local(b, xt['args'][0]) != l:
                            continue
                        base = (callee_name(xt) or '').split('::')[-1]
                        if base not in ('insert', 'remove', 'set', 'toggle', 'contains'):
                            ok = False
                            why = 'the working copy is transformed by %s()' % base
                        elif base != 'contains' and flag_is(F, b, xt, 'NO_PROBLEM_INFO'):
                            ok = False
                            why = 'NO_PROBLEM_INFO is modified outside the CONNECT decoder'
            R.ob('C09.only-diagnostics-dropped', 'v5::Codec::%s|flags-update-preserves-NO_PROBLEM_INFO' % name, ok, why, b.loc(bi))
    R.floor('C09.only-diagnostics-dropped', 'flag stores outside the decoder', n, 1)


def flag_is(F, b, t, name):
    """One of the call's arguments is the CodecFlags constant `name`."""
    for a in t['args'][1:]:
        c = op_const(a)
        s = json.dumps(c) if c else ''
        if name in s:
            return True
        for d in def_chain(b, a):
            if name in json.dumps(d[3]['rv']):
                return True
    return False


def def_chain(b, op, depth=6):
    """Assignments an operand's value comes from, through plain copies (`tmp = copy param; param = const X` after a helper
    was spliced)."""
    out = []
    p = op_place(op)
    seen = set()
    while p is not None and not place_proj(p) and p['l'] not in seen and depth > 0:
        seen.add(p['l'])
        depth -= 1
        nxt = None
        for d in b.whole_defs(p['l']):
            if d[2] == 'assign' and d[0] in b.live:
                out.append(d)
                if d[3]['rv']['k'] == 'use' and op_place(d[3]['rv']['op']) is not None:
                    nxt = op_place(d[3]['rv']['op'])
        p = nxt
    return out


# ----------------------------------------------------------------------------- reported sizes

def reported_size(F, R):
    specs = [
        (r'^v5::sink::PublishBuilder::size$', r'Publish as v5::codec::encode::EncodeLtd>::encoded_size$|EncodeLtd::encoded_size$'),
        (r'^v3::sink::PublishBuilder::size$', r'^v3::codec::encode::get_encoded_publish_size$'),
        (r'^v5::sink::SubscribeBuilder::size$', r'Subscribe as v5::codec::encode::EncodeLtd>::encoded_size$|EncodeLtd::encoded_size$'),
        (r'^v5::sink::UnsubscribeBuilder::size$', r'Unsubscribe as v5::codec::encode::EncodeLtd>::encoded_size$|EncodeLtd::encoded_size$'),
        (r'^v3::sink::SubscribeBuilder::size$', r'^v3::codec::encode::get_encoded_subscribe_size$'),
        (r'^v3::sink::UnsubscribeBuilder::size$', r'^v3::codec::encode::get_encoded_unsubscribe_size$'),
    ]
    n = 0
    for pat, spat in specs:
        bs = F.find(pat)
        if not bs:
            R.note('%s not present' % pat)
            continue
        b = bs[0]
        n += 1
        og = Origin(b).of_operand({'copy': {'l': 0, 'p': []}}) if False else None
        calls = [callee_name(t) or '' for _, t in b.calls()]
        uses = [c for c in calls if re.search(spat, c)]
        R.ob('C09.reported-size', '%s|uses-the-codec-size-function' % b.path, len(uses) >= 1, 'size() does not call the size function the codec encodes with; calls: %s' % [c.split('::')[-1] for c in calls][:6], b.loc(0))
    R.floor('C09.reported-size', 'builder size() functions', n, 4)


# ----------------------------------------------------------------------------- failed encode appends nothing (C08 rule)

def failed_encode(F, R):
    import c08, runner
    rep = runner.Report('C08', 'quick')
    c08.validate_before_write(F, rep)
    n = 0
    for i in rep.items:
        key = i['key'].split('|', 1)[1]
        n += 1
        R.ob('C09.failed-encode-appends-nothing', key, i['ok'], i['msg'], i.get('loc'))
    R.floor('C09.failed-encode-appends-nothing', 'error sources in the encoders (C08.validate-before-write instances)', n, 10)


def limit_budget(F, R, sf):
    """The budget handed to the Reason String / User Property sizer is what is left of the limit after
    everything else in the packet: limit - (all other bytes, with 4 for each length prefix). Then shortening
    the diagnostics is always enough when the rest fits, and the size comparison of the codec only fails
    when the mandatory part alone is too large."""
    n = 0
    for p in sorted(F.bodies):
        if not re.search(r'EncodeLtd>::encoded_size$', p):
            continue
        b = F.bodies[p]
        sf.limit_args = []
        sf.memo = {k: v for k, v in sf.memo.items() if not (k[0] == 'S' and k[1] == p)}
        try:
            S = sf._eval_paths(b, [('arg', 1), ('arg', 2)], (), emit=False)
        except Unsupported:
            continue
        if not any(r[0] == p and r[1] in ('optprops', 'ackprops') for r in sf.limit_args):
            continue
        n += 1
        name = short_fn(p)
        bad = None
        form_bad = None
        for c, l in S:
            lims = sf.last_lims.get((p, tuple(sorted(c.items(), key=repr))), ())
            lims = [x for x in lims if x[0] in ('optprops', 'ackprops')]
            if len(lims) != 1:
                continue
            kind, lterm, pr = lims[0]
            atom = (kind,) + tuple(pr)
            red = None
            if lterm[0] == 'reduce' and sizeflow.norm(lterm[1]) == ('arg', 2):
                red = thaw(lterm[2])
            elif lterm == ('arg', 2):
                red = Lin()
            if red is None:
                form_bad = term_str_v(lterm)[:120]
                continue
            if atom not in l.t:
                continue
            w = sizeflow.World(sf, dict(c))
            rest = Lin(l.c)
            for a, k in l.t.items():
                if a == atom:
                    continue
                if a[0] == 'vil':
                    rest = rest.add(Lin(4), k)
                else:
                    rest = rest.add(Lin.atom(a), k)
            slack = w.resolve(red).sub(w.resolve(rest))
            lb = sizeflow.lower_bound(slack)
            if lb is None or lb < 0:
                bad = 'rest of the packet (length prefixes counted as 4) minus the reduction = %s' % lin_str(Lin().sub(slack))[:300]
        R.ob('C09.limit-budget', '%s|diagnostics-budget==reduce_limit(limit, rest)' % name, form_bad is None, 'the budget of the diagnostics sizer is not reduce_limit(limit, ..): %s' % form_bad, b.loc(0))
        R.ob('C09.limit-budget', '%s|diagnostics-budget<=limit-everything-else' % name, bad is None,
             'the Reason String / User Properties are sized against more room than the limit leaves, so a packet that would fit without them fails with OverMaxPacketSize instead of being shortened: %s' % bad, b.loc(0))
    R.floor('C09.limit-budget', 'limited encoders with optional diagnostics', n, 7)
    sf.limit_args = []


def run(F, R):
    sf = SizeFlow(F)
    size_terms(F, R, sf)
    frame_header(F, R, sf)
    opt_props(F, R, sf)
    limit_budget(F, R, sf)
    varint_len(F, R)
    contract(F, R)
    header_allowance(F, R)
    limit_arith(F, R)
    only_diagnostics(F, R)
    flags_preserved(F, R)
    reported_size(F, R)
    failed_encode(F, R)
    R.assume('sums of in-memory lengths do not overflow usize (Overflow:Add on usize in the size functions is not examined)')
    R.assume('loops are summarised from their zero- and one-iteration paths: per-item contribution is independent of the accumulator (checked: accumulator coefficient 1)')
