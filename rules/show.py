#!/usr/bin/env python3
"""Debug aid: print the MIR facts of bodies whose path matches a regex."""
import sys
sys.path.insert(0, '/verif/rules')
from facts import Facts
F = Facts(sys.argv[2] if len(sys.argv) > 2 else '/verif/build/facts.json')
for b in F.find(sys.argv[1]):
    b.dump()
    print()
