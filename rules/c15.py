"""C15 (structural part, MQTT 5): every place where a DISCONNECT can reach the wire is enumerated
(who-constructs) and each live emission is dominated by the false edge of the test-and-set
is_disconnect_sent(); handler answers that may carry a DISCONNECT are built with disconnect=true and
control_pkt shuts the io down before the answer is returned; the peer-DISCONNECT arm records the
receipt and performs the test-and-set before anything can be emitted; the control service forwards
a user packet only if no peer DISCONNECT was received (or a protocol error is being reported);
emission sites are followed by io.close(); cause -> reason-code tables (extracted from MIR) carry the
dedicated MQTT 5 codes and no error path uses 0x00/0x04. Combinations of initiators in time are not
decided (the flag is a runtime bit; decided is that no path forgets to consult it). nothing-after (continued): every function of the connection state that both clears the queues (running the application's publish-ack callbacks) and closes the io closes it first. flag-guard (continued): a path of the default control service on which the test-and-set is_disconnect_sent() answered 'not yet' returns a packet. cause-code (continued): in the MQTT 5 server's PUBLISH arm QoS-not-supported is raised only on the `qos > max_qos()` edge and Retain-not-supported only where RETAIN is set and retain_available() is false. nothing-after (continued): the Shutdown state of the io dispatcher has no way out before service.poll_shutdown. cause-code (continued): ProtocolViolationError::reason returns the stored reason of a Common violation.
"""
from facts import *
from disp import *
from symex import SymEx, term_str_v, cond_map, term_has

DRC = 'v5::codec::packet::disconnect::DisconnectReasonCode'
IO_ENCODE = r'^ntex_io::.*IoRef>::encode$'
SENT = r'^v5::shared::MqttShared::is_disconnect_sent$'

REVIEWED_DISCONNECT_SITES = {
    'v5::shared::MqttShared::close': 'sink close paths (guarded by the flag)',
    'v5::dispatcher::Inner::<C>::control_pkt::{closure#0}': 'handler answer Pkt::Disconnect (guarded by the flag)',
    'v5::client::dispatcher::Inner::<C>::control_pkt::{closure#0}': 'handler answer Pkt::Disconnect (guarded by the flag)',
    '<v5::default::ControlService<S, E> as ntex_service::Service<control::Control<E>>>::call::{closure#0}': 'default DISCONNECT for Stop(Error)/Stop(Protocol) (guarded by the flag)',
    'v5::client::control::ProtocolMessage::disconnect': 'client handler answer; built with disconnect=true, io is closed before the answer is written (dead write)',
}


def sent_false_edges(b):
    out = []
    for bi, t in b.calls_to(SENT):
        r = call_bool_branch(b, bi)
        if r and r[0] != 'discr':
            out.append((r[0], r[2], bi))
    return out


def guarded(b, bi, edges):
    return any(edge_dominates(b, s, f, bi) for s, f, _ in edges)


def flag_guard(F, R):
    # who constructs a DISCONNECT packet (outside the codec)
    n = 0
    for b in F.bodies.values():
        if '/codec/' in b.file or not (b.path.startswith('v5::') or b.path.startswith('<v5::')):
            continue
        sites = [(bi, 'Packet::Disconnect') for bi, j, s in agg_sites(b, r'^v5::codec::packet::Packet$', 'Disconnect')]
        sites += [(bi, 'Packet::from(Disconnect)') for bi, t in b.calls_to(r'^<v5::codec::packet::Packet as std::convert::From<v5::codec::packet::disconnect::Disconnect>>::from$')]
        for bi, what in sites:
            n += 1
            R.ob('C15.flag-guard', '%s|%s|reviewed-site' % (b.path, what), b.path in REVIEWED_DISCONNECT_SITES,
                 'a DISCONNECT packet is constructed at a site that has not been reviewed for the at-most-once flag', b.loc(bi))
    R.floor('C15.flag-guard', 'DISCONNECT construction sites', n, 3)
    # 1. close()
    b = F.one(r'^v5::shared::MqttShared::close$')
    edges = sent_false_edges(b)
    encs = [(bi, t) for bi, t in b.calls_to(IO_ENCODE)]
    R.ob('C15.flag-guard', 'v5::shared::MqttShared::close|encode-sites', len(encs) == 1, 'found %d wire writes in close()' % len(encs))
    for bi, t in encs:
        R.ob('C15.flag-guard', 'v5::shared::MqttShared::close|IoRef::encode|after-test-and-set', guarded(b, bi, edges),
             'close() can write DISCONNECT without passing the `is_disconnect_sent() == false` edge', b.loc(bi))
    # 2. default control service: every return that may carry a packet
    cs = F.one(r'^<v5::default::ControlService<S, E> as ntex_service::Service<control::Control<E>>>::call::\{closure#0\}$')
    edges = sent_false_edges(cs)
    R.ob('C15.flag-guard', 'v5::default::ControlService::call|test-and-set-sites', len(edges) >= 1, 'found %d is_disconnect_sent() tests' % len(edges))
    # path-sensitive (the answer may be assembled in one place after the decisions were taken): every returning path
    # whose value is Ok(Some(packet)) carries the condition `is_disconnect_sent() == false`
    from symex import skip_logging, option_tests
    def model_(nm, args, t, path):
        r = skip_logging(nm, args, t, path)
        return r if r is not None else option_tests(nm, args, t, path)
    se = SymEx(cs, F, loop_visits=1, max_paths=6000, call_model=model_)
    cpaths = [p for p in se.run() if p.end[0] == 'return']
    R.ob('C15.flag-guard', 'v5::default::ControlService::call|paths-enumerated', not se.truncated and len(cpaths) >= 6, '%d paths (truncated=%s)' % (len(cpaths), se.truncated))
    # the converse: is_disconnect_sent() is a test-and-set - a path on which it answered "not yet" (and thereby recorded a
    # DISCONNECT as sent) must hand a packet to the io dispatcher; otherwise a later, real DISCONNECT is suppressed
    wasted = []
    for p in cpaths:
        fresh = False
        for t, c in p.conds:
            if term_has(t, 'is_disconnect_sent'):
                val = (c != ('eq', 0))
                tt_ = t
                while tt_[0] == 'un' and tt_[1] == 'Not':
                    val = not val
                    tt_ = tt_[2]
                if tt_[0] == 'call' and val is False:
                    fresh = True
        if not fresh or not (p.ret and p.ret[0] == 'agg' and p.ret[2] == 'Ok'):
            continue
        inner = p.ret[3].get('0')
        if inner is None or (inner[0] == 'agg' and inner[2] == 'None'):
            wasted.append(p)
    R.ob('C15.flag-guard', 'v5::default::ControlService::call|flag-recorded=>packet-returned', not wasted,
         'the control service asks is_disconnect_sent() (which records a DISCONNECT as sent) on a path that returns no packet (e.g. a back-pressure notification): the DISCONNECT that is due later - keep-alive timeout, protocol error - is never written', cs.loc(wasted[0].blocks[-1]) if wasted else None)
    classes = {}
    for p in cpaths:
        ret = p.ret
        if not (ret and ret[0] == 'agg' and ret[2] == 'Ok'):
            continue
        inner = ret[3].get('0')
        if inner is None or (inner[0] == 'agg' and inner[2] == 'None'):
            continue
        if inner[0] == 'call' and 'FromResidual<std::option::Option<std::convert::Infallible>>' in inner[1]:
            continue  # `opt?` on None
        label = 'user-packet' if term_has(inner, 'ServiceCtx') else ('default-disconnect' if term_has(inner, 'Disconnect') or term_has(inner, 'disconnect') else 'other')
        tested = False
        for t, c in p.conds:
            if term_has(t, 'is_disconnect_sent'):
                val = (c != ('eq', 0))
                tt_ = t
                while tt_[0] == 'un' and tt_[1] == 'Not':
                    val = not val
                    tt_ = tt_[2]
                if tt_[0] == 'call' and val is False:
                    tested = True
        classes.setdefault(label, []).append((tested, p))
    for label, lst in sorted(classes.items()):
        bad = [p for ok_, p in lst if not ok_]
        R.ob('C15.flag-guard', 'v5::default::ControlService::call|Ok(Some)|%s|after-test-and-set' % label, not bad,
             'the control service can hand a packet to the io dispatcher without passing the `is_disconnect_sent() == false` edge (second DISCONNECT / packet after DISCONNECT)', cs.loc(bad[0].blocks[-1]) if bad else None)
    R.floor('C15.flag-guard', 'packet-carrying returns of ControlService::call', len(classes), 2)
    # 3. control_pkt
    for d in all_dispatchers(F):
        if d.ver != 'v5':
            continue
        cp = d.control_pkt
        edges = sent_false_edges(cp)
        froms = [(bi, t) for bi, t in cp.calls_to(r'std::convert::From<v5::codec::packet::disconnect::Disconnect>>::from$')]
        R.ob('C15.flag-guard', '%s|control_pkt|Pkt::Disconnect-sites' % d.name, len(froms) == 1, 'found %d' % len(froms))
        for bi, t in froms:
            R.ob('C15.flag-guard', '%s|control_pkt|Pkt::Disconnect|after-test-and-set' % d.name, guarded(cp, bi, edges), 'a handler-supplied DISCONNECT is emitted without consulting the flag', cp.loc(bi))
        # result.disconnect => drop_sink(true) before return
        def _is_true(body_, op_):
            if const_val(op_) == 1:
                return True
            og_ = Origin(body_).of_operand(op_)
            return bool(og_) and all(l_[0] == 'const' and l_[1] == 1 for l_ in og_)
        ds = [(bi, t) for bi, t in cp.calls_to(r'^v5::shared::MqttShared::drop_sink$') if _is_true(cp, t['args'][1])]
        ok = False
        for sb in sorted(cp.live):
            t = cp.blocks[sb]['term']
            if t['k'] != 'switch':
                continue
            ap = apath(cp, t['discr'])
            if ap and ap[-1] == 'disconnect':
                zero = [tb for v, tb in t['targets'] if v == 0]
                true_t = t['otherwise']
                if zero:
                    avoid = {bi for bi, _ in ds}
                    ok = bool(ds) and not (set(cp.returns()) & cp.reachable(true_t, avoid=avoid | {zero[0]}))
        R.ob('C15.nothing-after', '%s|control_pkt|disconnect=true=>drop_sink(true)' % d.name, ok,
             'when the handler answer asks to disconnect, control_pkt must shut the io down (drop_sink(true)) before the answer is returned')
    # dead-by-construction: every ProtocolMessageAck that may carry Packet::Disconnect / Pkt::Disconnect has disconnect: true
    n_ack = 0
    for b in F.bodies.values():
        if not (b.path.startswith('v5::')):
            continue
        for bi, j, s in agg_sites(b, r'^v5::control::ProtocolMessageAck$'):
            names = s['rv']['names']
            pk = Origin(b).of_operand(s['rv']['fields'][names.index('packet')])
            may_disc = any(l[0] == 'agg' and (l[1].endswith('Packet::Disconnect') or l[1].endswith('Pkt::Disconnect')) for l in pk) or any(l[0] == 'arg' for l in pk) and 'disconnect' in b.path
            if not may_disc:
                continue
            n_ack += 1
            dv = const_val(s['rv']['fields'][names.index('disconnect')])
            if dv is None:
                og = Origin(b).of_operand(s['rv']['fields'][names.index('disconnect')])
                dv = 1 if og == {('const', 1, 'bool')} else None
            R.ob('C15.flag-guard', '%s|ProtocolMessageAck|disconnect=true' % b.path, dv == 1,
                 'a handler answer that carries a DISCONNECT is not marked disconnect=true: control_pkt would return it to the io dispatcher with the connection still open, bypassing the flag', b.loc(bi))
    R.floor('C15.flag-guard', 'handler answers that may carry DISCONNECT', n_ack, 3)


def ret_label(b, og):
    if any(l[0] == 'resume' or (l[0] == 'call' and 'ServiceCtx' in l[1]) for l in og):
        return 'user-packet'
    return 'default-disconnect'


def after_peer(F, R):
    for d in all_dispatchers(F):
        if d.ver != 'v5':
            continue
        b = d.call
        region = d.arm('Packet:Disconnect')
        if not region:
            raise AnchorLost('%s: Disconnect arm' % d.name)
        ctl = [(bi, t) for bi, t in d.call_sites(b, r'Inner::<C>::control|Inner::<C>::control_pkt') if bi in region]
        sent = [bi for bi, t in b.calls_to(SENT) if bi in region]
        R.ob('C15.after-peer', '%s|Disconnect-arm|forwards-to-control' % d.name, len(ctl) == 1, 'found %d control calls' % len(ctl))
        for cbi, ct in ctl:
            R.ob('C15.after-peer', '%s|Disconnect-arm|test-and-set-before-control' % d.name, bool(sent) and b.must_pass(set(sent), cbi),
                 'the peer-DISCONNECT arm reaches the control service without first setting the DISCONNECT-sent flag: a DISCONNECT could be written after the peer\'s', b.loc(cbi))
            if d.role == 'server':
                recv = [bi for bi, t in b.calls_to(r'^v5::shared::MqttShared::set_disconnect_recv$') if bi in region]
                R.ob('C15.after-peer', '%s|Disconnect-arm|records-receipt' % d.name, bool(recv) and b.must_pass(set(recv), cbi), 'DISCONNECT_RECV is not recorded before the control service runs', b.loc(cbi))
        # error edge of the arm is a SpecViolation::Disconnect_3_14_2_2x
        sv = [s['rv']['variant'] for bi, j, s in agg_sites(b, r'^error::SpecViolation$') if bi in region]
        R.ob('C15.after-peer', '%s|Disconnect-arm|error-edge' % d.name, sv and all(v.startswith('Disconnect_3_14_2_2') for v in sv), 'error edges of the arm: %s' % sv)
    cs = F.one(r'^<v5::default::ControlService<S, E> as ntex_service::Service<control::Control<E>>>::call::\{closure#0\}$')
    recvs = [(bi, t) for bi, t in cs.calls_to(r'^v5::shared::MqttShared::is_disconnect_recv$')]
    R.ob('C15.after-peer', 'v5::default::ControlService::call|consults-DISCONNECT_RECV', len(recvs) == 1, 'found %d' % len(recvs))
    # path-sensitive: a user packet is forwarded only on paths where is_disconnect_recv() was false
    # or the request is Stop(Reason::Protocol) (the protocol error is reported "in that very packet")
    reason = F.adts['control::Reason']
    proto_idx = [i for i, v in enumerate(reason['variants']) if v['name'] == 'Protocol'][0]
    se = SymEx(cs, F, loop_visits=1, max_paths=4000)
    paths = [p for p in se.run() if p.end[0] == 'return']
    R.ob('C15.after-peer', 'v5::default::ControlService::call|paths-enumerated', not se.truncated and len(paths) >= 6, '%d paths (truncated=%s)' % (len(paths), se.truncated))
    seen = set()
    for p in paths:
        ret = p.ret
        if not (ret and ret[0] == 'agg' and ret[2] == 'Ok'):
            continue
        inner = ret[3].get('0')
        if not (inner and inner[0] == 'agg' and inner[2] == 'Some'):
            continue
        if not term_has(inner, 'ServiceCtx'):
            continue  # the default DISCONNECT built locally
        recv = None
        proto = False
        for t, c in p.conds:
            if term_has(t, 'is_disconnect_recv'):
                recv = (c != ('eq', 0))
                tt_ = t
                while tt_[0] == 'un' and tt_[1] == 'Not':  # `!is_disconnect_recv()` materialised as a bool
                    recv = not recv
                    tt_ = tt_[2]
            if t[0] == 'discr' and term_has(t, 'Stop') and not term_has(t, 'ServiceCtx') and c == ('eq', proto_idx):
                proto = True
        sig = (recv, proto)
        if sig in seen:
            continue
        seen.add(sig)
        R.ob('C15.after-peer', 'v5::default::ControlService::call|user-packet|recv=%s,proto_error=%s' % (recv, proto), proto or recv is False,
             'a packet returned by the application control service is forwarded on a path where the peer\'s DISCONNECT has been received and no protocol error is being reported')
    R.counts['C15.after-peer:user-packet path classes'] = len(seen)


def nothing_after(F, R):
    b = F.one(r'^v5::shared::MqttShared::close$')
    closes = must_call_blocks(F, b, r'^ntex_io::.*IoRef>::close$')
    for bi, t in b.calls_to(IO_ENCODE):
        ok = bool(closes) and not (set(b.returns()) & b.reachable_after(bi, avoid=closes))
        R.ob('C15.nothing-after', 'v5::shared::MqttShared::close|encode=>io.close', ok, 'after writing DISCONNECT close() can return without closing the io', b.loc(bi))
    pa = F.one(r'^v5::shared::MqttShared::pkt_ack$')
    fam = F.family(pa)
    ok = any(list(x.calls_to(r'^v5::shared::MqttShared::close$')) for x in fam)
    R.ob('C15.nothing-after', 'v5::shared::MqttShared::pkt_ack|uses-close()', ok, 'pkt_ack must emit its DISCONNECT through close() (flag + io.close)')
    for d in all_dispatchers(F):
        if d.ver != 'v5':
            continue
        b = d.shutdown
        closers = {bi for bi, t in b.calls_to(r'^v5::shared::MqttShared::(close|drop_sink|force_close)$')}
        early = set(b.yields()) & b.reachable(0, avoid=closers)
        R.ob('C15.nothing-after', '%s|shutdown|io-closed-before-first-await' % d.name, bool(closers) and not early,
             'the io dispatcher writes the final DISCONNECT and then drives Dispatcher::shutdown; if shutdown awaits before closing the io, responses of handlers that are still running are written after the DISCONNECT',
             b.loc(sorted(early)[0]) if early else None)
    # application code that runs during teardown (the publish-ack callback, invoked by clear_queues with disconnected = true)
    # gets a closed io: in every function of the connection state that both clears the queues and closes the io, the close
    # comes first - otherwise a callback that re-routes the lost message through the sink writes a PUBLISH after the DISCONNECT
    n = 0
    for x in F.find(r'^v5::shared::MqttShared::'):
        if '{closure' in x.path:
            continue
        clears = [bi for bi, t in x.calls_to(r'^v5::shared::MqttShared::clear_queues$')]
        ends = {bi for bi, t in x.calls_to(r'^ntex_io::.*IoRef>::(close|terminate)$')}
        if not clears and not ends and x.path.split('::')[-1] in ('close', 'force_close', 'drop_sink'):
            # the teardown entry point delegates both steps to a sibling that is checked itself
            if must_call_blocks(F, x, r'^v5::shared::MqttShared::clear_queues$') and must_call_blocks(F, x, r'^ntex_io::.*IoRef>::(close|terminate)$'):
                n += 1
            continue
        if not clears or not ends:
            continue
        for bi in clears:
            n += 1
            late = sorted(e for e in ends if e in x.reachable_after(bi))
            R.ob('C15.nothing-after', '%s|io-closed-before-the-queues-are-cleared' % x.path, not late,
                 'clear_queues() runs the application\'s publish-ack callbacks (disconnected = true) while the io is still open and closes it afterwards: what such a callback sends through the sink is written after the endpoint\'s own DISCONNECT', x.loc(bi))
    R.floor('C15.nothing-after', 'teardown functions that clear the queues and close the io', n, 2)
    R.assume('ntex-io refuses writes once shutdown has started (IoRef::encode on a closing io writes nothing): extern effect, confirmed by experiment in round 0')


EXPECT_SPEC = {'Pub_3_3_4_7': 'ReceiveMaximumExceeded', 'Pub_3_3_4_9': 'ReceiveMaximumExceeded', 'Connack_3_2_2_11': 'QosNotSupported', 'Connack_3_2_2_14': 'RetainNotSupported',
               'Connack_3_2_2_3_12': 'SubscriptionIdentifiersNotSupported'}
EXPECT_CODE = {'ReceiveMaximumExceeded': 0x93, 'QosNotSupported': 0x9B, 'RetainNotSupported': 0x9A, 'SubscriptionIdentifiersNotSupported': 0xA1, 'KeepAliveTimeout': 0x8D,
               'PacketTooLarge': 0x95, 'TopicAliasInvalid': 0x94, 'NormalDisconnection': 0x00, 'DisconnectWithWillMessage': 0x04, 'ProtocolError': 0x82, 'MalformedPacket': 0x81,
               'ImplementationSpecificError': 0x83, 'UnspecifiedError': 0x80}
FORBIDDEN = {'NormalDisconnection', 'DisconnectWithWillMessage'}


def variant_of(v):
    if v and v[0] == 'agg' and v[1] == DRC:
        return v[2]
    return None


def cause_code(F, R):
    codes = F.enum_variants(DRC)
    for name, val in EXPECT_CODE.items():
        R.ob('C15.cause-code', 'DisconnectReasonCode::%s=0x%02X' % (name, val), codes.get(name) == val, 'discriminant is %s' % codes.get(name))
    # SpecViolation::reason table
    b = F.one(r'^error::SpecViolation::reason$')
    sv = F.adts['error::SpecViolation']
    paths = [p for p in SymEx(b, F).run() if p.end[0] == 'return']
    tab = {}
    for p in paths:
        for t, c in p.conds:
            if c[0] == 'eq':
                tab[sv['variants'][c[1]]['name']] = variant_of(p.ret)
    R.table('SpecViolation::reason', tab)
    R.ob('C15.cause-code', 'SpecViolation::reason|total', len(tab) == len(sv['variants']), 'table covers %d of %d variants' % (len(tab), len(sv['variants'])))
    for name, got in sorted(tab.items()):
        if name in EXPECT_SPEC:
            R.ob('C15.cause-code', 'SpecViolation::%s=>%s' % (name, got), got == EXPECT_SPEC[name], 'MQTT 5 assigns %s to this cause' % EXPECT_SPEC[name])
        R.ob('C15.cause-code', 'SpecViolation::%s|not-normal' % name, got is not None and got not in FORBIDDEN, 'an error DISCONNECT must not claim %s' % got)
    # from_proto_error table
    b = F.one(r'^v5::codec::packet::disconnect::Disconnect::from_proto_error$')
    pe = F.adts['error::ProtocolError']
    de = F.adts['error::DecodeError']
    rows = {}
    from symex import inline_pure
    for p in SymEx(b, F, call_model=inline_pure(F)).run():
        if p.end[0] != 'return' or not p.ret or p.ret[0] != 'agg':
            continue
        rc = p.ret[3].get('reason_code')
        lab = []
        for t, c in p.conds:
            s = term_str_v(t)
            if s == 'discr(*arg1)':
                lab.append(('PE', c))
            else:
                lab.append(('DE', c))
        rows[str(lab)] = (lab, rc)
    def lookup(pe_name, de_name=None):
        pi = [i for i, v in enumerate(pe['variants']) if v['name'] == pe_name][0]
        di = [i for i, v in enumerate(de['variants']) if v['name'] == de_name][0] if de_name else None
        for lab, rc in rows.values():
            ok = True
            for kind, c in lab:
                val = pi if kind == 'PE' else di
                if val is None:
                    ok = False
                elif c[0] == 'eq' and c[1] != val:
                    ok = False
                elif c[0] == 'ne' and val in c[1]:
                    ok = False
            if ok:
                return rc
        return None
    R.ob('C15.cause-code', 'from_proto_error|KeepAliveTimeout', variant_of(lookup('KeepAliveTimeout')) == 'KeepAliveTimeout', 'got %s' % (lookup('KeepAliveTimeout'),))
    R.ob('C15.cause-code', 'from_proto_error|Decode(MaxSizeExceeded)', variant_of(lookup('Decode', 'MaxSizeExceeded')) == 'PacketTooLarge', 'got %s' % (lookup('Decode', 'MaxSizeExceeded'),))
    v = lookup('ProtocolViolation')
    R.ob('C15.cause-code', 'from_proto_error|ProtocolViolation=>e.reason()', v is not None and v[0] == 'call' and v[1] == 'error::ProtocolViolationError::reason', 'got %s' % (term_str_v(v) if v else None))
    for pv in pe['variants']:
        if pv['name'] in ('ProtocolViolation',):
            continue
        for dv in (de['variants'] if pv['name'] == 'Decode' else [None]):
            rc = lookup(pv['name'], dv['name'] if dv else None)
            vn = variant_of(rc)
            R.ob('C15.cause-code', 'from_proto_error|%s%s|not-normal' % (pv['name'], '(%s)' % dv['name'] if dv else ''), vn is not None and vn not in FORBIDDEN, 'maps to %s' % vn)
    # ProtocolViolationError::reason: Spec -> SpecViolation::reason, UnexpectedPacket -> ProtocolError, Common -> stored reason
    b = F.one(r'^error::ProtocolViolationError::reason$')
    rets = [term_str_v(p.ret) for p in SymEx(b, F).run() if p.end[0] == 'return']
    R.ob('C15.cause-code', 'ProtocolViolationError::reason|Spec=>SpecViolation::reason', any('error::SpecViolation::reason' in r for r in rets), str(rets)[:200])
    # a violation built with a dedicated code (`ProtocolError::violation(TopicAliasInvalid, ..)`) keeps it: the Common arm returns
    # the stored `reason` field
    R.ob('C15.cause-code', 'ProtocolViolationError::reason|Common=>stored-reason', any(re.search(r'as Common\)\.reason|Common.*\.reason', r) for r in rets),
         'the reason code stored in a generic violation is not what reason() returns (%s): a violation raised with a dedicated code is reported with another one' % str(rets)[:160])
    # constant reasons handed to ProtocolError::violation (stored as Common.reason)
    n = 0
    for body in F.bodies.values():
        for bi, t in body.calls_to(r'^error::ProtocolError::violation$'):
            og = Origin(body).of_operand(t['args'][0])
            vs = sorted({l[1].split('::')[-1] for l in og if l[0] == 'agg' and l[1].startswith(DRC)})
            n += 1
            R.ob('C15.cause-code', '%s|ProtocolError::violation(%s)|not-normal' % (top(body), '+'.join(vs) or '?'), bool(vs) and not (set(vs) & FORBIDDEN), 'reason passed: %s' % vs, body.loc(bi))
            if 'dispatcher' in body.path and '::call' in body.path:
                # the unknown-alias site
                R.ob('C15.cause-code', '%s|unknown-topic-alias=>TopicAliasInvalid' % top(body), vs == ['TopicAliasInvalid'], 'unknown topic alias must be reported with 0x94', body.loc(bi))
    R.floor('C15.cause-code', 'ProtocolError::violation call sites', n, 3)
    # the two fixed error DISCONNECTs
    cs = F.one(r'^<v5::default::ControlService<S, E> as ntex_service::Service<control::Control<E>>>::call::\{closure#0\}$')
    reasons = [s['rv']['variant'] for bi, j, s in agg_sites(cs, r'^%s$' % re.escape(DRC))]
    R.ob('C15.cause-code', 'v5::default::ControlService::call|Stop(Error)-reason', reasons == ['ImplementationSpecificError'], 'constant reasons used: %s' % reasons)
    pa = F.one(r'^v5::shared::MqttShared::pkt_ack$')
    reasons = [s['rv']['variant'] for x in F.family(pa) for bi, j, s in agg_sites(x, r'^%s$' % re.escape(DRC))]
    R.ob('C15.cause-code', 'v5::shared::MqttShared::pkt_ack|reason', reasons and not (set(reasons) & FORBIDDEN), 'constant reasons used: %s' % reasons)


def no_suspension_before_service_shutdown(F, R):
    """The endpoint's own DISCONNECT is written in the Stop state of the io dispatcher; the io is closed by the shutdown of the
    protocol services, started in the Shutdown state. Nothing lets the task suspend in between: in the Shutdown arm of
    Dispatcher::poll every way out (return) lies behind the call of `service.poll_shutdown` - a wait inserted before it (for
    a flush, say) leaves a window in which completed handlers and the application still write behind the DISCONNECT."""
    import c07
    poll = F.one(r'^<io::Dispatcher<P, C, U, E> as std::future::Future>::poll$')
    arms = variant_edges(F, poll, c07.ST)
    reg = arm_region(poll, arms.get('Shutdown', []))
    sh = [bi for bi, t in poll.calls_to(r'::poll_shutdown$') if bi in reg and 'service' in (call_recv_path(poll, t, 0) or ())]
    entries = [tb for sb, tb in arms.get('Shutdown', [])]
    early = [rb for rb in poll.returns() if rb in poll.reachable(entries, avoid=sh) and rb in reg] if entries else []
    # (returns shared with other arms are attributed by reachability from this arm's entry without passing poll_shutdown)
    early2 = [rb for rb in poll.returns() if entries and rb in poll.reachable(entries, avoid=set(sh) | {c07.loop_head(F, poll)})]
    R.ob('C15.nothing-after', 'io::Dispatcher::poll|Shutdown|no-way-out-before-service.poll_shutdown', bool(sh) and not early2,
         'the Shutdown state can return (suspend) before the protocol services are shut down - after the endpoint\'s own DISCONNECT was written in the Stop state and before the io is closed: whatever completes meanwhile is written after the DISCONNECT', poll.loc(early2[0]) if early2 else poll.loc(0))


def violation_guards(F, R):
    """MQTT 5 server, PUBLISH arm: the two capability violations that have a DISCONNECT code of their own are raised by their
    own test - QoS not supported (0x9B) only where `publish.qos` exceeds `max_qos()`, Retain not supported (0x9A) only where
    the packet has RETAIN set and retain_available() is false. A merged test that picks the code afterwards by looking at
    the packet reports the wrong cause when both apply."""
    d = Disp(F, 'v5-server')
    b = d.call
    reg = d.arm('Publish')
    exceed, ret_true, avail_false = [], [], []
    for bi, t in b.calls():
        nm = callee_name(t) or ''
        m = re.search(r'PartialOrd(?:<[^>]*>)?>?::(gt|lt|le|ge)$', nm)
        if m and len(t['args']) == 2:
            a0, a1 = apath(b, t['args'][0]) or ('',), apath(b, t['args'][1]) or ('',)
            q0, q1 = a0[-1] == 'qos', a1[-1] == 'qos'
            m0, m1 = any('max_qos' in x for x in a0), any('max_qos' in x for x in a1)
            r = call_bool_branch(b, bi)
            if r and r[0] != 'discr' and ((q0 and m1) or (q1 and m0)):
                op = m.group(1) if q0 else {'gt': 'lt', 'lt': 'gt', 'le': 'ge', 'ge': 'le'}[m.group(1)]
                # op is now `qos <op> max`: the packet exceeds the maximum on the true edge of gt, the false edge of le
                if op == 'gt':
                    exceed.append((r[0], r[1]))
                elif op == 'le':
                    exceed.append((r[0], r[2]))
        if re.search(r'::retain_available$', nm):
            r = call_bool_branch(b, bi)
            if r and r[0] != 'discr':
                avail_false.append((r[0], r[2]))
    for bi, j, s in b.assigns():
        rv = s['rv']
        if rv['k'] == 'use' and op_place(rv['op']) is not None and place_fields(op_place(rv['op']))[-1:] == ['retain'] and not place_proj(s['lhs']):
            r = bool_branch(b, bi, s['lhs']['l'])
            if r:
                ret_true.append((r[0], r[1]))
    for sb in sorted(b.live):
        t = b.blocks[sb]['term']
        if t['k'] == 'switch' and op_place(t['discr']) is not None and place_fields(op_place(t['discr']))[-1:] == ['retain']:
            tg = dict((v, x) for v, x in t['targets'])
            if 0 in tg:
                ret_true.append((sb, t['otherwise']))
    n = 0
    for bi, j, s in agg_sites(b, r'^error::SpecViolation$'):
        if bi not in reg:
            continue
        v = s['rv']['variant']
        if v == 'Connack_3_2_2_11':
            n += 1
            R.ob('C15.cause-code', 'v5-server|PUBLISH|QosNotSupported-raised-only-where-qos>max_qos', any(edge_dominates(b, sb, tb, bi) for sb, tb in exceed),
                 'the QoS-not-supported violation (DISCONNECT 0x9B) is built on a path that is not the `publish.qos > max_qos()` edge', b.loc(bi))
        if v == 'Connack_3_2_2_14':
            n += 1
            ok = any(edge_dominates(b, sb, tb, bi) for sb, tb in ret_true) and any(edge_dominates(b, sb, tb, bi) for sb, tb in avail_false)
            R.ob('C15.cause-code', 'v5-server|PUBLISH|RetainNotSupported-raised-only-where-retain-set-and-unavailable', ok,
                 'the Retain-not-supported violation (DISCONNECT 0x9A) is built on a path where retain_available() was not found false (or RETAIN not found set): a retained PUBLISH refused for its QoS is reported with the wrong reason code', b.loc(bi))
    R.floor('C15.cause-code', 'capability violations raised in the v5 PUBLISH arm', n, 2)


def top(b):
    return re.sub(r'(::\{closure#\d+\})+$', '', b.path)


def run(F, R):
    flag_guard(F, R)
    after_peer(F, R)
    nothing_after(F, R)
    cause_code(F, R)
    violation_guards(F, R)
    no_suspension_before_service_shutdown(F, R)
