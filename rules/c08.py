"""C08 (structural part): writers: every IoRef::encode site (who-may-write, enumerated) with a
non-payload item is streaming-guarded: dominated by the Ok edge of check_streaming() in the same
function, or its item is Encoded::Packet and the codec's encodev refuses packets while a payload is
owed (codec-guard, checked in both codecs), or it precedes the existence of the sink (handshake);
Encoded::Publish/PayloadChunk are constructed only in shared.rs. validate-before-write: in the call
graph of both Codec::encodev no error return is reachable after a buffer write (per function, error
source). stream-accounting: over-delivery force-closes without writing, the remaining counter is
decreased by the written length, a dropped unfinished stream force-closes, the codec refuses a chunk
longer than what is owed or when nothing is owed. Decides code shape; the byte stream itself is not
parsed. stream-accounting (continued): the roll-back of streaming_remaining is not reachable from (nor attached to a Result carrying) check_streaming()'s refusal; codec-guard (continued): every io::Dispatcher is built with the shared connection state (one codec object for sink and dispatcher). stream-accounting (continued): the payload-owed counter is written only by the functions that start a publish or write a chunk (who-may-write); StreamingPayload::send marks the handle finished only after the chunk went through encode_publish_payload.
"""
from facts import *
from disp import agg_sites, all_dispatchers

IO_ENCODE = r'^ntex_io::.*IoRef>::encode$'
WRITE = re.compile(r'^<ntex_bytes::BytePages as ntex_bytes::BufMut>::put_\w+$|^ntex_bytes::BufMut::put_\w+$|^ntex_bytes::BytePages::(append|extend_from_slice|put_slice)$|^<ntex_bytes::BytesMut as ntex_bytes::BufMut>::put_\w+$')

HANDSHAKE_SITES = [
    r'^v[35]::client::connector::MqttConnectorService::<A, T>::connect_inner::\{closure#0\}$',
    r'^<v[35]::server::HandshakeService<St, H> as ntex_service::Service<ntex_io::IoBoxed>>::call::\{closure#0\}$',
]


def item_kinds(b, t):
    og = Origin(b).of_operand(t['args'][1])
    return sorted({l[1].split('::')[-1] for l in og if l[0] == 'agg' and l[1].split('::')[-2:-1] == ['Encoded']})


def codec_guard(F, R):
    """Both codecs: in the Encoded::Packet arm every encoder call is dominated by the
    `encoding_payload.get().is_some() == false` edge."""
    ok_all = {}
    for ver in ('v3', 'v5'):
        b = F.one(r'^<%s::codec::codec::Codec as ntex_codec::Encoder>::encodev$' % ver)
        ve = variant_edges(F, b, '%s::codec::Encoded' % ver)
        reg = arm_region(b, ve.get('Packet', []))
        if not reg:
            raise AnchorLost('%s encodev: Packet arm' % ver)
        guards = []
        for bi, t in b.calls_to(r'^std::option::Option::<T>::is_some$'):
            ap = call_recv_path(b, t, 0)
            if ap and 'encoding_payload' in ap:
                r = call_bool_branch(b, bi)
                if r and r[0] != 'discr':
                    guards.append((r[0], r[2]))
        encs = [(bi, t) for bi, t in b.calls() if bi in reg and (callee_name(t) or '').startswith('%s::codec::' % ver) and re.search(r'::encode$|Encode(Ltd)?>::encode$|encode::encode$', callee_name(t) or '')]
        encs += [(bi, t) for bi, t in b.calls() if bi in reg and re.search(r'EncodeLtd>::encode$', callee_name(t) or '') and (bi, t) not in encs]
        R.ob('C08.codec-guard', '%s::codec::Codec::encodev|Packet-arm|encoder-calls' % ver, len(encs) >= 1, 'found %d encoder calls in the Packet arm' % len(encs))
        good = True
        for bi, t in encs:
            ok = any(edge_dominates(b, s, f, bi) for s, f in guards)
            good = good and ok
            R.ob('C08.codec-guard', '%s::codec::Codec::encodev|Packet-arm|refuses-while-payload-owed' % ver, ok,
                 'the %s encoder accepts a packet while a streamed PUBLISH payload is still owed: a response or PUBREL written by the dispatcher lands inside the payload' % ver, b.loc(bi))
        ok_all[ver] = good and bool(encs)
    return ok_all


def writers(F, R, cg_ok):
    n = 0
    per = defaultdict(int)
    for b in sorted(F.bodies.values(), key=lambda x: x.path):
        for bi, t in b.calls_to(IO_ENCODE):
            n += 1
            kinds = item_kinds(b, t)
            ver = 'v5' if 'v5::' in b.path else ('v3' if 'v3::' in b.path else 'io')
            fn = re.sub(r'(::\{closure#\d+\})+$', '', b.path)
            per[fn] += 1
            key = '%s|IoRef::encode#%d|%s' % (fn, per[fn], '+'.join(kinds) or 'generic')
            # (a) check_streaming Ok edge dominates
            cs_ok = False
            for cbi, ct in b.calls_to(r'^v[35]::shared::MqttShared::check_streaming$'):
                # `?` form: Try::branch on the result, Continue edge
                for tb, tt in b.calls_to(r'ops::Try>::branch$'):
                    if tb in b.reachable_after(cbi) and op_place(tt['args'][0]) and op_place(tt['args'][0])['l'] == ct['dest']['l']:
                        r = discr_switch_after_call(b, tb)
                        if r and edge_dominates(b, r[0], r[1].get(0, r[2]), bi):
                            cs_ok = True
                r = discr_switch_after_call(b, cbi)
                if r and edge_dominates(b, r[0], r[1].get(0, r[2]), bi):
                    cs_ok = True
            if kinds == ['PayloadChunk']:
                R.ob('C08.writers', key, True, 'payload chunk of the PUBLISH being streamed', b.loc(bi), status='payload')
            elif cs_ok:
                R.ob('C08.writers', key, True, 'dominated by the Ok edge of check_streaming()', b.loc(bi), status='streaming-guarded')
            elif any(re.search(p, b.path) for p in HANDSHAKE_SITES):
                R.ob('C08.writers', key, True, 'handshake write: precedes the creation of the sink (no stream can be open)', b.loc(bi), status='handshake')
            elif kinds == ['Packet'] or (ver == 'io' and not kinds):
                # codec-guarded: needs the codec rule to hold for the codecs this site can use
                need = [ver] if ver in ('v3', 'v5') else ['v3', 'v5']
                ok = all(cg_ok.get(v) for v in need)
                R.ob('C08.writers', key, ok, 'non-payload item written without check_streaming(); relies on Codec::encodev refusing packets while a payload is owed (%s)' % (
                    'holds' if ok else 'does NOT hold for ' + '/'.join(v for v in need if not cg_ok.get(v))), b.loc(bi), status='codec-guarded' if ok else None)
            else:
                R.ob('C08.writers', key, False, 'unclassified wire write (item kinds %s): not streaming-guarded' % kinds, b.loc(bi))
    # (every site is classified on its own above - a new, unclassifiable writer is a violation under its own key; the count
    # only guards against the enumeration itself breaking, duplicated writes may be merged by a refactoring)
    R.floor('C08.writers', 'IoRef::encode sites', n, 12)
    # io.rs items are dispatcher responses: Encoded::Publish / PayloadChunk are constructed only in shared.rs
    for b in F.bodies.values():
        if '/codec/' in b.file:
            continue
        for bi, j, s in agg_sites(b, r'^v[35]::codec::Encoded$'):
            if s['rv']['variant'] in ('Publish', 'PayloadChunk'):
                R.ob('C08.writers', '%s|constructs Encoded::%s' % (re.sub(r'(::\{closure#\d+\})+$', '', b.path), s['rv']['variant']), re.match(r'^v[35]::shared::MqttShared::', b.path) is not None,
                     'Encoded::%s is constructed outside shared.rs: it can reach the wire through a path without check_streaming()' % s['rv']['variant'], b.loc(bi))


def validate_before_write(F, R):
    roots = [b.path for b in F.find(r'^<v[35]::codec::codec::Codec as ntex_codec::Encoder>::encodev$')]
    if len(roots) != 2:
        raise AnchorLost('encodev roots')
    cg = F.callgraph_from(roots)
    bodies = {p: F.bodies[p] for p in cg}
    # may_write fixpoint
    direct_w = {p: [bi for bi, t in b.calls() if WRITE.search(callee_name(t) or '')] for p, b in bodies.items()}
    may_write = {p for p, w in direct_w.items() if w}
    changed = True
    calls = {p: [(bi, t, F.call_targets(t)) for bi, t in b.calls()] for p, b in bodies.items()}
    while changed:
        changed = False
        for p in bodies:
            if p in may_write:
                continue
            if any(q in may_write for bi, t, qs in calls[p] for q in qs):
                may_write.add(p)
                changed = True
    # may_fail: returns Result<_, EncodeError> and has an Err source
    def ret_is_result(b):
        return 'error::EncodeError' in b.local_ty(0) and b.local_ty(0).startswith('std::result::Result<')
    may_fail = set()
    changed = True
    while changed:
        changed = False
        for p, b in bodies.items():
            if p in may_fail or not ret_is_result(b):
                continue
            src = bool([1 for bi, j, s in agg_sites(b, r'^std::result::Result$', 'Err')]) or any(callee_name(t) == 'std::option::Option::<T>::ok_or' or (callee_name(t) or '').endswith('::from_residual') for bi, t in b.calls())
            src = src or any(q in may_fail for bi, t, qs in calls[p] for q in qs)
            if src:
                may_fail.add(p)
                changed = True
    # intrinsic failure sites of a function: explicit Err / ok_or / panic / `?` on an external fallible call
    def intrinsic_sites(p, b):
        out = []
        for bi, jj, st in agg_sites(b, r'^std::result::Result$', 'Err'):
            if err_variant(b, st) == '?' and st['rv']['fields']:
                # `Err(e) => Err(e)` of a crate-local callee's result (an expanded `a.and_then(|()| b)`, a hand-written
                # `match`): the failure is the callee's, it is examined there - this is propagation, like `?`
                og_ = Origin(b).of_operand(st['rv']['fields'][0])
                if any(l[0] == 'call' and (l[1] in bodies or any(q in bodies for q in F.call_targets(b.blocks[l[2]]['term']))) for l in og_ if l[0] == 'call' and isinstance(l[2], int)) and not any(l[0] in ('agg', 'const') for l in og_):
                    continue
            out.append((bi, 'Err(%s)' % err_variant(b, st)))
        for bi, t, qs in calls[p]:
            nm = callee_name(t) or ''
            if (nm.startswith('core::panicking') or nm.startswith('std::rt::begin_panic')) and 'debug_assert' not in t.get('mac', ''):
                out.append((bi, 'panic'))
            if nm == 'std::option::Option::<T>::ok_or':
                out.append((bi, 'Err(%s)' % '/'.join(sorted({l[1].split('::')[-1] for l in Origin(b).of_operand(t['args'][1]) if l[0] == 'agg'}))))
            if nm.endswith('::from_residual'):
                src = residual_sources(b, t)
                ext = [n for n in src if not (n in bodies or any(n == q for q in bodies)) and not n.endswith('::ok_or')]
                local_fail = [n for n in src if n in may_fail]
                if ext and not local_fail:
                    # named by the error it yields when the conversion of the foreign error is visible (`.map_err(|_| E::V)?`),
                    # so that `match f() { Err(_) => Err(E::V) }` and the `?` form are the same instance
                    vs = set()
                    og2 = Origin(b, transparent=re.compile(TRANSPARENT_CALLS.pattern[:-2] + r'|branch)$')).of_operand(t['args'][0])
                    for l in og2:
                        if l[0] == 'call' and re.search(r'::map_err$', l[1] or '') and isinstance(l[2], int):
                            mt = b.blocks[l[2]]['term']
                            for cl in F.descendants(b):
                                if len(mt.get('args', [])) > 1 and any(x[0] == 'agg' and x[1] == cl.path for x in Origin(b).of_operand(mt['args'][1]) if len(x) > 1) or (op_const(mt['args'][1]) or {}).get('def') == cl.path if len(mt.get('args', [])) > 1 else False:
                                    for bi2, j2, s2 in agg_sites(cl, r'Error$'):
                                        vs.add(s2['rv'].get('variant'))
                    if len(vs) == 1 and len(ext) == 1 and re.search(r'try_from$', ext[0]):
                        out.append((bi, 'Err(%s)' % vs.pop()))
                    else:
                        out.append((bi, '?%s' % '/'.join(x.split('::')[-1] for x in ext)))
        return out
    intrinsic = {p: intrinsic_sites(p, b) for p, b in bodies.items()}

    def prevalidated(p, what):
        """Every caller of p reports the same error kind up front: an Err(<same variant>) exit that is decided
        before the caller wrote anything and from whose deciding branch the call to p is still reachable."""
        m = re.match(r'^(?:Err|ok_or)\((.*)\)$', what)
        if not m or m.group(1) in ('?', ''):
            return None
        variant = m.group(1)
        callers = [(q, bi) for q in bodies for bi, t, qs in calls[q] if p in qs]
        if not callers:
            return None
        notes = []
        for q, cb in callers:
            b = bodies[q]
            wsites = set(direct_w[q]) | {bi for bi, t, qs in calls[q] if any(x in may_write for x in qs)}
            ok = False
            for eb, jj, st in agg_sites(b, r'^std::result::Result$', 'Err'):
                if err_variant(b, st) != variant:
                    continue
                sws = [d for d in b.dom.get(eb, ()) if d != eb and b.blocks[d]['term']['k'] == 'switch']
                if not sws:
                    continue
                sb = max(sws, key=lambda d: len(b.dom.get(d, ())))
                if cb not in b.reachable(sb) or cb in b.reachable(eb):
                    continue
                if any(w != sb and sb in b.reachable_after(w) for w in wsites):
                    continue
                ok = True
            if not ok:
                return None
            notes.append(q)
        return notes
    # V1: explicit error after a write in the same function
    n_fn = 0
    for p, b in sorted(bodies.items()):
        if not intrinsic[p]:
            continue
        n_fn += 1
        wsites = set(direct_w[p]) | {bi for bi, t, qs in calls[p] if any(q in may_write for q in qs)}
        seen = set()
        for fb, what in intrinsic[p]:
            key = '%s|%s' % (p, what)
            if key in seen:
                continue
            seen.add(key)
            before = [w for w in wsites if w != fb and fb in b.reachable_after(w)]
            if before:
                pv = prevalidated(p, what)
                if pv:
                    R.note('%s: %s after a write is unreachable in practice: every caller (%s) reports the same error before writing' % (p, what, ', '.join(pv)))
                    before = []
            R.ob('C08.validate-before-write', key + '|after-own-write', not before,
                 'this function appends bytes to the output buffer and can still fail afterwards (%s): a failed encode leaves a partial packet on the wire (IoRef::encode has no rollback)' % what, b.loc(fb))
    R.floor('C08.validate-before-write', 'functions with intrinsic failure exits', n_fn, 5)
    # V2: functions that are entered after the caller already wrote, and can fail
    dirty = {}
    changed = True
    while changed:
        changed = False
        for p, b in bodies.items():
            wsites = set(direct_w[p]) | {bi for bi, t, qs in calls[p] if any(q in may_write for q in qs)}
            for bi, t, qs in calls[p]:
                for q in qs:
                    if q not in bodies or q in dirty:
                        continue
                    if p in dirty or any(w != bi and bi in b.reachable_after(w) for w in wsites):
                        dirty[q] = p
                        changed = True
    def only_constant_arguments(p):
        """Every call of p passes a constant as the value to encode (e.g. the protocol name): a length
        conversion inside p cannot fail for it."""
        # resolved (monomorphic) call sites only: the expansion of `T::encode` to every impl is an over-approximation
        sites = [(q, bi, t) for q in bodies for bi, t, qs in calls[q] if callee_name(t) == p]
        if not sites:
            return False
        for q, bi, t in sites:
            og = Origin(bodies[q]).of_operand(t['args'][0])
            if not og or not all(l[0] in ('const', 'constx') or (l[0] == 'call' and re.search(r'::as_ref$', l[1] or '')) for l in og) or not any(l[0] in ('const', 'constx') for l in og):
                return False
        return True
    for p in sorted(bodies):
        if intrinsic[p]:
            whats = sorted({w for _, w in intrinsic[p]})
            lenconv = all(w.startswith('?try_from') or w == 'Err(InvalidLength)' for w in whats) and any(True for _ in bodies[p].calls_to(r'::try_from$'))
            if p in dirty and lenconv and only_constant_arguments(p):
                R.note('%s: its only failure is the length conversion and every call passes a constant byte string' % p)
                R.ob('C08.validate-before-write', '%s|%s|entered-after-write' % (p, '+'.join(whats)), True, '')
                continue
            R.ob('C08.validate-before-write', '%s|%s|entered-after-write' % (p, '+'.join(whats)), p not in dirty,
                 'this function can fail (%s) and is called after its caller (%s, ...) has already appended bytes (fixed header / earlier fields): the error leaves a partial packet on the wire' % (
                     ', '.join(whats), dirty.get(p)), '%s:%s' % (bodies[p].file, bodies[p].line))
    R.counts['C08.validate-before-write:may_write fns'] = len(may_write)
    R.counts['C08.validate-before-write:entered-after-write fns'] = len(dirty)


def residual_sources(b, t):
    og = Origin(b, transparent=re.compile(TRANSPARENT_CALLS.pattern[:-2] + r'|branch|map_err)$')).of_operand(t['args'][0])
    return sorted({l[1] for l in og if l[0] == 'call' and not re.search(r'::(branch|map_err|from_residual)$', l[1])})


def residual_source(b, t):
    """Name of the fallible call whose error a `?` propagates."""
    og = Origin(b, transparent=re.compile(TRANSPARENT_CALLS.pattern[:-2] + r'|branch|map_err)$')).of_operand(t['args'][0])
    names = sorted({l[1] for l in og if l[0] == 'call' and not re.search(r'::(branch|map_err|from_residual)$', l[1])})
    return '/'.join(n.split('::')[-2] + '::' + n.split('::')[-1] if '::' in n else n for n in names[:2]) or '?'


def short_fn(p):
    return p


def err_variant(b, s):
    og = Origin(b).of_operand(s['rv']['fields'][0]) if s['rv']['fields'] else set()
    vs = sorted({l[1].split('::')[-1] for l in og if l[0] == 'agg' and 'Error' in l[1]})
    return '/'.join(vs) or '?'


def stream_start(F, R):
    """A streamed PUBLISH header is written only when the stream handle is still alive, and that is decided
    at the write: wherever a sink function signals "go" to the StreamingPayload handle after writing the
    header, the write is confined to the `tx.is_canceled() == false` edge with no suspension point between
    the test and the write (a handle dropped while the sender was parked would otherwise leave a header whose
    payload never follows)."""
    n = 0
    for ver in ('v3', 'v5'):
        for b in F.find(r'^%s::sink::PublishBuilder::stream_\w+(::\{closure#0\})?$' % ver):
            gos = [(bi, t) for bi, t in b.calls_to(r'pool::Sender::<T>::send$|Sender::<T>::send$') if 'Sender<()>' in (b.local_ty(op_place(t['args'][0])['l']) if t['args'] and op_place(t['args'][0]) else '') or True]
            gos = [(bi, t) for bi, t in gos if '()' in (b.local_ty(op_place(t['args'][1])['l']) if len(t['args']) > 1 and op_place(t['args'][1]) else '()')]
            writes = [(bi, t) for bi, t in b.calls_to(r'^%s::shared::MqttShared::(wait_publish_response|wait_publish_response_no_block|encode_publish)$' % ver)]
            if not gos or not writes:
                continue
            n += 1
            name = re.sub(r'::\{closure#0\}$', '', b.path)
            tests = []
            for bi, t in b.calls_to(r'::is_canceled$'):
                r = call_bool_branch(b, bi)
                if r and r[0] != 'discr':
                    tests.append((bi, r[0], r[1], r[2]))
            for wb, wt in writes:
                ok = False
                why = 'no is_canceled() test of the stream handle guards the header write'
                for cb, sw, tt, ft in tests:
                    if edge_dominates(b, sw, ft, wb):
                        ys = [y for y in b.yields() if y in b.reachable(cb) and wb in b.reachable(y)]
                        if ys:
                            why = 'the handler can be suspended between the is_canceled() test and the header write'
                        else:
                            ok = True
                R.ob('C08.stream-accounting', '%s|header-written-only-while-the-stream-handle-is-alive' % name, ok, why, b.loc(wb))
    R.floor('C08.stream-accounting', 'streamed sends that signal the payload handle', n, 2)


def rollback_scope(F, R):
    """A send that is refused because another payload stream is open (check_streaming() failed) must leave that stream's
    state alone. The roll-back `streaming_remaining.set(None)` therefore belongs to errors of this send's own start only:
    it is not reachable from the refusal edge of check_streaming(), and a roll-back closure (`.inspect_err(|_| ..set(None))`)
    is not attached to a Result that can carry check_streaming()'s error."""
    n = 0
    for ver in ('v3', 'v5'):
        for b in F.find(r'^%s::shared::MqttShared::\w+$' % ver):
            cks = list(b.calls_to(r'%s::shared::MqttShared::check_streaming$' % ver))
            ens = list(b.calls_to(r'%s::shared::MqttShared::enable_streaming$' % ver))
            if not cks or not ens:
                continue
            def resets_in(body):
                out = []
                for bi, t in body.calls_to(r'Cell::<T>::(set|take|replace)$'):
                    ap = call_recv_path(body, t, 0)
                    if ap and ap[-1] == 'streaming_remaining':
                        out.append(bi)
                return out
            inline = resets_in(b)
            for cbi, ct in cks:
                n += 1
                # refusal edge: the Err side of the test applied to the result (match / `?`)
                err_starts = []
                r = discr_switch_after_call(b, cbi)
                if r:
                    err_starts.append(r[1].get(1, r[2]))
                for xb, xt in b.calls():
                    if re.search(r'Try>::branch$', callee_name(xt) or '') and xt['args'] and any(l[0] == 'call' and l[2] == cbi for l in Origin(b).of_operand(xt['args'][0])):
                        r2 = discr_switch_after_call(b, xb)
                        if r2:
                            err_starts.append(r2[1].get(1, r2[2]))
                ok_edges = [x for x in ([r[1].get(0, r[2])] if r else [])]
                bad_inline = [x for x in inline for e in err_starts if x in b.reachable(e, avoid=[bi_ for bi_, _ in ens])]
                R.ob('C08.stream-accounting', '%s|check_streaming-refused=>stream-state-untouched' % short_fn(b.path), not bad_inline,
                     'when check_streaming() refuses the send (a payload stream is open) the function still resets streaming_remaining: the open stream is forgotten and its remaining chunks are refused, or other packets are interleaved into it', b.loc(bad_inline[0]) if bad_inline else b.loc(cbi))
                # roll-back closures attached to a Result that can carry the refusal
                for c in F.children.get(b.path, []):
                    if not resets_in(c):
                        continue
                    for xb, xt in b.calls():
                        nm = callee_name(xt) or ''
                        if not re.search(r'::(inspect_err|map_err|or_else|unwrap_or_else)$', nm) or len(xt['args']) < 2:
                            continue
                        fo = Origin(b).of_operand(xt['args'][1])
                        if not any(l[0] == 'agg' and c.path in str(l[1]) for l in fo):
                            continue
                        ro = Origin(b, transparent=re.compile(TRANSPARENT_CALLS.pattern[:-2] + r'|and_then|map|map_err|inspect_err|inspect|or_else|branch|from_residual)$')).of_operand(xt['args'][0])
                        carries = any(l[0] == 'call' and l[2] == cbi for l in ro)
                        R.ob('C08.stream-accounting', '%s|roll-back-closure|attached-to-own-start-only' % short_fn(b.path), not carries,
                             'the roll-back of the stream state runs for errors of check_streaming() as well: a send refused because a stream is open wipes that stream\'s accounting', b.loc(xb))
    R.floor('C08.stream-accounting', 'check_streaming sites before a stream start', n, 2)


def one_codec(F, R):
    """The codec's "payload still owed" counter is what keeps other packets out of a streamed PUBLISH. It only works if the
    sink and the io dispatcher encode through the same codec object: every io::Dispatcher is built with the shared
    connection state (Rc<MqttShared>, whose Encoder delegates to the one codec), never with a clone of the codec."""
    n = 0
    for b in F.bodies.values():
        if not re.match(r'^(<)?v[35]::', b.path):
            continue
        for bi, t in b.calls_to(r'^io::Dispatcher::<P, C, U, E>::new$'):
            c = op_const(t['func']) or {}
            args = c.get('args') or []
            u = args[2] if len(args) > 2 else '?'
            aty = b.local_ty(op_place(t['args'][1])['l']) if len(t['args']) > 1 and op_place(t['args'][1]) else u
            n += 1
            ok = bool(re.search(r'^std::rc::Rc<v[35]::shared::MqttShared>$', u)) or bool(re.search(r'^std::rc::Rc<v[35]::shared::MqttShared>$', aty))
            R.ob('C08.codec-guard', '%s|io::Dispatcher::new|codec-is-the-shared-connection-state' % re.sub(r'(::\{closure#\d+\})+$', '', b.path), ok,
                 'the io dispatcher is given its own codec (%s): responses it writes are not checked against the payload a streamed PUBLISH of the sink still owes, so they land inside that payload' % (aty or u), b.loc(bi))
    R.floor('C08.codec-guard', 'io::Dispatcher::new sites in the protocol modules', n, 4)


def stream_accounting(F, R):
    stream_start(F, R)
    rollback_scope(F, R)
    one_codec(F, R)
    for ver in ('v3', 'v5'):
        b = F.one(r'^%s::shared::MqttShared::encode_publish_payload$' % ver)
        encs = [bi for bi, t in b.calls_to(IO_ENCODE)]
        fcs = [bi for bi, t in b.calls_to(r'^%s::shared::MqttShared::force_close$' % ver)]
        # over-length edge: Gt(len, remaining) true edge -> force_close, Err, no encode
        gts = []
        for sb in sorted(b.live):
            t = b.blocks[sb]['term']
            if t['k'] != 'switch':
                continue
            p = op_place(t['discr'])
            if not p:
                continue
            for (xb, xs, kind, x) in b.whole_defs(p['l']):
                if kind == 'assign' and x['rv']['k'] == 'bin' and x['rv']['op'] in ('Gt', 'Lt', 'Ge', 'Le'):
                    r = bool_branch(b, sb, p['l'])
                    if r:
                        gts.append((x['rv']['op'], r))
        ok = False
        for op, (sb, tt, ft) in gts:
            over = tt if op in ('Gt', 'Lt') else ft
            under = ft if op in ('Gt', 'Lt') else tt
            oreg = b.reachable(over, avoid=[under])
            if any(x in oreg for x in fcs) and not any(x in oreg for x in encs) and all(x in b.reachable(under, avoid=[over]) for x in encs):
                ok = True
        R.ob('C08.stream-accounting', '%s::shared::MqttShared::encode_publish_payload|over-delivery=>force_close,no-write' % ver, ok and bool(encs),
             'a chunk longer than the remaining declared size must abort the connection without being written')
        # counter decreased by the chunk length after the write
        sets = [(bi, t) for bi, t in b.calls_to(r'^std::cell::Cell::<T>::set$') if (call_recv_path(b, t, 0) or ('',))[-1] == 'streaming_remaining']
        ok2 = False
        for bi, t in sets:
            og = Origin(b, transparent=re.compile(TRANSPARENT_CALLS.pattern[:-2] + r'|new)$')).of_operand(t['args'][1])
            if any(l[0] == 'binop' and l[1] in ('Sub', 'SubWithOverflow') for l in og) and any(l[0] == 'call' and l[1].endswith('Bytes::len') for l in og) and any(e in b.dom.get(bi, ()) or bi in b.reachable_after(e) for e in encs):
                ok2 = True
        R.ob('C08.stream-accounting', '%s::shared::MqttShared::encode_publish_payload|remaining-=len' % ver, ok2, 'streaming_remaining must be decreased by the length of the chunk that was written')
        # Drop for StreamingPayload
        d = F.one(r'^<%s::sink::StreamingPayload as std::ops::Drop>::drop$' % ver)
        iss = [bi for bi, t in d.calls_to(r'^%s::shared::MqttShared::is_streaming$' % ver)]
        sd = [bi for bi, t in d.calls_to(r'^%s::shared::MqttShared::streaming_dropped$' % ver)]
        ok3 = False
        for bi in iss:
            r = call_bool_branch(d, bi)
            if r and r[0] != 'discr' and any(edge_dominates(d, r[0], r[1], x) for x in sd):
                # and once is_streaming() is true nothing else can skip the abort
                ok3 = not (set(d.returns()) & d.reachable(r[1], avoid=set(sd) | {r[2]}))
        R.ob('C08.stream-accounting', '%s::sink::StreamingPayload::drop|unfinished=>streaming_dropped' % ver, ok3, 'dropping an unfinished stream must abort the connection')
        sdb = F.one(r'^%s::shared::MqttShared::streaming_dropped$' % ver)
        R.ob('C08.stream-accounting', '%s::shared::MqttShared::streaming_dropped|force_close' % ver, bool(list(sdb.calls_to(r'MqttShared::force_close$'))), 'streaming_dropped must force-close')
        # codec PayloadChunk arm
        c = F.one(r'^<%s::codec::codec::Codec as ntex_codec::Encoder>::encodev$' % ver)
        ve = variant_edges(F, c, '%s::codec::Encoded' % ver)
        reg = arm_region(c, ve.get('PayloadChunk', []))
        errs = sorted({err_variant(c, s) for bi, j, s in agg_sites(c, r'^std::result::Result$', 'Err') if bi in reg})
        R.ob('C08.stream-accounting', '%s::codec::Codec::encodev|PayloadChunk|refusals' % ver, 'OverPublishSize' in errs and 'UnexpectedPayload' in errs, 'PayloadChunk arm error exits: %s' % errs)
        apps = [bi for bi, t in c.calls_to(r'^ntex_bytes::BytePages::append$') if bi in reg]
        # append only on the len <= remaining edge: i.e. not reachable from the OverPublishSize edge and dominated by a comparison
        ok5 = bool(apps)
        for bi in apps:
            ok5 = ok5 and any(edge_dominates(c, sb, (ft if op in ('Gt', 'Lt') else tt), bi) for op, (sb, tt, ft) in cmp_switches(c))
        R.ob('C08.stream-accounting', '%s::codec::Codec::encodev|PayloadChunk|append-only-within-remaining' % ver, ok5, 'the chunk is appended without the len <= remaining test')


OWED_WRITERS = ('encode_publish', 'encode_publish_payload', 'enable_streaming', 'wait_publish_response', 'wait_publish_response_no_block')


def owed_writers(F, R):
    """`streaming_remaining` (payload bytes still owed for the PUBLISH whose header is on the wire) is the only thing that keeps
    other packets out of a half-written payload. It is written by the functions that start a publish or write a chunk - and
    by nobody else: a reset anywhere else (a teardown helper that also runs with the io still open) lets the next packet land
    inside the payload."""
    n = 0
    for b in F.bodies.values():
        for bi, t in b.calls_to(r'^std::cell::Cell::<T>::(set|take|replace|swap)$'):
            if (call_recv_path(b, t, 0) or ('',))[-1] != 'streaming_remaining':
                continue
            n += 1
            topf = re.sub(r'(::\{(closure|inl)#\d+\})+$', '', b.path)
            m = re.match(r'^(v[35])::shared::MqttShared::(\w+)$', topf)
            R.ob('C08.stream-accounting', '%s|writes-payload-owed|only-the-publish-and-chunk-encoders' % topf, bool(m) and m.group(2) in OWED_WRITERS,
                 'the payload-owed counter is changed outside the functions that start a publish / write a chunk: while the io is still open the stream guard is switched off and the next packet is written into the middle of the streamed payload', b.loc(bi))
    R.floor('C08.stream-accounting', 'stores of the payload-owed counter', n, 10)


def stream_handle_flag(F, R):
    """StreamingPayload keeps `inprocess = true` while payload is owed; its Drop force-closes the connection then (a PUBLISH
    header without its payload is on the wire). Inside send() the flag is cleared only after the final chunk went through
    encode_publish_payload - never before a suspension point, where a cancelled send() would leave a handle that looks
    finished."""
    n = 0
    for ver in ('v3', 'v5'):
        b = F.body('%s::sink::StreamingPayload::send::{closure#0}' % ver)
        if b is None:
            raise AnchorLost('%s::sink::StreamingPayload::send' % ver)
        encs = {bi for bi, t in b.calls_to(r'^%s::shared::MqttShared::encode_publish_payload$' % ver)}
        for bi, t in b.calls_to(r'^std::cell::Cell::<T>::(set|replace)$'):
            if (call_recv_path(b, t, 0) or ('',))[-1] != 'inprocess' or const_of_local(b, t['args'][1]) != 0:
                continue
            n += 1
            R.ob('C08.stream-accounting', '%s::sink::StreamingPayload::send|inprocess-cleared-only-after-the-chunk-was-encoded' % ver,
                 bool(encs) and any(b.dominates(e, bi) for e in encs),
                 'the handle is marked finished before its chunk is written (across the wait for write back-pressure): a send() future dropped while parked leaves a StreamingPayload whose Drop no longer closes the connection although payload is owed', b.loc(bi))
    R.floor('C08.stream-accounting', 'places where a payload stream handle is marked finished', n, 2)


def cmp_switches(b):
    out = []
    for sb in sorted(b.live):
        t = b.blocks[sb]['term']
        if t['k'] != 'switch':
            continue
        p = op_place(t['discr'])
        if not p:
            continue
        for (xb, xs, kind, x) in b.whole_defs(p['l']):
            if kind == 'assign' and x['rv']['k'] == 'bin' and x['rv']['op'] in ('Gt', 'Lt', 'Ge', 'Le'):
                r = bool_branch(b, sb, p['l'])
                if r:
                    out.append((x['rv']['op'], r))
    return out


def no_error_after_wire_write(F, R):
    """shared.rs / sink.rs: once IoRef::encode succeeded the function must not report failure
    (the bytes are on the wire: 'a send that returns an error leaves no bytes behind')."""
    n = 0
    for b in sorted(F.bodies.values(), key=lambda x: x.path):
        if not re.match(r'^v[35]::(shared|sink)::', b.path):
            continue
        if not b.local_ty(0).startswith('std::result::Result<'):
            continue
        for bi, t in b.calls_to(IO_ENCODE):
            r = discr_switch_after_call(b, bi)
            if r:
                sb, tg, oth = r
                ok_t, err_t = tg.get(0, oth), tg.get(1, oth)
                reg = b.reachable(ok_t, avoid=[err_t] if err_t != ok_t else [])
            else:
                # result returned directly or via `?`: the Ok path is everything after the call
                tb = [x for x, tt in b.calls_to(r'ops::Try>::branch$') if x in b.reachable_after(bi) and op_place(tt['args'][0]) and op_place(tt['args'][0])['l'] == t['dest']['l']]
                if not tb:
                    continue
                r2 = discr_switch_after_call(b, tb[0])
                if not r2:
                    continue
                reg = b.reachable(r2[1].get(0, r2[2]), avoid=[r2[1].get(1, r2[2])])
            n += 1
            errs = [x for x, j, s_ in agg_sites(b, r'^std::result::Result$', 'Err') if x in reg and s_['lhs']['l'] in b.ret_locals]
            R.ob('C08.validate-before-write', '%s|IoRef::encode-Ok|no-later-error' % b.path, not errs,
                 'after the packet has been written to the wire the function can still return an error (%s): the caller sees a failed send although the bytes are out' % (
                     ', '.join(sorted({err_variant(b, s_) for x, j, s_ in agg_sites(b, r'^std::result::Result$', 'Err') if x in errs})) or 'Err'), b.loc(errs[0]) if errs else None)
    R.floor('C08.validate-before-write', 'shared/sink functions with a matched wire write', n, 6)


def owed_recorded_last(F, R):
    """The codec's "payload owed" counter (encoding_payload) is written only where the encode can no longer fail: from every
    store into it inside Encoder::encodev no error exit is reachable. A PUBLISH refused after the store (over the maximum
    packet size, a failing field encoder) appends nothing but leaves the encoder expecting payload: later chunks go on the
    wire without a header and every packet fails with ExpectPayload."""
    n = 0
    for ver in ('v3', 'v5'):
        b = F.one(r'^<%s::codec::codec::Codec as ntex_codec::Encoder>::encodev$' % ver)
        sets = [bi for bi, t, ap in calls_on_field(b, r'Cell::<T>::(set|replace)$', 'encoding_payload')]
        errs = {bi for bi, j, s in agg_sites(b, r'^std::result::Result$', 'Err') if s['lhs']['l'] in b.ret_locals and not place_proj(s['lhs'])}
        errs |= {bi for bi, t in b.calls_to(r'::from_residual$') if t['dest']['l'] == 0}
        for bi in sets:
            n += 1
            later = sorted(e for e in errs if e in b.reachable_after(bi))
            R.ob('C08.stream-accounting', '%s|Codec::encodev|payload-owed-stored-after-the-last-failure-point' % ver, not later,
                 'encoding_payload is stored on a path that can still end in an error: the refused packet writes nothing but the encoder keeps expecting its payload', b.loc(later[0]) if later else b.loc(bi))
    R.floor('C08.stream-accounting', 'stores of the payload-owed counter in the codecs', n, 2)


def run(F, R):
    owed_recorded_last(F, R)
    no_error_after_wire_write(F, R)
    cg_ok = codec_guard(F, R)
    writers(F, R, cg_ok)
    validate_before_write(F, R)
    stream_accounting(F, R)
    owed_writers(F, R)
    stream_handle_flag(F, R)
    R.assume('IoRef::encode calls Encoder::encodev of the codec passed to it and has no rollback (ntex-io)')
