"""C11 (structural part): pairing of insert/remove on the inbound in-flight id set in the four
dispatchers. reserve: the id is inserted before any handler/control invocation and the duplicate
edge reaches no handler and yields the version's refusal; release: every final acknowledgement
(PUBACK QoS1, SUBACK, UNSUBACK, PUBCOMP) is paired with a remove of the same id, a QoS 2 PUBREC is
not, and no remove precedes the completion of the handler future; pubrel-gate: PUBREL consults the
set and the unknown-id edge never reaches the control service. Decides code shape on all paths, not
histories. release (continued): publish_fn hands an un-routed PUBLISH to the control service with its packet id (control_pkt), never through the id-less control(). pubrel-gate (continued): the PUBREL arm builds a PUBCOMP itself only for an unknown id. release (continued): no release of the id is reachable - on a path consistent with the branch decisions - before a PUBREC is built, unless it is guarded by a numeric test of the reason code against 0x80.
"""
from facts import *
from disp import *

HANDLER = r'(publish_fn|Inner::<C>::control|Inner::<C>::control_pkt)'
REASON_IN_USE = {'PublishAckReason': 0x91, 'SubscribeAckReason': 0x91, 'UnsubscribeAckReason': 0x91}


def noid_edges(b):
    """Edges taken when an Option<NonZero<u16>> packet id is None."""
    out = []
    for sb, place, adt, ty, t in discr_switches(b, ty_pat=r'^std::option::Option<std::num::NonZero<u16>>$'):
        some = [tb for v, tb in t['targets'] if v == 1]
        for v, tb in t['targets']:
            if v == 0:
                out.append((sb, tb))
        if some and t['otherwise'] not in some:
            out.append((sb, t['otherwise']))
    return out


def reserve(F, R, d):
    b = d.call
    inserts = d.inflight_calls(b, 'insert')
    want = {'v3-server': 3, 'v3-client': 1, 'v5-server': 3, 'v5-client': 1}[d.name]
    R.floor('C11.reserve', '%s insert sites' % d.name, len(inserts), want)
    hs = [(bi, t) for bi, t in d.call_sites(b, HANDLER)]
    for arm in (['Publish'] + ['Packet:Subscribe', 'Packet:Unsubscribe'] if d.role == 'server' else ['Publish']):
        region = d.arm(arm)
        if not region:
            raise AnchorLost('%s: arm %s not found' % (d.name, arm))
        ins = [(bi, t, ap) for bi, t, ap in inserts if bi in region]
        calls = [(bi, t) for bi, t in hs if bi in region]
        R.ob('C11.reserve', '%s|%s|has-insert' % (d.name, arm), len(ins) >= 1, 'arm %s has no insert into the in-flight id set' % arm)
        R.ob('C11.reserve', '%s|%s|has-handler' % (d.name, arm), len(calls) >= 1, 'arm %s invokes no handler (anchor)' % arm)
        new_edges, dup_edges = [], []
        for bi, t, ap in ins:
            r = call_bool_branch(b, bi)
            if not r or r[0] == 'discr':
                R.ob('C11.reserve', '%s|%s|insert-result-tested' % (d.name, arm), False, 'the result of inflight.insert(id) is not branched on', b.loc(bi))
                continue
            sb, tt, ft = r
            new_edges.append((sb, tt))
            dup_edges.append((sb, ft, bi))
        noid = [(s, t_) for s, t_ in noid_edges(b) if s in region or True]
        for cbi, ct in calls:
            # every path from the arm entry to the handler passes the insert==true edge or a no-id edge
            succ = [list(s) for s in b.succ]
            for s, t_ in new_edges + (noid if arm == 'Publish' else []):
                succ[s] = [x for x in succ[s] if x != t_]
            ok = cbi not in b.reachable(0, succ=succ)
            R.ob('C11.reserve', '%s|%s|%s|after-insert' % (d.name, arm, callee_name(ct).split('::')[-1]), ok,
                 'the handler/control invocation is reachable without reserving the packet id first', b.loc(cbi))
        for sb, ft, ibi in dup_edges:
            dup_region = b.reachable(ft, avoid=[x for s_, x in new_edges if s_ == sb])
            bad = [cbi for cbi, ct in hs if cbi in dup_region]
            R.ob('C11.reserve', '%s|%s|duplicate-edge|no-handler' % (d.name, arm), not bad,
                 'a packet whose id is already in use reaches a handler', b.loc(bad[0]) if bad else b.loc(ibi))
            # refusal
            if d.ver == 'v3':
                sv = [s for bi, j, s in agg_sites(b, r'^error::SpecViolation$') if bi in dup_region and s['rv']['variant'].startswith('PacketId_2_2_1_3')]
                if not sv:
                    # the violation may be handed in as an argument of a (spliced) helper shared by the SUBSCRIBE and UNSUBSCRIBE
                    # arms: the value the refusal is built from is that aggregate, created outside the edge
                    og_ = Origin(b)
                    for bi, j, s in b.assigns():
                        if bi not in dup_region:
                            continue
                        ops_ = s['rv'].get('fields') or [s['rv'].get('op')]
                        for o_ in ops_:
                            if o_ is not None and op_place(o_) is not None and any(l[0] == 'agg' and l[1].startswith('error::SpecViolation::PacketId_2_2_1_3') for l in og_.of_operand(o_)):
                                sv.append(s)
                    for bi, t_ in b.calls():
                        if bi in dup_region:
                            for o_ in t_.get('args') or []:
                                if op_place(o_) is not None and any(l[0] == 'agg' and l[1].startswith('error::SpecViolation::PacketId_2_2_1_3') for l in og_.of_operand(o_)):
                                    sv.append(t_)
                R.ob('C11.reserve', '%s|%s|duplicate-edge|refusal' % (d.name, arm), bool(sv),
                     'the duplicate-id edge does not end in SpecViolation::PacketId_2_2_1_3_*', b.loc(ibi))
            else:
                rs = [s for bi, j, s in agg_sites(b, r'codec::packet::.*(PublishAckReason|SubscribeAckReason|UnsubscribeAckReason)$') if bi in dup_region or True]
                # the reason aggregates may live in closures (map(|_| Reason)) - look in children as well
                found = False
                for body in [b] + F.descendants(b):
                    for bi, j, s in agg_sites(body, r'(PublishAckReason|SubscribeAckReason|UnsubscribeAckReason)$', 'PacketIdentifierInUse'):
                        if body is not b or bi in dup_region:
                            found = True
                R.ob('C11.reserve', '%s|%s|duplicate-edge|refusal' % (d.name, arm), found,
                     'the duplicate-id edge does not answer with reason PacketIdentifierInUse', b.loc(ibi))
    if d.ver == 'v5':
        for adt in ('PublishAckReason', 'SubscribeAckReason', 'UnsubscribeAckReason'):
            p = [a for a in F.adts if a.endswith('::' + adt)]
            v = F.enum_variants(p[0]).get('PacketIdentifierInUse') if p else None
            R.ob('C11.reserve', '%s::PacketIdentifierInUse=0x91' % adt, v == 0x91, 'reason code value %s' % v)


def poll_ready_edges(b):
    return [(a['switch'], a['ready']) for a in await_points(b)]


def release(F, R, d):
    n_rm = 0
    # removes only after the handler future resolved, never in the `call` arms themselves
    rm_call = d.inflight_calls(d.call, 'remove')
    R.ob('C11.release', '%s|call|no-remove-in-arms' % d.name, not rm_call,
         'the dispatcher arm releases a packet id itself (before/without the handler result)', d.call.loc(rm_call[0][0]) if rm_call else None)
    helpers = [d.publish_fn, d.control] + ([d.control_pkt] if d.control_pkt and d.control_pkt is not d.control else [])
    for b in helpers:
        rms = d.inflight_calls(b, 'remove')
        edges = poll_ready_edges(b)
        for bi, t, ap in rms:
            n_rm += 1
            ok = any(edge_dominates(b, s, t_, bi) for s, t_ in edges)
            R.ob('C11.release', '%s|%s|remove|after-handler-completed' % (d.name, top(b)), ok,
                 'inflight.remove(id) can run before the handler/control future has completed', b.loc(bi))
            # ... and it is the last asynchronous step of the exchange: nothing is awaited after the release
            later = [a for a in await_points(b) if a['poll'] in b.reachable_after(bi)]
            R.ob('C11.release', '%s|%s|remove|nothing-awaited-after-the-release' % (d.name, top(b)), not later,
                 'after inflight.remove(id) the exchange still awaits another service (%s): the id is free for reuse while its acknowledgement does not exist yet' % (later[0]['callee'] if later else ''), b.loc(bi))
    R.floor('C11.release', '%s remove sites' % d.name, n_rm, {'v3-server': 2, 'v3-client': 1, 'v5-server': 1, 'v5-client': 1}[d.name])
    # final acks constructed locally are paired with a remove; QoS2 PUBREC is not
    for b in helpers:
        rms = {bi for bi, t, ap in d.inflight_calls(b, 'remove')}
        for var, final in (('PublishAck', True), ('SubscribeAck', True), ('UnsubscribeAck', True), ('PublishComplete', True), ('PublishReceived', False)):
            for bi, j, s in agg_sites(b, r'^%s$' % re.escape(d.packet), var):
                if final:
                    # the remove either precedes the construction of the ack on every path, or follows it on every path to a return
                    # (ack value built first and handed to the step that forgets the id)
                    ok = b.must_pass(rms, bi) or (bool(rms) and not (set(b.returns()) & b.reachable(bi, avoid=rms))) or (bool(rms) and b.must_pass_corr(rms, bi))
                    R.ob('C11.release', '%s|%s|%s|paired-remove' % (d.name, top(b), var), ok,
                         'a final acknowledgement (%s) is produced on a path that never removed the packet id from the in-flight set' % var, b.loc(bi))
                else:
                    ok = not any(bi in b.reachable_after(r) or r in b.reachable_after(bi) for r in rms if r != bi) or not b.must_pass(rms, bi) and not any(r in b.reachable_after(bi) for r in rms)
                    # precise: no remove dominates or follows the PUBREC construction
                    before = [r for r in rms if bi in b.reachable_after(r) and b.must_pass({r}, bi)]
                    after = [r for r in rms if r in b.reachable_after(bi)]
                    R.ob('C11.release', '%s|%s|PublishReceived|id-kept' % (d.name, top(b)), not before and not after,
                         'the packet id of a QoS 2 publish is released at PUBREC time (must stay reserved until PUBCOMP)', b.loc(bi))
                    # a release on *some* path to the PUBREC is acceptable only for a PUBREC that ends the exchange, i.e. under a
                    # numeric test "reason code >= 0x80"; any other condition (e.g. `!= Success`, which includes 0x10 No matching
                    # subscribers, after which PUBREL still follows) frees an id that the sender is still using
                    sometimes = [r for r in rms if r not in before and bi in b.reachable_after(r) and b.exists_path_corr(r, bi)]
                    unjust = []
                    for r in sometimes:
                        just = False
                        for sb_ in b.dom.get(r, ()):
                            tt_ = b.blocks[sb_]['term']
                            pl_ = op_place(tt_['discr']) if tt_['k'] == 'switch' else None
                            for dd in (b.whole_defs(pl_['l']) if pl_ and not place_proj(pl_) else []):
                                if dd[2] == 'assign' and dd[3]['rv']['k'] == 'bin' and dd[3]['rv']['op'] in ('Ge', 'Gt', 'Lt', 'Le') and (const_val(dd[3]['rv']['a']) in (0x80, 0x7f) or const_val(dd[3]['rv']['b']) in (0x80, 0x7f)):
                                    just = True
                        if not just:
                            unjust.append(r)
                    R.ob('C11.release', '%s|%s|PublishReceived|no-conditional-release-before-PUBREC' % (d.name, top(b)), not unjust,
                         'on some path the packet id of a QoS 2 publish is released before its PUBREC is built, under a condition that is not "reason code >= 0x80": the sender continues with PUBREL for an id the receiver has already forgotten (and may have accepted again)', b.loc(unjust[0]) if unjust else b.loc(bi))
    if d.ver == 'v5':
        # acks produced by the control service pass through control_pkt: id argument must be the request's id
        b = d.call
        for arm, must_id in (('Packet:Subscribe', True), ('Packet:Unsubscribe', True), ('Packet:PublishRelease', True), ('Packet:Auth', False), ('Packet:PingRequest', False), ('Packet:Disconnect', False)):
            region = d.arm(arm)
            if not region:
                if d.role == 'client' and arm in ('Packet:Subscribe', 'Packet:Unsubscribe', 'Packet:Auth', 'Packet:PingRequest'):
                    continue
                raise AnchorLost('%s: arm %s not found' % (d.name, arm))
            sites = [(bi, t) for bi, t in d.call_sites(b, r'Inner::<C>::control|Inner::<C>::control_pkt') if bi in region]
            if d.role == 'client' and not sites:
                continue
            for bi, t in sites:
                nm = callee_name(t).split('::')[-1]
                if not must_id:
                    continue
                if nm == 'control':
                    ok = False
                    why = 'the request carries a packet id but is forwarded with control() (= control_pkt(.., 0)): the id is never removed from the in-flight set when the acknowledgement is produced'
                else:
                    og = Origin(b).of_operand(t['args'][2])
                    ok = (any(l[0] == 'call' and re.search(r'NonZero.*::get$', l[1]) for l in og) or any(l[0] == 'arg' and l[2] and l[2][-1] == 'packet_id' for l in og)) and not any(l[0] == 'const' for l in og)
                    why = 'the packet id passed to control_pkt does not originate from the request (%s)' % sorted(map(str, og))[:4]
                R.ob('C11.release', '%s|%s|%s|id-forwarded' % (d.name, arm, nm), ok, why, b.loc(bi))
        # publish_fn (un-routed publish handed to the control service): forwarded with its packet id, not through the id-less control()
        pf = d.publish_fn
        for bi, t in d.call_sites(pf, r'Inner::<C>::control|Inner::<C>::control_pkt'):
            nm = callee_name(t).split('::')[-1]
            if nm == 'control':
                ok = False
                why = 'an un-routed PUBLISH is handed to the control service through control() (= control_pkt(.., no id)): when the control service acknowledges it the packet id stays in the in-flight set, and the peer\'s next use of that id is refused as in use'
            else:
                og = Origin(pf).of_operand(t['args'][2])
                ups = [str(i) for i, u in enumerate(pf.d.get('upvars') or []) if u.get('name') == 'packet_id']
                ok = any(l[0] == 'arg' and l[1] == 1 and l[2] and l[2][0] in ups for l in og) and not any(l[0] == 'const' for l in og)
                why = 'the id passed to control_pkt is not publish_fn\'s packet_id (%s)' % sorted(map(str, og))[:3]
            R.ob('C11.release', '%s|publish_fn|%s|id-forwarded' % (d.name, nm), ok, why, pf.loc(bi))
        # control_pkt: remove(arg id) on the Ok edge
        cp = d.control_pkt
        rms = d.inflight_calls(cp, 'remove')
        R.ob('C11.release', '%s|control_pkt|removes-id' % d.name, len(rms) >= 1, 'control_pkt never removes the id')
        for bi, t, ap in rms:
            og = Origin(cp).of_operand(t['args'][1])
            ok = any(l[0] == 'call' and 'NonZero' in l[1] and l[1].endswith('::new') for l in og) or any(l[0] == 'arg' and l[1] == cp.argc for l in og) or (cp.is_coroutine and any(l[0] == 'arg' and l[1] == 1 and l[2] and l[2][0] in [str(i) for i, u in enumerate(cp.d.get('upvars') or []) if u.get('name') == 'packet_id'] for l in og))
            R.ob('C11.release', '%s|control_pkt|remove|id-is-argument' % d.name, ok, 'remove() is not applied to the packet_id argument', cp.loc(bi))
        # control() forwards constant 0
        c = d.control
        for bi, t in d.call_sites(c, r'Inner::<C>::control_pkt'):
            v = const_val(t['args'][2])
            if v is None:
                og = Origin(c).of_operand(t['args'][2])
                if og and all(l[0] == 'agg' and l[1] == 'std::option::Option::None' for l in og):
                    v = 0  # `None` in the Option<NonZeroU16> representation of "no packet id"
            R.ob('C11.release', '%s|control|forwards-zero' % d.name, v == 0, 'control() is expected to be control_pkt(.., 0); found %s' % v, c.loc(bi))


def top(b):
    return re.sub(r'(::\{closure#\d+\})+$', '', b.path).split('::')[-1]


def pubrel_gate(F, R, d):
    b = d.call
    region = d.arm('Packet:PublishRelease')
    if not region:
        raise AnchorLost('%s: PublishRelease arm not found' % d.name)
    conts = [(bi, t, ap) for bi, t, ap in d.inflight_calls(b, 'contains') if bi in region]
    R.ob('C11.pubrel-gate', '%s|PublishRelease|consults-inflight' % d.name, len(conts) == 1, 'found %d contains() on the in-flight set in the PUBREL arm' % len(conts))
    hs = [(bi, t) for bi, t in d.call_sites(b, HANDLER) if bi in region]
    for bi, t, ap in conts:
        r = call_bool_branch(b, bi)
        if not r or r[0] == 'discr':
            R.ob('C11.pubrel-gate', '%s|PublishRelease|contains-tested' % d.name, False, 'result of contains() not branched on', b.loc(bi))
            continue
        sb, tt, ft = r
        unknown = b.reachable(ft, avoid=[tt]) & region
        known = b.reachable(tt, avoid=[ft]) & region
        bad = [c for c, _ in hs if c in unknown]
        R.ob('C11.pubrel-gate', '%s|PublishRelease|unknown-id|no-control' % d.name, not bad,
             'a PUBREL for an id that is not in flight reaches the control service', b.loc(bad[0]) if bad else None)
        R.ob('C11.pubrel-gate', '%s|PublishRelease|known-id|control' % d.name, any(c in known for c, _ in hs),
             'a PUBREL for a known id is not forwarded to the control service', b.loc(bi))
        # the arm itself completes the exchange (PUBCOMP) only for an unknown id; for a known one the completion comes from the
        # control path, which is the only place that releases the id
        own = [x for x, j, s_ in agg_sites(b, r'^%s$' % re.escape(d.packet), 'PublishComplete') if x in known]
        R.ob('C11.pubrel-gate', '%s|PublishRelease|known-id|completed-only-through-control' % d.name, not own,
             'the PUBREL arm builds the PUBCOMP for an id that is in flight by itself: the exchange is completed for the peer but the id is never released (a later PUBLISH with that id is refused as in use)', b.loc(own[0]) if own else b.loc(bi))
        # refusal shape
        if d.name == 'v3-server':
            ok = any(bi2 in unknown for bi2, t2 in b.calls_to(r'error::ProtocolError::unexpected_packet$'))
            what = 'Err(ProtocolError::unexpected_packet)'
        elif d.name == 'v3-client':
            ok = any(bi2 in unknown for bi2, t2 in b.calls_to(r'v3::shared::MqttShared::close$'))
            what = 'sink.close()'
        else:
            ok = any(bi2 in unknown for bi2, j, s in agg_sites(b, r'PublishAck2Reason$', 'PacketIdNotFound'))
            what = 'PUBCOMP with PacketIdNotFound'
        R.ob('C11.pubrel-gate', '%s|PublishRelease|unknown-id|refusal' % d.name, ok, 'the unknown-id edge does not produce %s' % what, b.loc(bi))
    if d.ver == 'v5':
        p = [a for a in F.adts if a.endswith('::PublishAck2Reason')]
        v = F.enum_variants(p[0]).get('PacketIdNotFound') if p else None
        R.ob('C11.pubrel-gate', 'PublishAck2Reason::PacketIdNotFound=0x92', v == 0x92, 'value %s' % v)


def run(F, R):
    for d in all_dispatchers(F):
        reserve(F, R, d)
        release(F, R, d)
        pubrel_gate(F, R, d)
    R.assume('the inbound in-flight id set is the HashSet reached through a field named `inflight` of Inner / PublishInfo (discovered by access path, 4 dispatchers)')
