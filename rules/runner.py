"""Runs one property module over the facts, applies known findings, writes evidence."""
import os, json, time, importlib, traceback, re
from facts import AnchorLost

VERIF = os.path.dirname(os.path.dirname(os.path.abspath(__file__)))
# VERIF_EVIDENCE_DIR: used by the seed matrix / refactoring trials (runs on scratch copies must not overwrite the evidence of /repo)
EVID = os.environ.get('VERIF_EVIDENCE_DIR') or os.path.join(VERIF, 'evidence')
_INL = re.compile(r'::\{inl#\d+\}')


class Report:
    """Collects rule instances ("obligations"). Keys never contain line numbers."""

    def __init__(self, prop, tier):
        self.prop = prop
        self.tier = tier
        self.items = []  # dict(rule,key,ok,msg,loc,status)
        self.notes = []
        self.assumptions = []
        self.counts = {}
        self.tables = {}

    def ob(self, rule, key, ok, msg='', loc=None, status=None):
        """Register one obligation. key = semantic anchor (def path + callee/field/variant/const)."""
        key = _INL.sub('', key)  # code spliced from a new helper keeps the key of the function it runs in
        self.items.append(dict(rule=rule, key='%s|%s' % (rule, key), ok=bool(ok), msg=msg, loc=loc, status=status or ('discharged' if ok else 'violated')))
        return bool(ok)

    def undecided(self, rule, key, msg='', loc=None):
        """An obligation whose deciding expression could not be interpreted on this tree (an idiom the extractor does
        not know) although its anchor function exists. Not an alarm: a rule must not fire on an edit that leaves the
        behaviour unchanged, and a rewrite into an unknown idiom is such an edit far more often than a defect. It is
        counted, printed and written into the evidence so that the gap is visible."""
        key = _INL.sub('', key)
        self.items.append(dict(rule=rule, key='%s|%s' % (rule, key), ok=True, msg='UNDECIDED (unsupported idiom): ' + msg, loc=loc, status='undecided'))
        self.counts['undecided obligations'] = self.counts.get('undecided obligations', 0) + 1
        return True

    def floor(self, rule, what, n, minimum):
        """Fail closed when fewer instances were found than counted by hand on the pinned tree."""
        self.counts['%s:%s' % (rule, what)] = n
        self.ob(rule, 'floor:%s' % what, n >= minimum, 'found %d instance(s) of %s, floor %d%s' % (n, what, minimum, '' if n >= minimum else ' -- anchor-lost: the rule would pass vacuously'))

    def note(self, s):
        self.notes.append(s)

    def assume(self, s):
        if s not in self.assumptions:
            self.assumptions.append(s)

    def table(self, name, t):
        self.tables[name] = t


def load_known():
    p = os.path.join(VERIF, 'known_findings.json')
    if not os.path.exists(p):
        return {}
    d = json.load(open(p))
    out = {}
    for e in d.get('findings', []):
        out.setdefault(e['property'], {})[e['key']] = e
    return out


def write_evidence(prop, tier, seed, rep, wall, violations, known_hit, extra_expl=''):
    os.makedirs(EVID, exist_ok=True)
    items = rep.items if rep else []
    keys = sorted({i['key'] for i in items})
    rules = sorted({i['rule'] for i in items})
    samples = []
    seen_rules = set()
    for i in items:
        if i['rule'] not in seen_rules or not i['ok']:
            seen_rules.add(i['rule'])
            samples.append({k: i[k] for k in ('rule', 'key', 'status', 'msg', 'loc') if i.get(k) is not None})
    samples = samples[:60]
    mod_doc = ''
    try:
        mod = importlib.import_module(prop.lower())
        mod_doc = (mod.__doc__ or '').strip()
    except Exception:
        pass
    ev = {
        'property_id': prop,
        'tier': tier,
        'seed': seed,
        'level': 'other',
        'coverage': {
            'explanation': (mod_doc + ' ' + extra_expl).strip() or 'static rules over MIR facts',
            'obligations': len(items),
            'discharged': sum(1 for i in items if i['ok'] and i.get('status') != 'undecided'),
            'undecided': sum(1 for i in items if i.get('status') == 'undecided'),
            'known_findings_observed': len(known_hit),
            'evaluations': max(len(items), 1),
            'distinct_nontrivial': max(len(keys), 0),
            'rule': 'one obligation per rule instance discovered in the MIR/type facts of the current tree (call site, match arm, assert, table row); distinct = distinct (rule, def path, semantic anchor) keys; all are non-trivial in the sense that each is a construct the rule had to inspect',
            'rules': rules,
            'instance_counts': rep.counts if rep else {},
            'samples': samples or [{'note': 'no instances'}],
            'tables': rep.tables if rep else {},
            'checker_cmd': './check %s --tier %s' % (prop, tier),
            'trusted_base': ['rustc nightly mir_promoted MIR (opt-level 0, overflow checks on)', 'rules/*.py', 'spec/*.json tables transcribed from the OASIS MQTT 3.1.1 / 5.0 texts', 'the summaries of dependency calls written into the rule modules (panic conditions of Buf/BytesMut reads in bufflow.py and panics.py, write/consume call name tables in c08.py/sizeflow.py/exhaust.py), read from the ntex-bytes / ntex-io / ntex-util / std sources pinned by Cargo.lock'],
            'exhaustive': True,
        },
        'assumptions': (rep.assumptions if rep else []) + ['dependency calls (ntex-bytes, ntex-io, ntex-util, std) behave as summarised in the rule modules', 'cfg(test) code is not analysed'],
        'wall_s': round(wall, 2),
        'violations': len(violations),
        'report': {
            'violations': violations,
            'known_findings': known_hit,
            'notes': rep.notes if rep else [],
            'all': [{k: i[k] for k in ('key', 'status', 'msg', 'loc') if i.get(k) is not None} for i in items],
        },
    }
    p = os.path.join(EVID, '%s.json' % prop)
    with open(p, 'w') as f:
        json.dump(ev, f, indent=1)
    return p


def fail_closed(prop, tier, seed, why, wall):
    rep = Report(prop, tier)
    rep.ob('framework', 'facts', False, why)
    v = [dict(key='framework|facts', msg=why)]
    return write_evidence(prop, tier, seed, rep, wall, v, [])


def run_property(prop, F, tier, seed, t0):
    rep = Report(prop, tier)
    try:
        mod = importlib.import_module(prop.lower())
        mod.run(F, rep)
        if tier == 'thorough':
            import selftest
            st = selftest.run_all(prop, rep, seed)
            rep.counts['selftest:mutants'] = len(st)
            rep.counts['selftest:fired'] = sum(1 for r in st if r['status'] == 'fired')
    except AnchorLost as e:
        rep.ob('anchor', 'lost:%s' % str(e)[:80], False, 'anchor-lost: %s' % e)
    except Exception as e:
        rep.ob('framework', 'exception', False, 'checker crashed (fail closed): %s\n%s' % (e, traceback.format_exc()[-1500:]))
    known = load_known().get(prop, {})
    violations = []
    known_hit = []
    seen = set()
    for i in rep.items:
        if i['ok']:
            continue
        if i['key'] in known:
            i['status'] = 'known-finding'
            if i['key'] not in seen:
                known_hit.append(dict(key=i['key'], msg=i['msg'], loc=i['loc'], what=known[i['key']].get('what', '')))
        else:
            if i['key'] not in seen:
                violations.append(dict(key=i['key'], msg=i['msg'], loc=i['loc']))
        seen.add(i['key'])
    gone = [k for k in known if k not in seen]
    for k in gone:
        rep.note('known finding no longer observed (informational): %s' % k)
    ev = write_evidence(prop, tier, seed, rep, time.time() - t0, violations, known_hit)
    n = len(rep.items)
    print('%s [%s] %d obligations over %d rules, %d discharged, %d known finding(s), %d violation(s)' % (
        prop, tier, n, len({i['rule'] for i in rep.items}), sum(1 for i in rep.items if i['ok']), len(known_hit), len(violations)))
    for k, c in sorted(rep.counts.items()):
        print('   instances %-40s %d' % (k, c))
    for k in known_hit:
        print('KNOWN-FINDING: property=%s %s %s' % (prop, k['key'], k['what'] or k['msg']))
    for k in gone:
        print('   note: listed finding not observed on this tree: %s' % k)
    for i in rep.items:
        if i.get('status') == 'undecided':
            print('   undecided %s\n      %s' % (i['key'], i['msg']))
    for v in violations:
        print('   violation %s\n      %s%s' % (v['key'], v['msg'], ('  @ ' + v['loc']) if v.get('loc') else ''))
    if violations:
        print('VIOLATION property=%s replay=%s' % (prop, ev))
        return 1
    return 0
