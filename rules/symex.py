"""A7: table extraction. Enumerates the finitely many CFG paths of a (mostly) acyclic body,
evaluating MIR statements over a small term language, and reports for every path the branch
conditions and the terms of interest (return value, calls made, fields written).

This is path enumeration with constant folding over the *facts*; the crate is never executed and
no solver is involved. Conditions over opaque terms are recorded, both branches are explored.
"""
from facts import *


def mk_ref(v):
    if v[0] == 'deref':
        return v[1]
    return ('ref', v)


def mk_deref(v):
    if v[0] == 'ref':
        return v[1]
    return ('deref', v)


def mk_field(v, name, idx=None):
    if v[0] == 'agg':
        f = v[3]
        if name in f:
            return f[name]
    if v[0] == 'tuple':
        try:
            return v[1][int(name)]
        except (ValueError, IndexError):
            pass
    if v[0] == 'closure':
        # captured variable of a closure / coroutine value built on this path (spliced closures read their captures this way)
        try:
            return v[2][int(name)]
        except (ValueError, IndexError):
            pass
    if v[0] == 'downcast' and v[1][0] == 'agg' and v[1][2] == v[2]:
        f = v[1][3]
        if name in f:
            return f[name]
    # `(branch(Ok(x)) as Continue).0` is x (the `?` applied to a value built on this path, e.g. by a spliced helper)
    if v[0] == 'downcast' and v[2] == 'Continue' and name == '0' and v[1][0] == 'call' and v[1][1].endswith('as std::ops::Try>::branch') and v[1][2]:
        a = v[1][2][0]
        if a[0] == 'agg' and a[1] in ('std::result::Result', 'std::option::Option') and a[2] in ('Ok', 'Some') and '0' in a[3]:
            return a[3]['0']
    return ('field', v, name)


def mk_downcast(v, variant):
    return ('downcast', v, variant)


def freeze(v):
    if isinstance(v, dict):
        return tuple(sorted((k, freeze(x)) for k, x in v.items()))
    if isinstance(v, (list, tuple)):
        return tuple(freeze(x) for x in v)
    return v


class Agg(tuple):
    pass


def term_str_v(v, depth=0):
    if depth > 6:
        return '..'
    k = v[0]
    if k == 'arg':
        return 'arg%d' % v[1]
    if k == 'const':
        return str(v[1])
    if k == 'constx':
        return 'const<%s>' % v[1]
    if k in ('ref', 'deref'):
        return ('&' if k == 'ref' else '*') + term_str_v(v[1], depth + 1)
    if k == 'field':
        return '%s.%s' % (term_str_v(v[1], depth + 1), v[2])
    if k == 'downcast':
        return '(%s as %s)' % (term_str_v(v[1], depth + 1), v[2])
    if k == 'discr':
        return 'discr(%s)' % term_str_v(v[1], depth + 1)
    if k == 'agg':
        return '%s::%s{%s}' % (v[1], v[2], ','.join('%s:%s' % (n, term_str_v(x, depth + 1)) for n, x in v[3].items()))
    if k == 'tuple':
        return '(%s)' % ','.join(term_str_v(x, depth + 1) for x in v[1])
    if k == 'call':
        return '%s(%s)#%s' % (v[1], ','.join(term_str_v(x, depth + 1) for x in v[2]), v[3])
    if k == 'bin':
        return '%s(%s,%s)' % (v[1], term_str_v(v[2], depth + 1), term_str_v(v[3], depth + 1))
    if k == 'un':
        return '%s(%s)' % (v[1], term_str_v(v[2], depth + 1))
    if k == 'cast':
        return '(%s as %s)' % (term_str_v(v[1], depth + 1), v[2])
    return str(v)


class Path:
    __slots__ = ('env', 'conds', 'calls', 'writes', 'blocks', 'ret', 'end', 'visits')

    def __init__(self):
        self.env = {}
        self.conds = []  # (term, ('eq', v) | ('ne', frozenset))
        self.calls = []  # (callee, [args], block)
        self.writes = []  # (place_term, value, block)
        self.blocks = []
        self.ret = None
        self.end = None
        self.visits = {}

    def clone(self):
        p = Path()
        p.env = dict(self.env)
        p.conds = list(self.conds)
        p.calls = list(self.calls)
        p.writes = list(self.writes)
        p.blocks = list(self.blocks)
        p.visits = dict(self.visits)
        return p


def fold_bin(op, a, b):
    if a[0] == 'const' and b[0] == 'const' and isinstance(a[1], int) and isinstance(b[1], int):
        x, y = a[1], b[1]
        try:
            r = {'Eq': int(x == y), 'Ne': int(x != y), 'Lt': int(x < y), 'Le': int(x <= y), 'Gt': int(x > y), 'Ge': int(x >= y),
                 'BitAnd': x & y, 'BitOr': x | y, 'BitXor': x ^ y, 'Add': x + y, 'Sub': x - y, 'Mul': x * y,
                 'Shl': x << y if 0 <= y < 128 else None, 'Shr': x >> y if 0 <= y < 128 else None}.get(op)
        except Exception:
            r = None
        if r is not None:
            return ('const', r, a[2] if op not in ('Eq', 'Ne', 'Lt', 'Le', 'Gt', 'Ge') else 'bool')
    return ('bin', op, a, b)


_PROM_CACHE = {}


class SymEx:
    def __init__(self, body, facts=None, max_paths=20000, loop_visits=1, call_model=None, stop_at=None, arg_values=None):
        self.b = body
        self.F = facts
        self.max_paths = max_paths
        self.loop_visits = loop_visits
        self.call_model = call_model  # fn(callee_name, args_terms, term, path) -> value or None
        self.stop_at = stop_at  # fn(block_index) -> bool : end the path here (kind 'stop')
        self.arg_values = arg_values or {}
        self.truncated = False
        self.dom = {}  # frozen discriminant term -> all discriminants of its type

    # --- places
    def read_place(self, path, p):
        l = p['l']
        v = path.env.get(l)
        if v is None:
            if 1 <= l <= self.b.argc:
                v = self.arg_values.get(l, ('arg', l))
            else:
                v = ('undef', l)
        for e in place_proj(p):
            if e == '*':
                v = mk_deref(v)
            elif isinstance(e, str):
                pass
            elif 'f' in e:
                v = mk_field(v, str(e['f']))
            elif 'd' in e:
                v = mk_downcast(v, e['d'])
            elif 'idx' in e:
                v = ('index', v, path.env.get(e['idx'], ('undef', e['idx'])))
            elif 'ci' in e:
                if v[0] == 'bytes' and not e.get('from_end') and isinstance(e['ci'], int) and e['ci'] < len(v[1]):
                    v = ('const', v[1][e['ci']], 'u8')   # element of a concrete byte string (see bytes_model)
                else:
                    v = ('index', v, ('const', e['ci'], 'usize'))
            else:
                v = ('proj', v, str(e))
        return v

    def write_place(self, path, p, val, bi):
        proj = place_proj(p)
        if not proj:
            path.env[p['l']] = val
            return
        # projected write: update aggregate if we can, and record the write
        base = path.env.get(p['l'])
        if base is None:
            base = self.arg_values.get(p['l'], ('arg', p['l'])) if 1 <= p['l'] <= self.b.argc else ('undef', p['l'])
        tgt = self.read_place(path, {'l': p['l'], 'p': proj[:-1]}) if len(proj) > 1 else base
        last = proj[-1]
        path.writes.append((self.read_place(path, {'l': p['l'], 'p': proj[:-1]}) if len(proj) > 1 else base, proj_str(last) if last != '*' else '*', val, bi))
        if len(proj) == 1 and isinstance(last, dict) and 'f' in last:
            if base[0] == 'agg':
                nf = dict(base[3])
                nf[str(last['f'])] = val
                path.env[p['l']] = ('agg', base[1], base[2], nf)
            elif base[0] == 'tuple':
                try:
                    items = list(base[1])
                    items[int(last['f'])] = val
                    path.env[p['l']] = ('tuple', tuple(items))
                except (ValueError, IndexError):
                    pass
            else:
                # unknown base: remember an overlay
                path.env[p['l']] = ('agg', '?', '?', {str(last['f']): val, '__base': base}) if base[0] != 'agg' else base

    def operand(self, path, op):
        c = op_const(op)
        if c is not None:
            if 'fn' in c:
                return ('fnconst', c['fn'], c.get('res'), tuple(c.get('args') or ()))
            if 'v' in c:
                return ('const', c['v'], c['ty'])
            if isinstance(c.get('promoted'), int) and not isinstance(c.get('promoted'), bool) and self.F is not None and c.get('def'):
                key = (c['def'], c['promoted'])
                # (cached per Facts object: the self-tests load several trees into one process, and a promoted constant is
                # exactly what a one-token mutation changes)
                cache = self.F.__dict__.setdefault('_prom_cache', {})
                if key not in cache:
                    cache[key] = None  # recursion guard
                    cache[key] = self.F.promoted_value(c['def'], c['promoted'])
                if cache[key] is not None:
                    return cache[key]
            return ('constx', c.get('def') or c.get('s'), c['ty'])
        p = op_place(op)
        if p is None:
            return ('unknown', 'operand')
        return self.read_place(path, p)

    def rvalue(self, path, rv, bi):
        k = rv['k']
        if k == 'use':
            return self.operand(path, rv['op'])
        if k == 'ref' or k == 'rawptr':
            return mk_ref(self.read_place(path, rv['place']))
        if k == 'cast':
            v = self.operand(path, rv['op'])
            if v[0] == 'const' and isinstance(v[1], int):
                ty = rv['ty']
                bits = {'u8': 8, 'u16': 16, 'u32': 32, 'u64': 64, 'usize': 64, 'i8': 8, 'i16': 16, 'i32': 32, 'i64': 64, 'isize': 64}.get(ty)
                if bits and ty.startswith('u'):
                    return ('const', v[1] & ((1 << bits) - 1), ty)
                return ('const', v[1], ty)
            if 'Pointer' in rv['ck'] or 'Unsize' in rv['ck'] or 'Transmute' in rv['ck'] and False:
                return v
            return ('cast', v, rv['ty'])
        if k == 'bin':
            a = self.operand(path, rv['a'])
            b = self.operand(path, rv['b'])
            op = rv['op']
            if op.endswith('WithOverflow'):
                r = fold_bin(op[:-len('WithOverflow')], a, b)
                return ('tuple', (r, ('ovf', op, a, b)))
            return fold_bin(op, a, b)
        if k == 'un':
            a = self.operand(path, rv['a'])
            if rv['op'] == 'Not' and a[0] == 'const' and a[2] == 'bool':
                return ('const', 1 - a[1], 'bool')
            if rv['op'] == 'PtrMetadata' and a[0] == 'ref' and a[1][0] == 'bytes':
                return ('const', len(a[1][1]), 'usize')
            return ('un', rv['op'], a)
        if k == 'discr':
            v = self.read_place(path, rv['place'])
            if v[0] == 'agg' and v[1] in ('std::option::Option', 'std::result::Result'):
                return ('const', {'None': 0, 'Some': 1, 'Ok': 0, 'Err': 1}[v[2]], 'isize')
            if v[0] == 'agg' and self.F and v[1] in self.F.adts:
                a = self.F.adts[v[1]]
                for i, var in enumerate(a['variants']):
                    if var['name'] == v[2]:
                        return ('const', var.get('discr', i), 'isize')
            dom = self.discr_domain(rv.get('adt'))
            if dom:
                self.dom[freeze(('discr', v))] = dom
            return ('discr', v)
        if k == 'agg':
            a = rv.get('agg')
            vals = [self.operand(path, f) for f in rv['fields']]
            if a == 'adt':
                names = rv['names']
                return ('agg', rv['adt'], rv['variant'], dict(zip(names, vals)))
            if a == 'tuple':
                return ('tuple', tuple(vals))
            if a in ('closure', 'coroutine', 'coroutine_closure'):
                return ('closure', rv['def'], tuple(vals))
            return ('array', tuple(vals))
        if k == 'repeat':
            return ('repeat', self.operand(path, rv['op']))
        return ('unknown', k)

    def cond_consistent(self, path, term, kind, val):
        """Check (term kind val) against conditions already on the path. Returns False if contradictory."""
        ft = freeze(term)
        excluded = set(val) if kind == 'ne' else set()
        for (t, c) in path.conds:
            if freeze(t) != ft:
                continue
            if c[0] == 'eq':
                if kind == 'eq' and c[1] != val:
                    return False
                if kind == 'ne' and c[1] in val:
                    return False
            else:
                if kind == 'eq' and val in c[1]:
                    return False
                excluded |= set(c[1])
        # a discriminant of a type whose variants are all known: excluding every one of them leaves no value
        dom = self.dom.get(ft)
        if dom and kind == 'ne' and dom <= excluded:
            return False
        return True

    def discr_domain(self, adt):
        if adt in ('std::option::Option', 'std::result::Result', 'std::task::Poll', 'std::ops::ControlFlow'):
            return frozenset({0, 1})
        if adt and self.F is not None and adt in self.F.adts and self.F.adts[adt]['kind'] == 'Enum':
            return frozenset(var.get('discr', i) for i, var in enumerate(self.F.adts[adt]['variants']))
        return None

    def run(self, start_block=0, init_env=None):
        out = []
        start = Path()
        if init_env:
            start.env.update(init_env)
        work = [(start_block, start)]
        while work:
            if len(out) + len(work) > self.max_paths:
                self.truncated = True
                break
            bi, path = work.pop()
            while True:
                n = path.visits.get(bi, 0)
                if n > self.loop_visits + path.env.get('__unroll', 0):
                    path.end = ('loop', bi)
                    out.append(path)
                    break
                path.visits[bi] = n + 1
                path.blocks.append(bi)
                if self.stop_at and self.stop_at(bi):
                    path.end = ('stop', bi)
                    out.append(path)
                    break
                blk = self.b.blocks[bi]
                for s in blk['stmts']:
                    if s['k'] == 'assign':
                        v = self.rvalue(path, s['rv'], bi)
                        self.write_place(path, s['lhs'], v, bi)
                    elif s['k'] == 'setdiscr':
                        path.writes.append((self.read_place(path, s['place']), 'discr', ('const', s['vi'], 'variant'), bi))
                t = blk['term']
                k = t['k']
                if k == 'goto':
                    bi = t['target']
                    continue
                if k == 'return':
                    path.ret = path.env.get(0, ('undef', 0))
                    path.end = ('return', bi)
                    out.append(path)
                    break
                if k in ('unreachable', 'resume', 'abort', 'coroutine_drop'):
                    path.end = (k, bi)
                    out.append(path)
                    break
                if k == 'drop':
                    bi = t['target']
                    continue
                if k == 'assert':
                    path.conds.append((('assert', t.get('msg')), ('eq', 1)))
                    bi = t['target']
                    continue
                if k == 'yield':
                    path.calls.append(('<yield>', [self.operand(path, t['value'])], bi))
                    self.write_place(path, t['resume_arg'], ('resume', bi), bi)
                    bi = t['resume']
                    continue
                if k == 'call':
                    d, r, c = callee_of(t)
                    nm = r or d or 'indirect'
                    args = [self.operand(path, a) for a in t['args']]
                    if c is None:
                        args = [self.operand(path, t['func'])] + args
                    val = array_iter_model(nm, args, bi, path)
                    if val is None and self.call_model:
                        val = self.call_model(nm, args, t, path)
                    if val is None:
                        val = default_call_model(nm, args, (bi, path.visits.get(bi, 1)) if path.visits.get(bi, 1) > 1 else bi, c)
                    path.calls.append((nm, args, bi))
                    self.write_place(path, t['dest'], val, bi)
                    if t.get('target') is None:
                        path.end = ('diverge', bi, nm)
                        out.append(path)
                        break
                    bi = t['target']
                    continue
                if k == 'switch':
                    v = self.operand(path, t['discr'])
                    if v[0] == 'const' and isinstance(v[1], int):
                        tgt = t['otherwise']
                        for val, b2 in t['targets']:
                            if val == v[1]:
                                tgt = b2
                        bi = tgt
                        continue
                    # a bool that is `discriminant(x) == k` (is_some()/is_ok() modelled by option_tests): record the
                    # condition on the discriminant itself so that it is related to later `match x` tests
                    if v[0] == 'bin' and v[1] in ('Eq', 'Ne') and v[2][0] == 'discr' and v[3][0] == 'const' and isinstance(v[3][1], int) and len(t['targets']) == 1 and t['targets'][0][0] == 0:
                        k_ = v[3][1]
                        false_t, true_t = t['targets'][0][1], t['otherwise']
                        if v[1] == 'Ne':
                            false_t, true_t = true_t, false_t
                        dt = v[2]
                        alts = []
                        if self.cond_consistent(path, dt, 'eq', k_):
                            alts.append((true_t, ('eq', k_)))
                        if self.cond_consistent(path, dt, 'ne', frozenset({k_})):
                            alts.append((false_t, ('ne', frozenset({k_}))))
                        if not alts:
                            path.end = ('infeasible', bi)
                            break
                        for b2, cnd in alts[1:]:
                            p2 = path.clone()
                            p2.conds.append((dt, cnd))
                            work.append((b2, p2))
                        path.conds.append((dt, alts[0][1]))
                        bi = alts[0][0]
                        continue
                    listed = frozenset(val for val, _ in t['targets'])
                    alts = []
                    for val, b2 in t['targets']:
                        if self.cond_consistent(path, v, 'eq', val):
                            alts.append((b2, ('eq', val)))
                    if self.cond_consistent(path, v, 'ne', listed) and self.otherwise_possible(v, listed, path):
                        alts.append((t['otherwise'], ('ne', listed)))
                    if not alts:
                        path.end = ('infeasible', bi)
                        break
                    for b2, cnd in alts[1:]:
                        p2 = path.clone()
                        p2.conds.append((v, cnd))
                        work.append((b2, p2))
                    path.conds.append((v, alts[0][1]))
                    bi = alts[0][0]
                    continue
                path.end = ('unknown-term', bi, k)
                out.append(path)
                break
        return out

    def otherwise_possible(self, v, listed, path):
        """Prune the otherwise edge when the switch lists every variant of an enum discriminant."""
        if v[0] == 'discr' and self.F is not None:
            ty = self.type_of_term(v[1])
            if ty and ty in self.F.adts and self.F.adts[ty]['kind'] == 'Enum':
                ds = {var.get('discr') for var in self.F.adts[ty]['variants']}
                if ds <= set(listed):
                    return False
            if ty and (ty.startswith('std::option::Option<') or ty.startswith('std::result::Result<')):
                if {0, 1} <= set(listed):
                    return False
        if v[0] == 'const':
            return False
        # bool-typed call results etc: {0} listed -> otherwise is "true": possible
        return True

    def type_of_term(self, v):
        """Best effort: ADT path of a term (args only)."""
        while v[0] in ('deref', 'ref'):
            v = v[1]
        if v[0] == 'arg':
            ty = self.b.local_ty(v[1])
            ty = ty.lstrip('&').replace('mut ', '').strip()
            while ty.startswith('&'):
                ty = ty[1:].replace('mut ', '').strip()
            return ty
        if v[0] == 'agg':
            return v[1]
        return None


def array_iter_model(nm, args, bi, path):
    """`for x in [c0, c1, ..]`: the by-value iterator of an array built in this body yields exactly its elements - the k-th
    `next()` on it is Some(element k), the one after the last is None (the loop is bounded by the array, like the counter of
    a hand-written loop)."""
    if re.search(r'IntoIterator for \[T; N\]>::into_iter$', nm) and args and args[0][0] == 'array':
        path.env['__unroll'] = max(path.env.get('__unroll', 0), len(args[0][1]))
        return ('arrayiter', args[0][1], bi)
    # `for i in a..b` with constant bounds: the same, element k is a + k
    if re.search(r'IntoIterator>::into_iter$', nm) and args and args[0][0] == 'agg' and args[0][1] == 'std::ops::Range' \
            and all(args[0][3].get(f_, ('?',))[0] == 'const' for f_ in ('start', 'end')):
        lo, hi = args[0][3]['start'][1], args[0][3]['end'][1]
        ty = args[0][3]['start'][2] if len(args[0][3]['start']) > 2 else 'u32'
        if isinstance(lo, int) and isinstance(hi, int) and 0 <= hi - lo <= 16:
            path.env['__unroll'] = max(path.env.get('__unroll', 0), hi - lo)
            return ('arrayiter', tuple(('const', x, ty) for x in range(lo, hi)), bi)
    if re.search(r'^<std::ops::Range<T> as std::iter::Iterator>::next$|^std::iter::range::<impl std::iter::Iterator for std::ops::Range<.*>>::next$', nm) and args:
        it = args[0]
        while it[0] in ('ref', 'deref'):
            it = it[1]
        if it[0] == 'arrayiter':
            k = sum(1 for nm2, a2, b2 in path.calls if nm2 == nm)
            if k < len(it[1]):
                return ('agg', 'std::option::Option', 'Some', {'0': it[1][k]})
            return ('agg', 'std::option::Option', 'None', {})
    if re.search(r'^<std::array::IntoIter<T, N> as std::iter::Iterator>::next$', nm) and args:
        it = args[0]
        while it[0] in ('ref', 'deref'):
            it = it[1]
        if it[0] == 'arrayiter':
            k = 0
            for nm2, a2, b2 in path.calls:
                if nm2 == nm and a2:
                    it2 = a2[0]
                    while it2[0] in ('ref', 'deref'):
                        it2 = it2[1]
                    if it2 == it:
                        k += 1
            if k < len(it[1]):
                return ('agg', 'std::option::Option', 'Some', {'0': it[1][k]})
            return ('agg', 'std::option::Option', 'None', {})
    return None


def default_call_model(nm, args, bi, c):
    # references through clone/deref/as_ref style calls keep identity where that is sound for tables
    base = nm.split('::')[-1]
    if base in ('deref', 'deref_mut', 'as_ref', 'as_mut', 'borrow') and len(args) == 1:
        return ('ref', ('deref', mk_deref(args[0]))) if False else ('call', nm, tuple(args), bi)
    return ('call', nm, tuple(args), bi)


def derived_eq(F, name):
    """`<T as PartialEq>::eq` generated by #[derive(PartialEq)] for a field-less enum of the crate: discriminant equality."""
    b = F.bodies.get(name)
    if b is None or not re.match(r'^<(\S+) as std::cmp::PartialEq>::eq$', name):
        return False
    adt = F.adts.get(b.d.get('impl_self') or '')
    if not adt or any(v['fields'] for v in adt['variants']):
        return False
    sts = [s for bi, j, s in b.stmts() if s['k'] == 'assign']
    return bool(sts) and all((s.get('mac') or '').split('>')[0] == 'PartialEq' for s in sts)


def derived_eq_model(F):
    """Call model: `a == b` / `a != b` on two known values of a field-less enum with a derived PartialEq is a constant."""
    def model(nm, args, t, path):
        if len(args) == 2 and re.search(r' as std::cmp::PartialEq>::(eq|ne)$', nm) and derived_eq(F, re.sub(r'::ne$', '::eq', nm)):
            vs = []
            for a in args:
                while isinstance(a, tuple) and a and a[0] in ('ref', 'deref'):
                    a = a[1]
                vs.append(a)
            if all(v[0] == 'agg' and not v[3] for v in vs) and vs[0][1] == vs[1][1]:
                return ('const', int((vs[0][2] == vs[1][2]) == nm.endswith('::eq')), 'bool')
        return None
    return model


def bytes_model(nm, args, t, path):
    """Call model for a concrete string: the term ('ref', ('bytes', b'..')) stands for a `&str` / `&[u8]` whose content is known
    (a sample text). The read-only string and slice methods used to classify a text are evaluated on it; anything else is
    left symbolic (the caller then sees a non-constant result and reports the form as not interpretable)."""
    def data(x):
        while isinstance(x, tuple) and x and x[0] in ('ref', 'deref') and not (x[0] == 'ref' and x[1][0] == 'bytes'):
            x = x[1]
        if isinstance(x, tuple) and x and x[0] == 'ref' and x[1][0] == 'bytes':
            return x[1][1]
        if isinstance(x, tuple) and x and x[0] == 'bytes':
            return x[1]
        return None
    def opt(v):
        return ('agg', 'std::option::Option', 'None', {}) if v is None else ('agg', 'std::option::Option', 'Some', {'0': v})
    def pattern(x):
        if x[0] == 'const' and isinstance(x[1], int):
            return chr(x[1]).encode()
        d_ = data(x)
        if d_ is not None:
            return d_
        if x[0] in ('ref', 'deref'):
            return pattern(x[1])
        if x[0] == 'const' and isinstance(x[1], str):
            return x[1].encode()
        return None
    base = nm.split('::')[-1]
    d = data(args[0]) if args else None
    if d is None and base == 'next' and len(args) == 1:
        it = args[0]
        while isinstance(it, tuple) and it and it[0] in ('ref', 'deref'):
            it = it[1]
        if isinstance(it, tuple) and it and it[0] == 'bytesiter' and not any(n2 == nm for n2, a2, b2 in path.calls):
            if it[2] == 'chars':
                txt = it[1].decode('utf-8', 'replace')
                return opt(('const', ord(txt[0]), 'char') if txt else None)
            return opt(('const', it[1][0], 'u8') if it[1] else None)
    if d is None:
        if base in ('eq', 'ne') and 'std::option::Option<T> as std::cmp::PartialEq' in nm and len(args) == 2:
            def strip(x):
                while isinstance(x, tuple) and x and x[0] in ('ref', 'deref'):
                    x = x[1]
                if isinstance(x, tuple) and x and x[0] == 'agg':
                    return ('agg', x[1], x[2], tuple(sorted((k, strip(v)) for k, v in x[3].items())))
                if isinstance(x, tuple) and x and x[0] == 'const':
                    return ('const', x[1])
                return x
            a, b_ = strip(args[0]), strip(args[1])
            if all(z[0] == 'agg' and all(v[0] == 'const' for k, v in z[3]) for z in (a, b_)):
                return ('const', int((a == b_) == (base == 'eq')), 'bool')
        return None
    if base in ('as_ref', 'borrow', 'deref', 'as_bytes', 'as_str', 'clone', 'into', 'from') and len(args) == 1:
        return ('ref', ('bytes', d))
    if base == 'len' and len(args) == 1:
        return ('const', len(d), 'usize')
    if base == 'is_empty' and len(args) == 1:
        return ('const', int(len(d) == 0), 'bool')
    if base in ('starts_with', 'ends_with', 'contains') and len(args) == 2 and ('impl str>' in nm or 'impl [T]>' in nm):
        pt = pattern(args[1])
        if pt is not None:
            return ('const', int(d.startswith(pt) if base == 'starts_with' else d.endswith(pt) if base == 'ends_with' else pt in d), 'bool')
    if base in ('strip_prefix',) and len(args) == 2 and 'impl str>' in nm:
        pt = pattern(args[1])
        if pt is not None:
            return opt(('ref', ('bytes', d[len(pt):])) if d.startswith(pt) else None)
    if base == 'first' and len(args) == 1 and 'impl [T]>' in nm:
        return opt(('ref', ('const', d[0], 'u8')) if d else None)
    if base == 'get' and len(args) == 2 and 'impl [T]>' in nm and args[1][0] == 'const' and isinstance(args[1][1], int):
        return opt(('ref', ('const', d[args[1][1]], 'u8')) if args[1][1] < len(d) else None)
    if base in ('chars', 'bytes', 'iter', 'into_iter', 'copied') and len(args) == 1:
        return ('ref', ('bytes', d)) if base in ('iter', 'into_iter') else ('bytesiter', d, base if base != 'copied' else 'bytes')
    return None


def cond_map(path):
    """Conditions of a path as {printed term: cond}."""
    return {term_str_v(t): c for t, c in path.conds}


def skip_logging(nm, args, t, path):
    """Call model: treat `log::…!` level checks as disabled so that logging branches do not
    multiply paths (logging has no effect on the facts the rules look at)."""
    mac = t.get('mac', '')
    if 'log::' in mac or '$crate::log' in mac or '__log' in mac:
        if nm.endswith('PartialOrd::le') or nm.endswith('::le') or nm.endswith('max_level'):
            return ('const', 0, 'bool')
    return None


def term_has(v, needle):
    """True if any string leaf of the term contains `needle` (full traversal, no depth cut)."""
    st = [v]
    while st:
        x = st.pop()
        if isinstance(x, str):
            if needle in x:
                return True
        elif isinstance(x, (tuple, list)):
            st.extend(x)
        elif isinstance(x, dict):
            st.extend(x.values())
            st.extend(x.keys())
    return False


def inline_pure(F, max_blocks=40, depth=2):
    """Call model: a call to a small crate-local function that has exactly one return path and no branch on its
    arguments (a constructor such as `Disconnect::new(code)`) is replaced by its symbolic return value."""
    def model(nm, args, t, path, _d=[0]):
        b = F.bodies.get(nm) if F is not None else None
        if b is None or b.is_coroutine or len(b.blocks) > max_blocks or _d[0] >= depth:
            return None
        _d[0] += 1
        try:
            ps = [p for p in SymEx(b, F, max_paths=64, call_model=model, arg_values={i + 1: a for i, a in enumerate(args)}).run() if p.end[0] == 'return']
        finally:
            _d[0] -= 1
        if len(ps) == 1 and not [c for c in ps[0].conds if c[0][0] != 'assert'] and ps[0].ret is not None:
            return ps[0].ret
        return None
    return model


def option_tests(nm, args, t, path):
    """Call model: Option::is_some / is_none and Result::is_ok / is_err as tests of the discriminant of the value
    (None = 0, Some = 1; Ok = 0, Err = 1), so that `x.is_some()` and a later `if let Some(..) = x` are one condition."""
    base = nm.split('::')[-1]
    if len(args) == 1 and base in ('is_some', 'is_none', 'is_ok', 'is_err'):
        v_ = mk_deref(args[0])
        if v_[0] == 'agg' and v_[1] in ('std::option::Option', 'std::result::Result') and v_[2] in ('Some', 'None', 'Ok', 'Err'):
            # the value was built on this path: the test has one answer
            return ('const', int(v_[2] == {'is_some': 'Some', 'is_none': 'None', 'is_ok': 'Ok', 'is_err': 'Err'}[base]), 'bool')
    if len(args) == 1 and base in ('is_some', 'is_none') and nm.startswith('std::option::Option'):
        return ('bin', 'Eq', ('discr', mk_deref(args[0])), ('const', 1 if base == 'is_some' else 0, 'isize'))
    if len(args) == 1 and base in ('is_ok', 'is_err') and nm.startswith('std::result::Result'):
        return ('bin', 'Eq', ('discr', mk_deref(args[0])), ('const', 0 if base == 'is_ok' else 1, 'isize'))
    return None


def chain_models(*models):
    def model(nm, args, t, path):
        for m in models:
            r = m(nm, args, t, path)
            if r is not None:
                return r
        return None
    return model
