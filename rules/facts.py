"""Core library over the mirfacts JSON: bodies, CFG, dominators, call graph, value origins.

Everything here is source-position free: identity is def paths, callee paths, field names,
variants and constants. Line numbers are carried only for printing.
"""
import json, re, sys
from collections import defaultdict, deque


# ----------------------------------------------------------------------------- helpers on operands
def op_place(op):
    if not isinstance(op, dict):
        return None
    return op.get('cp') or op.get('mv')


def op_const(op):
    return op.get('c') if isinstance(op, dict) else None


def const_val(op):
    c = op_const(op)
    if c is not None and 'v' in c:
        return c['v']
    return None


def place_local(p):
    return p['l']


def place_proj(p):
    return p.get('p', [])


def proj_str(e):
    if e == '*':
        return '*'
    if isinstance(e, str):
        return e
    if 'f' in e:
        return '.' + str(e['f'])
    if 'd' in e:
        return ' as ' + e['d']
    if 'idx' in e:
        return '[_%d]' % e['idx']
    if 'ci' in e:
        return '[%d]' % e['ci']
    if 'sub' in e:
        return '[%d..%d]' % tuple(e['sub'])
    return '?'


def place_str(p):
    s = '_%d' % p['l']
    for e in place_proj(p):
        if e == '*':
            s = '(*%s)' % s
        else:
            s += proj_str(e)
    return s


def place_fields(p):
    """List of field names (strings) along the projection, ignoring derefs/downcasts."""
    return [str(e['f']) for e in place_proj(p) if isinstance(e, dict) and 'f' in e]


def place_key(p):
    """Hashable normalised key of a place (derefs kept)."""
    out = [p['l']]
    for e in place_proj(p):
        if e == '*':
            out.append('*')
        elif isinstance(e, str):
            out.append(e)
        elif 'f' in e:
            out.append('.' + str(e['f']))
        elif 'd' in e:
            out.append('as ' + e['d'])
        elif 'idx' in e:
            out.append('[]')
        elif 'ci' in e:
            out.append('[%d]' % e['ci'])
        else:
            out.append('?')
    return tuple(out)


def op_str(op):
    if op is None:
        return 'None'
    if 'cp' in op:
        return place_str(op['cp'])
    if 'mv' in op:
        return 'move ' + place_str(op['mv'])
    if 'c' in op:
        c = op['c']
        if 'fn' in c:
            return 'fn:' + c['fn']
        if 'v' in c:
            return 'const %s_%s' % (c['v'], c['ty'])
        return 'const ' + c.get('s', '?')
    return str(op)


def rv_str(rv):
    k = rv['k']
    if k == 'use':
        return op_str(rv['op'])
    if k == 'ref':
        return ('&mut ' if rv['mut'] else '&') + place_str(rv['place'])
    if k == 'rawptr':
        return '&raw ' + place_str(rv['place'])
    if k == 'cast':
        return '%s as %s (%s)' % (op_str(rv['op']), rv['ty'], rv['ck'])
    if k == 'bin':
        return '%s(%s, %s)' % (rv['op'], op_str(rv['a']), op_str(rv['b']))
    if k == 'un':
        return '%s(%s)' % (rv['op'], op_str(rv['a']))
    if k == 'discr':
        return 'discriminant(%s)' % place_str(rv['place'])
    if k == 'agg':
        a = rv.get('agg')
        if a == 'adt':
            nm = '%s::%s' % (rv['adt'], rv['variant'])
            return '%s{%s}' % (nm, ', '.join('%s: %s' % (n, op_str(f)) for n, f in zip(rv['names'] + ['?'] * 99, rv['fields'])))
        if a in ('closure', 'coroutine', 'coroutine_closure'):
            return '%s[%s](%s)' % (a, rv['def'], ', '.join(op_str(f) for f in rv['fields']))
        return '%s(%s)' % (a, ', '.join(op_str(f) for f in rv['fields']))
    if k == 'repeat':
        return '[%s; _]' % op_str(rv['op'])
    return rv.get('s', k)


def callee_of(term):
    """(declared path, resolved path or None, const dict) of a call terminator."""
    c = op_const(term['func'])
    if c is None or 'fn' not in c:
        return (None, None, None)
    return (c['fn'], c.get('res'), c)


def callee_name(term):
    d, r, c = callee_of(term)
    return r or d


def term_succs(t, with_unwind=False):
    k = t['k']
    out = []
    if k == 'goto':
        out = [t['target']]
    elif k == 'switch':
        out = [b for _, b in t['targets']] + [t['otherwise']]
    elif k in ('call', 'drop', 'assert'):
        if t.get('target') is not None:
            out = [t['target']]
    elif k == 'yield':
        out = [t['resume']]
        if with_unwind and 'drop' in t:
            out.append(t['drop'])
    if with_unwind and 'unwind' in t:
        out.append(t['unwind'])
    # dedupe keep order
    seen = set()
    res = []
    for b in out:
        if b not in seen:
            seen.add(b)
            res.append(b)
    return res


def term_str(t):
    k = t['k']
    if k == 'call':
        d, r, c = callee_of(t)
        nm = r or d or op_str(t['func'])
        return '%s = %s(%s) -> %s' % (place_str(t['dest']), nm, ', '.join(op_str(a) for a in t['args']), t.get('target'))
    if k == 'switch':
        return 'switch(%s) -> [%s, otherwise: %s]' % (op_str(t['discr']), ', '.join('%s: bb%s' % (v, b) for v, b in t['targets']), t['otherwise'])
    if k == 'assert':
        extra = ''
        if t.get('msg') == 'Overflow':
            extra = ' %s(%s,%s)' % (t['op'], op_str(t['a']), op_str(t['b']))
        elif t.get('msg') == 'BoundsCheck':
            extra = ' idx=%s len=%s' % (op_str(t['index']), op_str(t['len']))
        return 'assert(%s == %s) [%s%s] -> %s' % (op_str(t['cond']), t['expected'], t.get('msg'), extra, t['target'])
    if k == 'yield':
        return 'yield(%s) -> resume bb%s' % (op_str(t['value']), t['resume'])
    if k == 'drop':
        return 'drop(%s) -> %s' % (place_str(t['place']), t['target'])
    if k == 'goto':
        return 'goto -> %s' % t['target']
    return k


class Body:
    def __init__(self, d, facts):
        self.d = d
        self.facts = facts
        self.path = d['path']
        self.blocks = d['blocks']
        self.locals = d['locals']
        self.argc = d['argc']
        self.file = d['file']
        self.line = d['ln']
        self.kind = d['kind']
        self.is_coroutine = d['coroutine']
        self._succ = None
        self._pred = None
        self._ret_locals = None
        self._dom = None
        self._reach = None
        self._defs = None

    def __repr__(self):
        return '<Body %s>' % self.path

    def reset_cfg(self):
        """Forget everything derived from the block list (after a terminator was rewritten)."""
        self._succ = self._pred = self._ret_locals = self._dom = self._reach = self._defs = None
        for k in [k for k in self.__dict__ if k.startswith('_') and k not in ('_succ', '_pred', '_ret_locals', '_dom', '_reach', '_defs')]:
            del self.__dict__[k]

    # ---- CFG (normal edges only; cleanup blocks are excluded)
    @property
    def succ(self):
        if self._succ is None:
            self._succ = [term_succs(b['term']) for b in self.blocks]
        return self._succ

    @property
    def pred(self):
        if self._pred is None:
            p = [[] for _ in self.blocks]
            live = self.live  # blocks cut off by splicing / threading (and rustc's own dead blocks) are nobody's predecessor
            for i, ss in enumerate(self.succ):
                if i not in live:
                    continue
                for s in ss:
                    p[s].append(i)
            self._pred = p
        return self._pred

    def reachable(self, start=0, avoid=(), succ=None):
        """Set of blocks reachable from `start` (int or iterable) without entering `avoid`."""
        succ = succ or self.succ
        avoid = set(avoid)
        starts = [start] if isinstance(start, int) else list(start)
        seen = set()
        st = [s for s in starts if s not in avoid]
        while st:
            b = st.pop()
            if b in seen:
                continue
            seen.add(b)
            for s in succ[b]:
                if s not in seen and s not in avoid:
                    st.append(s)
        return seen

    def reachable_after(self, start, avoid=()):
        """Blocks reachable from the successors of `start` (start itself only if on a cycle)."""
        return self.reachable(self.succ[start], avoid)

    @property
    def live(self):
        if self._reach is None:
            self._reach = self.reachable(0)
        return self._reach

    @property
    def dom(self):
        """Immediate-dominator based dominator sets: dom[b] = set of blocks dominating b (incl. b)."""
        if self._dom is None:
            live = self.live
            order = self.rpo()
            idx = {b: i for i, b in enumerate(order)}
            idom = {order[0]: order[0]}
            changed = True
            while changed:
                changed = False
                for b in order[1:]:
                    ps = [p for p in self.pred[b] if p in idom and p in live]
                    if not ps:
                        continue
                    new = ps[0]
                    for p in ps[1:]:
                        a, c = p, new
                        while a != c:
                            while idx[a] > idx[c]:
                                a = idom[a]
                            while idx[c] > idx[a]:
                                c = idom[c]
                        new = a
                    if idom.get(b) != new:
                        idom[b] = new
                        changed = True
            self._idom = idom
            dom = {}
            for b in order:
                s = {b}
                x = b
                while idom.get(x, x) != x:
                    x = idom[x]
                    s.add(x)
                dom[b] = s
            self._dom = dom
        return self._dom

    def rpo(self):
        seen = set()
        post = []
        stack = [(0, iter(self.succ[0]))]
        seen.add(0)
        while stack:
            b, it = stack[-1]
            adv = False
            for s in it:
                if s not in seen:
                    seen.add(s)
                    stack.append((s, iter(self.succ[s])))
                    adv = True
                    break
            if not adv:
                post.append(b)
                stack.pop()
        return post[::-1]

    def dominates(self, a, b):
        return b in self.dom and a in self.dom[b]

    def must_pass(self, through, target, start=0):
        """True if every path start->target passes a block in `through` (target not in through)."""
        through = set(through)
        if target in through:
            return True
        return target not in self.reachable(start, avoid=through)

    @property
    def ret_locals(self):
        """Locals whose whole value is (on some path) the function's result: `_0`, and what is moved into it - directly, or
        through the Poll::Ready wrapper of a spliced `helper().await` (`D = Poll::Ready(x)`; `y = (D as Ready).0`; `_0 = y`).
        A rule that asks "where is Ok(..) / Err(..) returned" looks at aggregates assigned to any of them."""
        if getattr(self, '_ret_locals', None) is None:
            ret = {0}
            changed = True
            while changed:
                changed = False
                for bi, j, s in self.assigns():
                    if place_proj(s['lhs']) or s['lhs']['l'] not in ret:
                        continue
                    rv = s['rv']
                    src = None
                    if rv['k'] == 'use':
                        q = op_place(rv['op'])
                        if q is not None:
                            pj = [e for e in place_proj(q)]
                            if not pj:
                                src = q['l']
                            elif len(pj) == 2 and isinstance(pj[0], dict) and pj[0].get('d') == 'Ready' and isinstance(pj[1], dict) and str(pj[1].get('f')) == '0':
                                src = q['l']
                    elif rv['k'] == 'agg' and rv.get('adt') == 'std::task::Poll' and rv.get('variant') == 'Ready' and rv.get('fields'):
                        q = op_place(rv['fields'][0])
                        if q is not None and not place_proj(q):
                            src = q['l']
                    if src is not None and src not in ret and src > self.argc:
                        ret.add(src)
                        changed = True
            self._ret_locals = ret
        return self._ret_locals

    def _switch_root(self, bi):
        """For a switch on a plain local: the single-definition local the tested value is a copy of (or None)."""
        t = self.blocks[bi]['term']
        if t['k'] != 'switch':
            return None
        p = op_place(t['discr'])
        l = p['l'] if p and not place_proj(p) else None
        for _ in range(6):
            if l is None:
                return None
            ds = [d for d in self.whole_defs(l) if d[0] in self.live]
            if 1 <= l <= self.argc and not ds:
                return l
            if len(ds) != 1:
                return None
            d = ds[0]
            if d[2] == 'assign' and d[3]['rv']['k'] == 'use' and op_place(d[3]['rv']['op']) is not None and not place_proj(op_place(d[3]['rv']['op'])):
                l = op_place(d[3]['rv']['op'])['l']
                continue
            if d[0] in self.reachable_after(d[0]):
                return None     # defined in a loop: not one value
            return l
        return None

    def must_pass_corr(self, through, target, start=0):
        """must_pass with correlated branches: two switches on (copies of) the same once-assigned local take the same side
        on any real path (`if !qos2 { release }` ... `if qos2 { A } else { B }`). Explores (block, known outcomes)."""
        through = set(through)
        if target in through:
            return True
        roots = {}
        seen = set()
        st = [(start, frozenset())]
        steps = 0
        while st:
            bi, known = st.pop()
            if (bi, known) in seen or bi in through or bi not in self.live:
                continue
            seen.add((bi, known))
            steps += 1
            if steps > 20000:
                return self.must_pass(through, target, start)
            if bi == target:
                return False
            t = self.blocks[bi]['term']
            if t['k'] == 'switch':
                if bi not in roots:
                    roots[bi] = self._switch_root(bi)
                r = roots[bi]
                if r is not None:
                    kd = dict(known)
                    vals = [v for v, _ in t['targets']]
                    if r in kd:
                        v = kd[r]
                        tg = dict((a, b_) for a, b_ in t['targets'])
                        st.append((tg.get(v, t['otherwise']), known))
                        continue
                    for v, b2 in t['targets']:
                        st.append((b2, frozenset(list(known) + [(r, v)])))
                    if self.local_ty(r) == 'bool' and len(vals) == 1 and vals[0] in (0, 1):
                        st.append((t['otherwise'], frozenset(list(known) + [(r, 1 - vals[0])])))
                    elif len(vals) >= 2 and self.blocks[t['otherwise']]['term']['k'] == 'unreachable':
                        pass
                    else:
                        # value outside the listed ones: not comparable with a later switch, forget it
                        st.append((t['otherwise'], known))
                    continue
            for n in self.succ[bi]:
                st.append((n, known))
        return True

    def exists_path_corr(self, via, target, start=0):
        """Is there a path start -> via -> target on which switches over (copies of) the same once-assigned local agree?"""
        roots = {}
        seen = set()
        st = [(start, frozenset(), start == via)]
        steps = 0
        while st:
            bi, known, hit = st.pop()
            if (bi, known, hit) in seen or bi not in self.live:
                continue
            seen.add((bi, known, hit))
            steps += 1
            if steps > 40000:
                return True
            hit = hit or bi == via
            if bi == target and hit:
                return True
            t = self.blocks[bi]['term']
            if t['k'] == 'switch':
                if bi not in roots:
                    roots[bi] = self._switch_root(bi)
                r = roots[bi]
                if r is not None:
                    kd = dict(known)
                    vals = [v for v, _ in t['targets']]
                    if r in kd:
                        tg = dict((a, b_) for a, b_ in t['targets'])
                        st.append((tg.get(kd[r], t['otherwise']), known, hit))
                        continue
                    for v, b2 in t['targets']:
                        st.append((b2, frozenset(list(known) + [(r, v)]), hit))
                    if self.local_ty(r) == 'bool' and len(vals) == 1 and vals[0] in (0, 1):
                        st.append((t['otherwise'], frozenset(list(known) + [(r, 1 - vals[0])]), hit))
                    elif len(vals) >= 2 and self.blocks[t['otherwise']]['term']['k'] == 'unreachable':
                        pass
                    else:
                        st.append((t['otherwise'], known, hit))
                    continue
            for n in self.succ[bi]:
                st.append((n, known, hit))
        return False

    # ---- iteration
    def calls(self, live_only=True):
        for i, b in enumerate(self.blocks):
            if live_only and i not in self.live:
                continue
            t = b['term']
            if t['k'] == 'call':
                yield i, t

    def calls_to(self, pat, live_only=True):
        """Calls whose declared or resolved callee path matches regex `pat` (search)."""
        rx = re.compile(pat) if isinstance(pat, str) else pat
        for i, t in self.calls(live_only):
            d, r, c = callee_of(t)
            if (d and rx.search(d)) or (r and rx.search(r)):
                yield i, t

    def stmts(self, live_only=True):
        for i, b in enumerate(self.blocks):
            if live_only and i not in self.live:
                continue
            for j, s in enumerate(b['stmts']):
                yield i, j, s

    def assigns(self, live_only=True):
        for i, j, s in self.stmts(live_only):
            if s['k'] == 'assign':
                yield i, j, s

    def returns(self):
        return [i for i in self.live if self.blocks[i]['term']['k'] == 'return']

    def yields(self):
        return [i for i in self.live if self.blocks[i]['term']['k'] == 'yield']

    def local_ty(self, l):
        return self.locals[l]['ty']

    def local_name(self, l):
        return self.locals[l].get('name')

    # ---- definitions of locals (whole-local assignments incl. call destinations)
    @property
    def defs(self):
        """local -> list of (block, stmt_index or 'term', kind, payload). Includes partial defs."""
        if self._defs is None:
            d = defaultdict(list)
            for i, b in enumerate(self.blocks):
                for j, s in enumerate(b['stmts']):
                    if s['k'] == 'assign':
                        d[s['lhs']['l']].append((i, j, 'assign', s))
                    elif s['k'] == 'setdiscr':
                        d[s['place']['l']].append((i, j, 'setdiscr', s))
                t = b['term']
                if t['k'] == 'call':
                    d[t['dest']['l']].append((i, 'term', 'call', t))
                elif t['k'] == 'yield':
                    d[t['resume_arg']['l']].append((i, 'term', 'yield', t))
            self._defs = d
        return self._defs

    def whole_defs(self, l):
        return [x for x in self.defs.get(l, []) if (x[2] in ('assign',) and not place_proj(x[3]['lhs'])) or (x[2] == 'call' and not place_proj(x[3]['dest'])) or (x[2] == 'yield')]

    def loc(self, bi, si=None):
        b = self.blocks[bi]
        if si is not None and si != 'term' and si < len(b['stmts']):
            s = b['stmts'][si]
            if 'ln' in s:
                return '%s:%s' % (s['file'], s['ln'])
        t = b['term']
        if 'ln' in t:
            return '%s:%s' % (t['file'], t['ln'])
        for s in b['stmts']:
            if 'ln' in s:
                return '%s:%s' % (s['file'], s['ln'])
        return '%s:%s' % (self.file, self.line)

    def dump(self, out=sys.stdout):
        out.write('fn %s  [%s:%s] kind=%s coroutine=%s argc=%d\n' % (self.path, self.file, self.line, self.kind, self.is_coroutine, self.argc))
        for i, l in enumerate(self.locals):
            out.write('  let _%d: %s%s\n' % (i, l['ty'], ('  // ' + l['name']) if 'name' in l else ''))
        for u in self.d.get('upvars', []):
            out.write('  upvar %s = %s\n' % (u['name'], place_str(u['place'])))
        for i, b in enumerate(self.blocks):
            if b['cleanup']:
                continue
            out.write(' bb%d:%s\n' % (i, '' if i in self.live else ' (dead)'))
            for s in b['stmts']:
                if s['k'] == 'assign':
                    out.write('    %s = %s;   // %s%s\n' % (place_str(s['lhs']), rv_str(s['rv']), s.get('ln'), (' mac=' + s['mac']) if 'mac' in s else ''))
                elif s['k'] == 'setdiscr':
                    out.write('    discriminant(%s) = %s\n' % (place_str(s['place']), s['vi']))
            t = b['term']
            out.write('    %s   // %s%s\n' % (term_str(t), t.get('ln', ''), (' mac=' + t['mac']) if 'mac' in t else ''))


class Facts:
    def __init__(self, path):
        with open(path) as f:
            self.raw = json.load(f)
        # helpers that do not exist on the pinned tree are spliced into their callers (rules/inline.py)
        import inline
        self.inline_report = inline.apply(self.raw)
        self.bodies = {}
        self.dups = defaultdict(list)
        self.promoted = {}
        for d in self.raw['bodies']:
            b = Body(d, self)
            if d['kind'] == 'Promoted':
                self.promoted[d['path']] = b
                continue
            if d['path'] in self.bodies:
                self.dups[d['path']].append(b)
            else:
                self.bodies[d['path']] = b
        for b in self.bodies.values():
            if any(blk.get('inl') for blk in b.blocks):
                n_ = fold_constant_switches(b) + fold_correlated_switches(b)
                if n_ and isinstance(self.inline_report, dict):
                    self.inline_report['folded_switches'] = self.inline_report.get('folded_switches', 0) + n_
        self.adts = {a['path']: a for a in self.raw['adts']}
        self.consts = {c['path']: c for c in self.raw['consts']}
        self.impls = self.raw['impls']
        self.statics = self.raw['statics']
        self.fns = {f['path']: f for f in self.raw['fns']}
        self._children = None
        self._callers = None
        self._trait_impls = None

    def body(self, path):
        return self.bodies.get(path)

    def promoted_value(self, owner_path, idx):
        """Value term of a promoted constant (as produced by symex), e.g. ('ref', ('agg', ...))."""
        b = self.promoted.get('%s::promoted[%d]' % (owner_path, idx))
        if b is None:
            return None
        from symex import SymEx
        ps = [p for p in SymEx(b, self).run() if p.end[0] == 'return']
        if len(ps) == 1:
            return ps[0].ret
        return None

    def find(self, pat):
        """Bodies whose def path matches. A closure that came with a spliced helper lives under
        `<caller>::{inl#k}::{closure#n}`; it also answers to the name it would have had if it had been written in
        the caller (`<caller>::{closure#n}`)."""
        rx = re.compile(pat)
        return [b for p, b in self.bodies.items() if rx.search(p) or ('::{inl#' in p and rx.search(_INL_SEG.sub('', p)))]

    def one(self, pat):
        r = self.find(pat)
        if len(r) > 1:
            own = [b for b in r if '::{inl#' not in b.path]
            if len(own) == 1:
                r = own
        if len(r) != 1:
            raise AnchorLost('expected exactly one body matching %r, found %d: %s' % (pat, len(r), [b.path for b in r][:6]))
        return r[0]

    @property
    def children(self):
        """parent path -> list of closure / coroutine bodies defined directly inside."""
        if self._children is None:
            c = defaultdict(list)
            for b in self.bodies.values():
                p = b.d.get('parent')
                if p:
                    c[p].append(b)
            self._children = c
        return self._children

    def descendants(self, body):
        out = []
        st = [body]
        while st:
            b = st.pop()
            for c in self.children.get(b.path, []):
                out.append(c)
                st.append(c)
        return out

    def sites_in_family(self, body, pat):
        """Call sites of `pat` that run on behalf of `body`: its own calls, and calls inside closures it creates (attributed
        to the block that creates the closure - e.g. `res.map(|item| io.encode(item))`). -> [(block in body, call term, closure path or None)]"""
        out = [(bi, t, None) for bi, t in body.calls_to(pat)]
        for c in self.descendants(body):
            hits = list(c.calls_to(pat))
            if not hits:
                continue
            root = c
            while root.d.get('parent') and root.d.get('parent') != body.path and root.d.get('parent') in self.bodies:
                root = self.bodies[root.d['parent']]
            created = [bi for bi, j, s in body.assigns() if s['rv']['k'] == 'agg' and s['rv'].get('def') == root.path]
            for bi in created:
                for xb, t in hits:
                    out.append((bi, t, c.path))
        return out

    def family(self, body):
        return [body] + self.descendants(body)

    @property
    def trait_impls(self):
        """(trait path, method name) -> list of local def paths implementing it."""
        if self._trait_impls is None:
            t = defaultdict(list)
            self._trait_refs = {}
            for im in self.impls:
                if 'trait' in im:
                    for it in im['items']:
                        t[(im['trait'], it['name'])].append(it['path'])
                        self._trait_refs[it['path']] = im.get('trait_ref') or ''
            self._trait_impls = t
        return self._trait_impls

    def call_targets(self, term, expand_traits=True):
        """Local body paths a call terminator may invoke."""
        d, r, c = callee_of(term)
        if c is None:
            return []
        out = []
        if r and c.get('res_local') and r in self.bodies:
            out.append(r)
        elif r and c.get('res_local'):
            out.append(r)
        elif not r and expand_traits and c.get('trait'):
            cands = self.trait_impls.get((c['trait'], c.get('method')), [])
            # a call on a type parameter: only impls of the same trait instance (`TryFrom<u8>`, not `TryFrom<ByteString>`)
            targs = list(c.get('args') or [])[1:]
            targs = [a for a in targs if not a.startswith("'")]
            if targs and not any(re.match(r'^[A-Z][A-Za-z0-9]*$', a) for a in targs):
                want = ' as %s<%s>>' % (c['trait'], ', '.join(targs))
                narrowed = [p_ for p_ in cands if self._trait_refs.get(p_, '').endswith(want)]
                if narrowed or any(self._trait_refs.get(p_) for p_ in cands):
                    cands = narrowed
            out.extend(cands)
        elif not r and c.get('local') and d in self.bodies:
            out.append(d)
        return out

    def callgraph_from(self, roots, expand_traits=True, include_closures=True, stop=None):
        """Reachable local bodies from `roots` (paths). Closures/coroutines constructed in a body
        are treated as reachable from it. Returns dict path -> (parent path, via)."""
        seen = {}
        dq = deque()
        for r in roots:
            if r in self.bodies and r not in seen:
                seen[r] = (None, 'root')
                dq.append(r)
        while dq:
            p = dq.popleft()
            if stop and stop(p):
                continue
            b = self.bodies[p]
            nxt = []
            for i, t in b.calls():
                for q in self.call_targets(t, expand_traits):
                    nxt.append((q, 'call@%s' % b.loc(i)))
            if include_closures:
                for i, j, s in b.assigns():
                    rv = s['rv']
                    if rv['k'] == 'agg' and rv.get('agg') in ('closure', 'coroutine', 'coroutine_closure'):
                        nxt.append((rv['def'], 'constructs'))
            for q, via in nxt:
                if q in self.bodies and q not in seen:
                    seen[q] = (p, via)
                    dq.append(q)
        return seen

    def chain(self, cg, p):
        out = []
        while p is not None:
            out.append(p)
            p = cg[p][0]
        return out[::-1]

    @property
    def callers(self):
        if self._callers is None:
            c = defaultdict(list)
            for b in self.bodies.values():
                for i, t in b.calls():
                    for q in self.call_targets(t):
                        c[q].append((b.path, i))
            self._callers = c
        return self._callers

    def enum_variants(self, adt_path):
        a = self.adts.get(adt_path)
        if not a:
            raise AnchorLost('ADT %s not found' % adt_path)
        return {v['name']: v.get('discr') for v in a['variants']}

    def enum_by_discr(self, adt_path):
        return {v: k for k, v in self.enum_variants(adt_path).items()}

    def variant_index(self, adt_path, name):
        a = self.adts.get(adt_path)
        if not a:
            raise AnchorLost('ADT %s not found' % adt_path)
        for i, v in enumerate(a['variants']):
            if v['name'] == name:
                return i
        raise AnchorLost('variant %s::%s not found' % (adt_path, name))

    def variant_name(self, adt_path, idx):
        return self.adts[adt_path]['variants'][idx]['name']


_INL_SEG = re.compile(r'::\{inl#\d+\}')


class AnchorLost(Exception):
    pass


# ----------------------------------------------------------------------------- value origin (A3)
TRANSPARENT_CALLS = re.compile(
    r'(^|::)(clone|deref|deref_mut|as_ref|as_mut|borrow|borrow_mut|into|from|to_owned|unwrap_or|unwrap_or_default|unwrap|expect|'
    r'get|into_inner|as_deref|as_slice|new_unchecked|get_mut|get_ref|as_str|copied|cloned|to_string|non_zero)$')


class Origin:
    """Backward slice of an operand within one body: set of leaf origins.
    Leaves: ('const', v, ty) | ('arg', n, fieldpath) | ('call', callee, block) | ('field', local, fieldpath)
          | ('agg', desc, block) | ('resume', block) | ('unknown', why)"""

    def __init__(self, body, transparent=TRANSPARENT_CALLS, max_steps=4000):
        self.b = body
        self.tr = transparent
        self.max = max_steps

    def of_operand(self, op, through_calls=True):
        leaves = set()
        seen = set()
        work = []
        c = op_const(op)
        if c is not None:
            return {self._const_leaf(c)}
        p = op_place(op)
        work.append((p['l'], tuple(place_fields(p))))
        steps = 0
        while work and steps < self.max:
            steps += 1
            l, fp = work.pop()
            if (l, fp) in seen:
                continue
            seen.add((l, fp))
            if 1 <= l <= self.b.argc:
                leaves.add(('arg', l, fp))
                # an argument may also be reassigned, fall through to look at defs
            defs = self.b.defs.get(l, [])
            if not defs and not (1 <= l <= self.b.argc):
                leaves.add(('unknown', 'no-def _%d' % l))
            for (bi, si, kind, x) in defs:
                if bi not in self.b.live:
                    continue
                if kind == 'assign':
                    lhsf = tuple(place_fields(x['lhs']))
                    # partial assignment to a field: relevant only if prefix-compatible
                    if lhsf and fp and lhsf[:len(fp)] != fp[:len(lhsf)] and fp[:len(lhsf)] != lhsf[:len(fp)]:
                        continue
                    rest = fp[len(lhsf):] if len(fp) >= len(lhsf) else ()
                    self._rv(x['rv'], rest, bi, work, leaves, through_calls)
                elif kind == 'call':
                    d, r, c = callee_of(x)
                    nm = r or d or '?'
                    leaves.add(('call', nm, bi))
                    if through_calls and self.tr.search(nm.split('<')[0] if False else nm):
                        for a in x['args'][:1]:
                            ap = op_place(a)
                            if ap is not None:
                                work.append((ap['l'], tuple(place_fields(ap))))
                            else:
                                ac = op_const(a)
                                if ac is not None:
                                    leaves.add(self._const_leaf(ac))
                elif kind == 'yield':
                    leaves.add(('resume', bi))
                elif kind == 'setdiscr':
                    pass
        if work:
            leaves.add(('unknown', 'budget'))
        return leaves

    def _const_leaf(self, c):
        if 'fn' in c:
            return ('fnconst', c['fn'])
        if 'v' in c:
            return ('const', c['v'], c['ty'])
        return ('constx', c.get('def') or c.get('s'), c['ty'])

    def _rv(self, rv, rest, bi, work, leaves, through_calls):
        k = rv['k']
        if k in ('use', 'cast', 'un'):
            op = rv.get('a') if k == 'un' else (rv.get('op') or rv.get('a'))
            c = op_const(op)
            if c is not None:
                leaves.add(self._const_leaf(c))
            else:
                p = op_place(op)
                work.append((p['l'], tuple(place_fields(p)) + rest))
        elif k in ('ref', 'rawptr', 'discr'):
            p = rv['place']
            work.append((p['l'], tuple(place_fields(p)) + rest))
        elif k == 'bin':
            leaves.add(('binop', rv['op'], bi))
            for o in (rv['a'], rv['b']):
                c = op_const(o)
                if c is not None:
                    leaves.add(self._const_leaf(c))
                else:
                    p = op_place(o)
                    work.append((p['l'], tuple(place_fields(p))))
        elif k == 'agg':
            names = rv.get('names') or [str(i) for i in range(len(rv['fields']))]
            desc = rv.get('adt', rv.get('def', rv.get('agg'))) + ('::' + rv['variant'] if 'variant' in rv else '')
            leaves.add(('agg', desc, bi))
            if rest:
                # follow the selected field only
                for n, f in zip(names, rv['fields']):
                    if n == rest[0]:
                        c = op_const(f)
                        if c is not None:
                            leaves.add(self._const_leaf(c))
                        else:
                            p = op_place(f)
                            work.append((p['l'], tuple(place_fields(p)) + rest[1:]))
            else:
                for f in rv['fields']:
                    c = op_const(f)
                    if c is not None:
                        leaves.add(self._const_leaf(c))
                    else:
                        p = op_place(f)
                        work.append((p['l'], tuple(place_fields(p))))
        else:
            leaves.add(('unknown', k))


def leaves_args(leaves):
    return {(l[1], l[2]) for l in leaves if l[0] == 'arg'}


def leaves_calls(leaves):
    return {l[1] for l in leaves if l[0] == 'call'}


def leaves_consts(leaves):
    return {l[1] for l in leaves if l[0] == 'const'}


# ----------------------------------------------------------------------------- guards (A4)
def switch_edges(body, bi):
    """For a switch terminator: list of (value or 'otherwise', target)."""
    t = body.blocks[bi]['term']
    return [(v, b) for v, b in t['targets']] + [('otherwise', t['otherwise'])]


def edge_dominates(body, src, dst, blk):
    """True if every path from entry to `blk` uses the CFG edge src->dst.
    Computed as: blk unreachable from entry once that edge is removed."""
    succ = [list(s) for s in body.succ]
    # remove only that edge; if src has dst listed once it is removed
    succ[src] = [s for s in succ[src] if s != dst]
    return blk not in body.reachable(0, succ=succ)


def blocks_only_via_edge(body, src, dst):
    """Set of blocks reachable from entry only through edge src->dst."""
    succ = [list(s) for s in body.succ]
    succ[src] = [s for s in succ[src] if s != dst]
    without = body.reachable(0, succ=succ)
    return body.live - without


def emptied_before_returns(body, field):
    """Every return of `body` is reached only after the container `field` was emptied: a `clear()` / `drain(..)` on it, or the
    None edge of a `pop_front()/pop_back()/pop()` on it (the exit of `while let Some(x) = q.pop_front()`). Returns
    (ok, emptying blocks, emptying edges)."""
    blocks = {x[0] for x in calls_on_field(body, r'(VecDeque::<T, A>|Vec::<T, A>)::(clear|drain)$', field)}
    edges = set()
    for bi, t, ap in calls_on_field(body, r'(VecDeque::<T, A>|Vec::<T, A>)::(pop_front|pop_back|pop)$', field):
        r = discr_switch_after_call(body, bi)
        if r:
            sb, tg, oth = r
            if 0 in tg:
                edges.add((sb, tg[0]))
            elif len(tg) == 1 and 1 in tg:
                edges.add((sb, oth))
    succ = [list(x) for x in body.succ]
    for a, b_ in edges:
        succ[a] = [x for x in succ[a] if x != b_]
    open_ = set(body.returns()) & body.reachable(0, avoid=blocks, succ=succ)
    return (bool(blocks or edges) and not open_, blocks, edges)


# ----------------------------------------------------------------------------- the place a value really lives in
def uniq_defs(b, l):
    """Live whole-local definitions, textually identical ones (the copies jump threading makes of a shared tail) counted once."""
    out, seen = [], set()
    for d in b.whole_defs(l):
        if d[0] not in b.live:
            continue
        x = d[3]
        key = repr(x.get('rv')) if d[2] == 'assign' else repr((callee_name(x), x.get('args')))
        if key in seen:
            continue
        seen.add(key)
        out.append(d)
    return out


def mut_borrowed(b):
    """Locals whose address is taken mutably somewhere in the body (`&mut x` / `&raw mut x`, not a reborrow through it)."""
    if not hasattr(b, '_mut_borrowed'):
        b._mut_borrowed = {st['rv']['place']['l'] for bi, j, st in b.assigns() if st['rv']['k'] in ('ref', 'rawptr') and st['rv'].get('mut', True)
                           and '*' not in place_proj(st['rv']['place'])}
    return b._mut_borrowed


def norm_place(b, p):
    """The place an operand really reads: copies / moves of the base local, `&x` followed by `*`, and the selection of a field
    of a tuple / closure environment / struct built in this body are folded (`(*env.0)` with `env = closure(&len)` is `len`)."""
    for _ in range(24):
        proj = list(place_proj(p))
        ds = uniq_defs(b, p['l'])
        if len(ds) == 1 and ds[0][2] == 'call' and re.search(r'as std::ops::Try>::branch$', callee_name(ds[0][3]) or '') and ds[0][3]['args'] \
                and len(proj) >= 2 and isinstance(proj[0], dict) and proj[0].get('d') == 'Continue' and op_place(ds[0][3]['args'][0]) is not None:
            # `(branch(x) as Continue).0` is the Ok / Some payload of x
            q = op_place(ds[0][3]['args'][0])
            ty_ = b.local_ty(q['l']) or ''
            var_ = 'Ok' if ty_.startswith('std::result::Result<') else 'Some'
            p = {'l': q['l'], 'p': list(place_proj(q)) + [{'d': var_, 'vi': 0 if var_ == 'Ok' else 1}] + proj[1:]}
            continue
        if len(ds) != 1 or ds[0][2] != 'assign':
            break
        rv = ds[0][3]['rv']
        if rv['k'] == 'agg' and rv.get('agg') == 'adt' and proj and isinstance(proj[0], dict) and 'd' in proj[0] and proj[0]['d'] == rv.get('variant'):
            proj = proj[1:]     # downcast to the variant the value was built with
            p = {'l': p['l'], 'p': proj}
        if rv['k'] == 'use' and op_place(rv['op']) is not None:
            if p['l'] in mut_borrowed(b) and not (b.local_ty(p['l']) or '').startswith('{closure@'):
                # a copy that is changed afterwards through `&mut copy` is no longer the value it was copied from (a closure
                # value borrowed for `call_mut` keeps the references it captured)
                break
            q = op_place(rv['op'])
            p = {'l': q['l'], 'p': list(place_proj(q)) + proj}
        elif rv['k'] == 'ref' and proj and proj[0] == '*':
            q = rv['place']
            p = {'l': q['l'], 'p': list(place_proj(q)) + proj[1:]}
        elif rv['k'] == 'agg' and proj and isinstance(proj[0], dict) and 'f' in proj[0]:
            names = rv.get('names') or [str(i_) for i_ in range(len(rv.get('fields') or []))]
            f_ = str(proj[0]['f'])
            idx = names.index(f_) if f_ in names else (proj[0].get('i') if isinstance(proj[0].get('i'), int) and proj[0].get('i') < len(rv.get('fields') or []) else None)
            if idx is None or op_place(rv['fields'][idx]) is None:
                break
            q = op_place(rv['fields'][idx])
            p = {'l': q['l'], 'p': list(place_proj(q)) + proj[1:]}
        else:
            break
    return p


def _place_canon(b, p):
    q = norm_place(b, p)
    return q['l'], tuple(proj_str(e) if not isinstance(e, str) else e for e in place_proj(q))


def _overlap(a, c):
    n = min(len(a), len(c))
    return a[:n] == c[:n]


def _mut_ref_may_overlap(b, l, root, proj, depth=0):
    """Can the mutable reference held in local `l` reach the place root.proj? Resolved through reborrows and copies; a
    reference produced by a call is as dangerous as the references that call received; anything else is unknown (True)."""
    if depth > 3:
        return True
    try:
        r_, p_ = _place_canon(b, {'l': l, 'p': ['*']})
    except Exception:
        return True
    if r_ == root:
        return _overlap(p_, proj)
    if 1 <= r_ <= b.argc:
        return False      # another parameter: exclusive references handed in separately do not alias
    ds = [x for x in b.whole_defs(r_) if x[0] in b.live]
    if len(ds) == 1 and ds[0][2] == 'call':
        for a in ds[0][3].get('args') or []:
            q = op_place(a)
            if q is None:
                continue
            ty = b.local_ty(q['l']) or ''
            if not ('&' in ty or '*mut' in ty or '*const' in ty):
                continue
            if place_proj(q) or _mut_ref_may_overlap(b, q['l'], root, proj, depth + 1):
                return True
        return False
    if len(ds) == 1 and ds[0][2] == 'assign' and ds[0][3]['rv']['k'] in ('ref', 'rawptr'):
        # `&mut local` of a value that lives in this frame (not behind root)
        q = ds[0][3]['rv']['place']
        return q['l'] == root and _overlap(tuple(proj_str(e) if not isinstance(e, str) else e for e in place_proj(q)), proj)
    return True


def const_of_local(b, op, depth=6):
    """Constant an operand certainly holds: a literal, or a local whose only definition is a plain copy of such a value (the
    parameter of a spliced helper called with a literal)."""
    v = const_val(op)
    if v is not None:
        return v
    p = op_place(op)
    while p is not None and not place_proj(p) and depth > 0:
        depth -= 1
        if 1 <= p['l'] <= b.argc:
            return None
        ds = [d for d in b.whole_defs(p['l']) if d[0] in b.live]
        if len(ds) != 1 or ds[0][2] != 'assign' or ds[0][3]['rv']['k'] != 'use' or p['l'] in mut_borrowed(b):
            return None
        o = ds[0][3]['rv']['op']
        v = const_val(o)
        if v is not None:
            return v
        p = op_place(o)
    return None


def fold_constant_switches(b):
    """`helper(true)` spliced into its caller: the `if flag` inside tests a constant - the switch becomes a jump."""
    n = 0
    for bi in sorted(b.live):
        blk = b.blocks[bi]
        t = blk['term']
        if t['k'] != 'switch' or not blk.get('inl'):
            continue
        v = const_of_local(b, t['discr'])
        if v is None or isinstance(v, bool) and False:
            continue
        if not isinstance(v, int):
            continue
        tgt = dict((x, y) for x, y in t['targets']).get(int(v), t['otherwise'])
        blk['term'] = {'k': 'goto', 'target': tgt, 'folded': 'constant %s' % v, 'file': t.get('file'), 'ln': t.get('ln')}
        n += 1
    if n:
        b.reset_cfg()
    return n


def fold_correlated_switches(b):
    """A helper spliced into a match arm may test again what the arm was selected by
    (`let State::Stop(ref mut f) = self.st else { unreachable!() }` inside `State::Stop(_) => self.poll_stop()`): a switch
    over `discriminant(P)` in spliced code that can only be reached through one edge of an earlier switch over the same place,
    with nothing in between that can write P (no assignment to an overlapping place, no call that receives a `&mut` to an
    overlapping place or a `&mut` that cannot be resolved, no suspension point), is replaced by a jump to the target of that
    edge. Returns the number of switches folded."""
    sw = []
    for bi in sorted(b.live):
        t = b.blocks[bi]['term']
        if t['k'] != 'switch':
            continue
        d = op_place(t['discr'])
        if d is None or place_proj(d):
            continue
        ds = [x for x in b.whole_defs(d['l']) if x[0] in b.live]
        if len(ds) != 1 or ds[0][2] != 'assign' or ds[0][3]['rv']['k'] != 'discr' or ds[0][0] != bi:
            continue
        try:
            sw.append((bi, ds[0][1], _place_canon(b, ds[0][3]['rv']['place'])))
        except Exception:
            continue
    folded = 0
    for s2, j2, c2 in sw:
        if not b.blocks[s2].get('inl'):
            continue
        done = False
        for s1, j1, c1 in sw:
            if done or s1 == s2 or c1 != c2 or not b.dominates(s1, s2):
                continue
            t1 = b.blocks[s1]['term']
            edges = [(v, tb) for v, tb in t1['targets']]
            for v, tb in edges:
                if [x for x in edges if x[1] == tb and x[0] != v] or tb == t1['otherwise']:
                    continue
                if not edge_dominates(b, s1, tb, s2):
                    continue
                # blocks between that edge and the second test
                back = set()
                work = [s2]
                while work:
                    x = work.pop()
                    for pr in b.pred[x]:
                        if pr not in back and pr != s1 and pr in b.live:
                            back.add(pr)
                            work.append(pr)
                region = (b.reachable(tb, avoid=[s1, s2]) & back) | {s2}
                root, proj = c2
                safe = True
                for rb in region:
                    blk = b.blocks[rb]
                    for k, st in enumerate(blk['stmts']):
                        if rb == s2 and k >= j2:
                            break
                        if st['k'] in ('assign', 'setdiscr', 'set_discriminant'):
                            lhs = st.get('lhs') or st.get('place')
                            if lhs is None:
                                safe = False
                                break
                            if place_proj(lhs):
                                try:
                                    r_, p_ = _place_canon(b, lhs)
                                except Exception:
                                    safe = False
                                    break
                                if r_ == root and _overlap(p_, proj):
                                    safe = False
                                    break
                            elif lhs['l'] == root:
                                safe = False
                                break
                    if not safe:
                        break
                    if rb == s2:
                        continue
                    t = blk['term']
                    if t['k'] in ('yield',):
                        safe = False
                        break
                    if t['k'] == 'call':
                        for a in t.get('args') or []:
                            q = op_place(a)
                            if q is None:
                                continue
                            ty = b.local_ty(q['l']) or ''
                            if not (ty.startswith('&mut') or ty.startswith('*mut') or ty.startswith('std::pin::Pin<&mut')):
                                continue
                            if place_proj(q) or _mut_ref_may_overlap(b, q['l'], root, proj):
                                safe = False
                                break
                        if not safe:
                            break
                if not safe:
                    continue
                t2 = b.blocks[s2]['term']
                tgt = dict((v_, b_) for v_, b_ in t2['targets']).get(v, t2['otherwise'])
                b.blocks[s2]['term'] = {'k': 'goto', 'target': tgt, 'folded': 'discriminant known from block %d' % s1, 'file': t2.get('file'), 'ln': t2.get('ln')}
                b.reset_cfg()
                folded += 1
                done = True
                break
    return folded


# ----------------------------------------------------------------------------- boolean branches
def bool_branch(body, start_block, local, _pos=None, _seen=None, _depth=0):
    """Follow straight-line code from `start_block` (exclusive of its terminator's effect) to the
    switch that tests `local` (through moves/copies and `Not`; also through a tuple the bool is packed into for a
    `match (a, flag)` - then switches on the other components are passed, provided every way through them reaches the same
    test). Returns (switch_block, true_target, false_target) or None."""
    pos = dict(_pos) if _pos is not None else {local: True}  # alias (local or (tuple local, field)) -> polarity
    b = start_block
    seen = set(_seen) if _seen is not None else set()
    while b is not None and b not in seen:
        seen.add(b)
        blk = body.blocks[b]
        for s in blk['stmts']:
            if s['k'] != 'assign' or place_proj(s['lhs']):
                continue
            rv = s['rv']
            if rv['k'] == 'use':
                p = op_place(rv['op'])
                if p and not place_proj(p) and p['l'] in pos:
                    pos[s['lhs']['l']] = pos[p['l']]
            elif rv['k'] == 'un' and rv['op'] == 'Not':
                p = op_place(rv['a'])
                if p and not place_proj(p) and p['l'] in pos:
                    pos[s['lhs']['l']] = not pos[p['l']]
            elif rv['k'] == 'agg' and rv.get('agg') == 'tuple':
                for i_, f_ in enumerate(rv['fields']):
                    p = op_place(f_)
                    if p and not place_proj(p) and p['l'] in pos:
                        pos[(s['lhs']['l'], str(i_))] = pos[p['l']]
        t = blk['term']
        if t['k'] == 'switch':
            p = op_place(t['discr'])
            pj_ = place_proj(p) if p else None
            if p and pj_ and len(pj_) == 1 and isinstance(pj_[0], dict) and (p['l'], str(pj_[0].get('f'))) in pos:
                key_ = (p['l'], str(pj_[0].get('f')))
                zero = [tb for v, tb in t['targets'] if v == 0]
                if len(t['targets']) == 1 and zero:
                    tt, ft = t['otherwise'], zero[0]
                elif len(t['targets']) == 1 and t['targets'][0][0] == 1:
                    tt, ft = t['targets'][0][1], t['otherwise']
                else:
                    return None
                if not pos[key_]:
                    tt, ft = ft, tt
                return (b, tt, ft)
            if any(isinstance(k_, tuple) for k_ in pos) and _depth < 4:
                # a switch on another component of the tuple: every arm that tests the flag at all must do it at the same place
                res_ = set()
                for nb in term_succs(t):
                    r_ = bool_branch(body, nb, local, pos, seen | {b}, _depth + 1)
                    if r_ is not None:
                        res_.add(r_)
                return res_.pop() if len(res_) == 1 else None
            if p and not place_proj(p) and p['l'] in pos:
                zero = [tb for v, tb in t['targets'] if v == 0]
                if len(t['targets']) == 1 and zero:
                    tt, ft = t['otherwise'], zero[0]
                elif len(t['targets']) == 1 and t['targets'][0][0] == 1:
                    tt, ft = t['targets'][0][1], t['otherwise']
                else:
                    return None
                if not pos[p['l']]:
                    tt, ft = ft, tt
                return (b, tt, ft)
            return None
        if t['k'] == 'goto':
            b = t['target']
        elif t['k'] == 'drop' and (op_place({'cp': t['place']}) or {}).get('l') not in pos:
            # dropping another value (a guard going out of scope at the end of a helper) does not change the bool
            b = t['target']
        elif t['k'] == 'call' and b != start_block and isinstance(t.get('target'), int) and not place_proj(t['dest']) and t['dest']['l'] not in pos \
                and not any((op_place(a) or {}).get('l') in pos for a in t.get('args', [])):
            # a call in between that neither receives nor overwrites the tested value (`cell.set(v)` between the test and the `if`)
            b = t['target']
        elif t['k'] in ('call', 'drop', 'assert') and b != start_block:
            # allow intervening pure calls (e.g. is_ok on a reference) only through call_bool_branch
            return None
        elif b == start_block and t['k'] in ('call',):
            b = t.get('target')
        else:
            return None
    return None


BOOL_WRAPPERS = re.compile(r'::(is_ok|is_some|is_err|is_none|not|is_empty)$')


def call_bool_branch(body, call_block):
    """For a call whose result is a bool (or whose Result/Option is immediately tested through
    is_ok/is_some/is_err/is_none, or `discriminant` + switch), return
    (switch_block, true_target, false_target) where 'true' means: bool true / is_ok / is_some.
    """
    t = body.blocks[call_block]['term']
    dest = t['dest']['l']
    r = bool_branch(body, call_block, dest)
    if r:
        return r
    # look for wrapper call on &dest or dest in the following straight-line blocks
    b = t.get('target')
    alias = {dest}
    seen = set()
    while b is not None and b not in seen:
        seen.add(b)
        blk = body.blocks[b]
        for s in blk['stmts']:
            if s['k'] == 'assign' and not place_proj(s['lhs']):
                rv = s['rv']
                src = None
                if rv['k'] == 'use':
                    src = op_place(rv['op'])
                elif rv['k'] == 'ref':
                    src = rv['place']
                if src and not place_fields(src) and src['l'] in alias:
                    alias.add(s['lhs']['l'])
                if rv['k'] == 'discr' and rv['place']['l'] in alias and not place_fields(rv['place']):
                    # discriminant(dest); switch
                    d = s['lhs']['l']
                    tt = blk['term']
                    if tt['k'] == 'switch' and op_place(tt['discr']) and op_place(tt['discr'])['l'] == d:
                        return ('discr', b, tt)
        tt = blk['term']
        if tt['k'] == 'call':
            nm = callee_name(tt) or ''
            m = BOOL_WRAPPERS.search(nm)
            a0 = op_place(tt['args'][0]) if tt['args'] else None
            if m and a0 and a0['l'] in alias:
                r = bool_branch(body, b, tt['dest']['l'])
                if not r:
                    return None
                sb, tt_, ft_ = r
                if m.group(1) in ('is_err', 'is_none', 'not', 'is_empty'):
                    tt_, ft_ = ft_, tt_
                return (sb, tt_, ft_)
            return None
        if tt['k'] == 'goto':
            b = tt['target']
        else:
            return None
    return None


def discr_switch_after_call(body, call_block):
    """If a call's result (Option/Result/enum) is matched right after the call, return
    (switch_block, {variant_index: target}, otherwise_target)."""
    r = call_bool_branch(body, call_block)
    if r and r[0] == 'discr':
        _, sb, tt = r
        return (sb, {v: b for v, b in tt['targets']}, tt['otherwise'])
    return None


def nonempty_edges(body, is_buf):
    """CFG edges on which a buffer is known to hold at least one more byte: `has_remaining()` true, `is_empty()` false,
    `remaining()` / `len()` compared with a constant (`> 0`, `>= 1`, `!= 0` true; `== 0`, `< 1` false; either operand
    order). `is_buf(call terminator)` says whether the call's receiver is the buffer of interest. -> [(switch block, target)]"""
    out = []
    lens = {}
    for bi, t in body.calls():
        nm = callee_name(t) or ''
        if not t.get('args') or not is_buf(t):
            continue
        if nm.endswith('::has_remaining') or nm.endswith('::is_empty'):
            r = call_bool_branch(body, bi)
            if r and r[0] != 'discr':
                out.append((r[0], r[1] if nm.endswith('::has_remaining') else r[2]))
        elif re.search(r'::(remaining|len)$', nm):
            lens[t['dest']['l']] = bi
    for bi, j, s in body.assigns():
        rv = s['rv']
        if rv['k'] != 'bin' or rv['op'] not in ('Gt', 'Ge', 'Ne', 'Eq', 'Lt', 'Le'):
            continue
        for x, y, flip in ((rv['a'], rv['b'], False), (rv['b'], rv['a'], True)):
            px, c = op_place(x), const_val(y)
            if px is None or c is None or place_proj(px):
                continue
            l = px['l']
            for _ in range(4):
                if l in lens:
                    break
                ds = [d for d in body.whole_defs(l) if d[0] in body.live]
                if len(ds) == 1 and ds[0][2] == 'assign' and ds[0][3]['rv']['k'] in ('use', 'cast') and op_place(ds[0][3]['rv'].get('op')) is not None:
                    l = op_place(ds[0][3]['rv']['op'])['l']
                else:
                    break
            if l not in lens:
                continue
            op = rv['op'] if not flip else {'Gt': 'Lt', 'Lt': 'Gt', 'Ge': 'Le', 'Le': 'Ge'}.get(rv['op'], rv['op'])
            when_true = {('Gt', 0): True, ('Ge', 1): True, ('Ne', 0): True, ('Eq', 0): False, ('Lt', 1): False, ('Le', 0): False}.get((op, c))
            if when_true is None:
                continue
            r = bool_branch(body, bi, s['lhs']['l'])
            if r:
                out.append((r[0], r[1] if when_true else r[2]))
    return out


# ----------------------------------------------------------------------------- access paths
APATH_TRANSPARENT = re.compile(r'(::|^)(deref|deref_mut|borrow|borrow_mut|as_ref|as_mut|get_mut|clone|as_deref|as_deref_mut|as_pin_mut|get_ref|into_inner|project|project_ref|as_pin_ref|new_unchecked|new|get_unchecked_mut|map_unchecked_mut|into_future|get)$')


# lossless integer widening spelled as a call (`usize::from(x)`, `x.into()`): the same value as `x as usize`
INT_CONV = re.compile(r'^(?:<(?:u8|u16|u32|u64|u128|usize|i16|i32|i64|i128|isize) as std::convert::(?:From|Into)<(?:u8|u16|u32|u64|usize|bool)>>::(?:from|into)|std::convert::num::<impl std::convert::From<(?:u8|u16|u32|u64|usize|bool)> for (?:u8|u16|u32|u64|u128|usize|i16|i32|i64|i128|isize)>::from)$')


def apath(body, x, depth=0, seen=None):
    """Canonical access path of a place/operand: ('arg1','queues','inflight') following refs,
    moves, and transparent accessor calls. None when ambiguous/unknown."""
    if x is None or depth > 40:
        return None
    if 'l' not in x:
        p = op_place(x)
        if p is None:
            return None
        x = p
    seen = seen or set()
    l = x['l']
    fields = tuple(place_fields(x))
    if 1 <= l <= body.argc:
        # arguments are rarely reassigned; accept
        return ('arg%d' % l,) + fields
    if l in seen:
        return None
    seen = seen | {l}
    defs = [d for d in body.whole_defs(l) if d[0] in body.live]
    res = set()
    for (bi, si, kind, d) in defs:
        r = None
        if kind == 'assign':
            rv = d['rv']
            if rv['k'] in ('use', 'cast', 'ref', 'rawptr'):
                q = op_place(rv['op']) if rv['k'] in ('use', 'cast') else rv['place']
                if q is None:
                    r = None
                else:
                    # carry the fields selected so far along (they may select a field of an aggregate built further up)
                    inner = apath(body, {'l': q['l'], 'p': list(q.get('p') or []) + list(x.get('p') or [])}, depth + 1, seen)
                    r = ('__full__',) + inner if inner is not None else None
            elif rv['k'] == 'agg' and rv.get('agg') == 'adt' and len(rv['fields']) == 1 and rv['adt'].startswith('std::pin::Pin'):
                r = apath(body, rv['fields'][0], depth + 1, seen)
            elif rv['k'] == 'agg' and fields and rv.get('agg') in ('closure', 'coroutine', 'tuple', 'adt'):
                # a field of a value built here (e.g. a captured variable of a spliced async helper): continue with the
                # operand stored into that field
                names = rv.get('names') or [str(i_) for i_ in range(len(rv['fields']))]
                if fields[0] in names:
                    inner = apath(body, rv['fields'][names.index(fields[0])], depth + 1, seen)
                    r = ('__full__',) + (inner + tuple(fields[1:])) if inner is not None else None
        elif kind == 'call':
            nm = callee_name(d) or ''
            if (APATH_TRANSPARENT.search(nm) or INT_CONV.match(nm) or INT_CONV.match((op_const(d.get('func') or {}) or {}).get('res') or '')) and d['args']:
                r = apath(body, d['args'][0], depth + 1, seen)
            else:
                r = ('call:' + nm,)
        res.add(r)
    # several definitions that denote the same path (a guard re-acquired on the same cell, a value re-bound) agree
    fin = {None if r is None else (r[1:] if r and r[0] == '__full__' else r + fields) for r in res}
    if len(fin) == 1:
        return fin.pop()
    return None


def apath_str(ap):
    return '.'.join(ap) if ap else '?'


def call_recv_path(body, term, idx=0):
    """Access path of the idx-th argument of a call (usually the receiver)."""
    if len(term['args']) <= idx:
        return None
    return apath(body, term['args'][idx])


def calls_on_field(body, callee_pat, field, idx=0):
    """Calls matching callee_pat whose idx-th argument's access path ends in `field`
    (or contains it when field is a tuple of consecutive names)."""
    out = []
    for bi, t in body.calls_to(callee_pat):
        ap = call_recv_path(body, t, idx)
        if ap is None:
            continue
        if isinstance(field, str):
            if ap[-1] == field:
                out.append((bi, t, ap))
        else:
            if tuple(ap[-len(field):]) == tuple(field):
                out.append((bi, t, ap))
    return out


# ----------------------------------------------------------------------------- enum arms / awaits
def discr_switches(body, adt=None, ty_pat=None):
    """Switches on `discriminant(place)`; yields (switch_block, place, adt_path, ty, term)."""
    for i in sorted(body.live):
        blk = body.blocks[i]
        t = blk['term']
        if t['k'] != 'switch':
            continue
        p = op_place(t['discr'])
        if not p or place_proj(p):
            continue
        src = None
        for s in blk['stmts']:
            if s['k'] == 'assign' and s['lhs']['l'] == p['l'] and not place_proj(s['lhs']) and s['rv']['k'] == 'discr':
                src = s['rv']
        if src is None:
            # discriminant computed in a dominating block
            for (xb, xs, kind, x) in body.defs.get(p['l'], []):
                if kind == 'assign' and x['rv']['k'] == 'discr':
                    src = x['rv']
        if src is None:
            continue
        if adt and src.get('adt') != adt:
            continue
        if ty_pat and not re.search(ty_pat, src.get('ty', '')):
            continue
        yield i, src['place'], src.get('adt'), src.get('ty'), t


def variant_edges(F, body, adt):
    """{variant name: [(switch_block, target_block)]} for every switch over discriminants of `adt`.
    The otherwise edge is attributed to the variants not listed (when exactly one remains)."""
    out = defaultdict(list)
    vs = F.adts[adt]['variants']
    by_discr = {v.get('discr', i): v['name'] for i, v in enumerate(vs)}
    for sb, place, a, ty, t in discr_switches(body, adt=adt):
        listed = set()
        for v, tb in t['targets']:
            if v in by_discr:
                out[by_discr[v]].append((sb, tb))
                listed.add(v)
        rest = [d for d in by_discr if d not in listed]
        oth = t['otherwise']
        if body.blocks[oth]['term']['k'] != 'unreachable' or body.blocks[oth]['stmts']:
            for d in rest:
                out[by_discr[d] + '?'].append((sb, oth))
            if len(rest) == 1:
                out[by_discr[rest[0]]].append((sb, oth))
    return out


def enum_eq_edges(F, body, adt):
    """{variant: [(switch_block, target)]} for tests written `x == Enum::Variant` / `x != ..` (derived PartialEq on a
    fieldless enum compared with a constant) - the counterpart of variant_edges for `match x`."""
    from symex import SymEx
    out = defaultdict(list)
    short = adt.split('::')[-1]
    for bi, t in body.calls():
        nm = callee_name(t) or ''
        m = re.search(r'<%s as std::cmp::PartialEq>::(eq|ne)$' % re.escape(adt), nm)
        if not m or len(t['args']) != 2:
            continue
        var = None
        for a in t['args']:
            # the constant side: a promoted `&Enum::Variant` or a local assigned the fieldless aggregate
            for leaf in Origin(body).of_operand(a):
                if leaf[0] == 'agg' and leaf[1].startswith(adt + '::'):
                    var = leaf[1].split('::')[-1]
            c = op_const(a)
            p_ = op_place(a)
            for _ in range(6):
                if c is not None or p_ is None:
                    break
                nxt = None
                for d_ in body.whole_defs(p_['l']):
                    if d_[2] != 'assign':
                        continue
                    rv_ = d_[3]['rv']
                    if rv_['k'] == 'use':
                        c = op_const(rv_['op']) or c
                        nxt = op_place(rv_['op'])
                    elif rv_['k'] == 'ref':
                        nxt = rv_['place']
                p_ = nxt
            if c is not None and isinstance(c.get('promoted'), int) and not isinstance(c.get('promoted'), bool) and c.get('def'):
                v = F.promoted_value(c['def'], c['promoted'])
                while v and v[0] in ('ref', 'deref'):
                    v = v[1]
                if v and v[0] == 'agg' and v[1] == adt:
                    var = v[2]
        if var is None:
            continue
        r = call_bool_branch(body, bi)
        if not r or r[0] == 'discr':
            continue
        sb, tt, ft = r
        out[var].append((sb, tt if m.group(1) == 'eq' else ft))
    return out


def arm_region(body, edges):
    """Blocks that can only be reached through one of the given edges."""
    succ = [list(s) for s in body.succ]
    for s, d in edges:
        succ[s] = [x for x in succ[s] if x != d]
    without = body.reachable(0, succ=succ)
    return body.live - without


def await_points(body):
    """Awaits of a coroutine body: dicts(poll_block, ready, pending, awaited=access path of the
    awaited future, yield_blocks)."""
    out = []
    for bi, t in body.calls():
        ty = body.local_ty(t['dest']['l'])
        if not ty.startswith('std::task::Poll<') or 'Await' not in t.get('mac', ''):
            continue
        r = discr_switch_after_call(body, bi)
        if not r:
            continue
        sb, tg, oth = r
        ready = tg.get(0, oth)
        pending = tg.get(1, oth)
        ap = apath(body, t['args'][0]) if t['args'] else None
        out.append(dict(poll=bi, switch=sb, ready=ready, pending=pending, awaited=ap, callee=callee_name(t)))
    return out


def must_call_blocks(F, body, pat, argconsts=None, depth=0, _seen=None):
    """Blocks of `body` whose call certainly performs an effect matching `pat`: a direct call of a callee matching pat, or a
    call of a crate function all of whose return paths (for the constant arguments passed here - `helper(true)` folds the
    `if flag` inside) pass such a block. Wrapper awareness for must-pass-through rules."""
    _seen = _seen or set()
    out = set()
    for bi, t in body.calls():
        nm = callee_name(t) or ''
        if re.search(pat, nm):
            out.add(bi)
            continue
        if depth >= 3:
            continue
        for q in F.call_targets(t, expand_traits=False):
            qb = F.bodies.get(q)
            if qb is None or qb.is_coroutine or q in _seen:
                continue
            consts = {}
            for i, a in enumerate(t.get('args') or []):
                v = const_val(a)
                if v is not None:
                    consts[i + 1] = v
            if returns_only_through(F, qb, pat, consts, depth + 1, _seen | {body.path}):
                out.add(bi)
                break
    return out


def returns_only_through(F, body, pat, argconsts=None, depth=0, _seen=None):
    """Every path from the entry of `body` to a return passes a block of must_call_blocks(pat); switches on a parameter
    with a known constant value only follow the matching target."""
    argconsts = argconsts or {}
    through = must_call_blocks(F, body, pat, None, depth, _seen)
    if not through:
        return False
    succ = [list(x) for x in body.succ]
    for sb in body.live:
        t = body.blocks[sb]['term']
        if t['k'] != 'switch':
            continue
        p = op_place(t['discr'])
        # the discriminant is the parameter itself or a plain copy of it
        l = p['l'] if p and not place_proj(p) else None
        for _ in range(4):
            if l is None or 1 <= l <= body.argc:
                break
            ds = [d for d in body.whole_defs(l) if d[0] in body.live]
            if len(ds) == 1 and ds[0][2] == 'assign' and ds[0][3]['rv']['k'] == 'use' and op_place(ds[0][3]['rv']['op']) and not place_proj(op_place(ds[0][3]['rv']['op'])):
                l = op_place(ds[0][3]['rv']['op'])['l']
            else:
                l = None
        if l is not None and l in argconsts:
            tg = dict((v, b2) for v, b2 in t['targets'])
            succ[sb] = [tg.get(argconsts[l], t['otherwise'])]
    return not (set(body.returns()) & body.reachable(0, avoid=through, succ=succ))

