"""C02 (structural part): nopanic: every panic-capable site (Buf reads/advance/split_to, overflow
asserts, bounds checks, slicing, unwrap) in the call graph of the three Decoder::decode roots is
enumerated; buffer reads are proven by a forward 'available bytes' dataflow from the dominating guards,
shifts/adds by constant/width reasoning, the rest must match a reviewed table entry; varint: the
variable-byte-integer decoder reads at most four bytes and cannot exceed 0x0FFF_FFFF (paths enumerated
with constant folding); max-size: in both codecs every state change / consumption of the FrameHeader
arm passes the comparison with the configured inbound maximum and the over-size edge returns
MaxSizeExceeded; reject: each of the property loops ends its fall-through arm in Err, once-only
properties go through read_value (is_none guard), no transmute / unchecked UTF-8 construction is
reachable from the decoders; frame-exhausted: every decode_packet arm returns Ok only after an emptiness test of the frame buffer that follows its last read (must-dataflow with callee summaries); frame-confinement: only the two Codec::decode bodies consume from the
receive buffer, VersionCodec consumes nothing. Termination of the outer loop, re-encode stability and
independence from fragmentation (C10) are not decided here. reject (continued): a NonZero identifier built from decoded bytes has its zero case mapped to an error (never kept as a silent None). nopanic (continued): the additions of the PUBLISH header-length computations are proven by an upper-bound prover (constants, type widths, From<uN> widenings, `x += c` accumulators outside loops, components of decode_variable_length's result bounded by C02.varint, closure-captured operands) instead of a reviewed entry; the slice `&src[len..]` is covered by a length test of the same value. varint (continued): the returned expression of every accepting path of the variable-byte-integer reader equals sum((b & 0x7f) << 7k) for sample bytes.
"""
import os
from facts import *
from disp import agg_sites
import panics, bufflow, propschema
from symex import SymEx, term_str_v, term_has

ROOTS = r'^<(v[35]::codec::codec::Codec|version::VersionCodec) as ntex_codec::Decoder>::decode$'

# (function regex, kind, what regex, class, reason, max count)
TABLE = [
    (r'^<v[35]::codec::codec::Codec as ntex_codec::Decoder>::decode$', 'consume', r'^advance$', 'DERIVED',
     'advance(consumed + 1): `consumed` is the cursor position returned by decode_variable_length over src[1..], hence <= src.len() - 1; the arm is entered only with src.len() >= 2', 1),
    (r'^<v[35]::codec::codec::Codec as ntex_codec::Decoder>::decode$', 'assert', r'^Overflow:Add$', 'DERIVED', 'consumed + 1 with consumed <= 4 (C02.varint)', 1),
    (r'^<v[35]::codec::codec::Codec as ntex_codec::Decoder>::decode$', 'assert', r'^BoundsCheck$', 'DERIVED', 'src_slice[0] after `src.len() < 2 => return Ok(None)`', 1),
    (r'^<v[35]::codec::codec::Codec as ntex_codec::Decoder>::decode$', 'panic-call', r'^index!$', 'DERIVED', '&src_slice[1..] after `src.len() < 2 => return Ok(None)`', 1),
    (r'^<v[35]::codec::codec::Codec as ntex_codec::Decoder>::decode$', 'assert', r'^Overflow:Sub$', 'MIN-IDIOM',
     'payload_len - payload.len() where payload = src.split_to(min(src.len(), payload_len)): checked by the min-idiom rule below', 2),
    (r'^<version::VersionCodec as ntex_codec::Decoder>::decode$', 'assert|panic-call|unwrap', r'.*', 'DERIVED',
     'all indices are below consumed + 7 and the function returns Ok(None) when len <= consumed + 6; consumed <= 5 so the usize additions cannot overflow; try_into() of a 2-byte range cannot fail', 12),
    (r'^v[35]::codec::decode::decode_connect_packet$|^v5::codec::packet::connect::Connect::decode$', 'panic-call', r'^index!$', 'DERIVED',
     '&src.as_ref()[0..4] after ensure!(remaining >= 10) and a 2-byte read: 8 bytes remain', 1),
    (r'^v3::codec::decode::publish_size$|^v5::codec::packet::publish::Publish::packet_header_size$', 'assert', r'^BoundsCheck$', 'DERIVED', 'src[0], src[1] after `remaining() < 2 => return Ok(None)`', 2),
    (r'^v5::codec::packet::publish::Publish::packet_header_size$', 'panic-call', r'^index!$', 'GUARDED-INDEX', '&src[len..] after `remaining() < len => return Ok(None)` (checked: same value of len, no update in between)', 1),
    (r'^<v5::codec::packet::pubacks::PublishAck2? as std::default::Default>::default$', 'unwrap', r'.*', 'PROVEN', 'NonZeroU16::new(1).unwrap() on a literal', 1),
    (r'^utils::decode_variable_length_cursor$', 'assert', r'^Overflow:(Shl|Add)$', 'VARINT', 'shift in {0,7,14,21} and the sum of four 7-bit groups < 2^28: established by the C02.varint rule', 3),
]


def graph(F):
    roots = [b.path for b in F.find(ROOTS)]
    if len(roots) != 3:
        raise AnchorLost('decoder roots (%d)' % len(roots))
    return roots, F.callgraph_from(roots)


def ub_operand(b, op, depth=0):
    """Upper bound of an unsigned operand by constants / type widths, or None."""
    v = const_val(op)
    if v is not None:
        return v
    p = op_place(op)
    if p is None or depth > 8:
        return None
    if place_proj(p):
        p = norm_place(b, p)
    if place_proj(p):
        vc = varint_component(b, p)
        if vc is not None:
            return vc
        rb_ = range_item_bound(b, p)
        if rb_ is not None:
            return rb_
        pj = list(place_proj(p))
        if len(pj) == 1 and isinstance(pj[0], dict) and str(pj[0].get('f')) == '0':
            dq_ = uniq_defs(b, p['l'])
            if len(dq_) == 1 and dq_[0][2] == 'assign' and dq_[0][3]['rv']['k'] == 'bin' and dq_[0][3]['rv']['op'] == 'AddWithOverflow':
                ua_, uc_ = ub_operand(b, dq_[0][3]['rv']['a'], depth + 1), ub_operand(b, dq_[0][3]['rv']['b'], depth + 1)
                return ua_ + uc_ if ua_ is not None and uc_ is not None else None
        # the payload of an Option / Result local that is assigned on several branches (`Some(a + b)` here, `None` there):
        # the largest payload of the definitions that build the variant read
        r = ub_variant_payload(b, p, depth)
        return None if r in (None, 'never') else r
    ty = b.local_ty(p['l'])
    width = {'u8': 8, 'u16': 16, 'u32': 32, 'u64': 64, 'usize': 64}.get(ty)
    best = (1 << width) - 1 if width else None
    ds = uniq_defs(b, p['l'])
    if len(ds) > 1 and best is not None:
        # `let mut len = base; if .. { len += c }`: every definition is a base value or one increment of the variable itself by
        # a constant, none of them inside a loop: bound = largest base + sum of the increments
        def add_of(d):
            if d[2] != 'assign':
                return None
            rv = d[3]['rv']
            if rv['k'] == 'bin' and rv['op'] in ('Add', 'AddWithOverflow'):
                return rv
            if rv['k'] == 'use':
                q = op_place(rv['op'])
                if q and [e for e in place_proj(q)] and len(place_proj(q)) == 1 and isinstance(place_proj(q)[0], dict) and str(place_proj(q)[0].get('f')) == '0':
                    dq = [x for x in b.whole_defs(q['l']) if x[0] in b.live]
                    if len(dq) == 1 and dq[0][2] == 'assign' and dq[0][3]['rv']['k'] == 'bin' and dq[0][3]['rv']['op'] == 'AddWithOverflow':
                        return dq[0][3]['rv']
            return None
        base, inc, okm = [], 0, True
        for d in ds:
            if d[0] in b.reachable_after(d[0]):
                okm = False
                break
            rv = add_of(d)
            selfinc = None
            if rv is not None:
                pa, pb = op_place(rv['a']), op_place(rv['b'])
                if pa and not place_proj(pa) and pa['l'] == p['l'] and const_val(rv['b']) is not None:
                    selfinc = const_val(rv['b'])
                elif pb and not place_proj(pb) and pb['l'] == p['l'] and const_val(rv['a']) is not None:
                    selfinc = const_val(rv['a'])
            if selfinc is not None:
                inc += selfinc
                continue
            if d[2] == 'assign' and rv is not None:
                ua, uc = ub_operand(b, rv['a'], depth + 1), ub_operand(b, rv['b'], depth + 1)
                if ua is None or uc is None:
                    okm = False
                    break
                base.append(ua + uc)
            elif d[2] == 'assign' and d[3]['rv']['k'] in ('use', 'cast'):
                u = ub_operand(b, d[3]['rv']['op'], depth + 1)
                if u is None:
                    okm = False
                    break
                base.append(u)
            else:
                okm = False
                break
        if okm and base:
            best = min(best, max(base) + inc)
        return best
    if len(ds) == 1:
        d = ds[0]
        if d[2] == 'assign':
            rv = d[3]['rv']
            q_ = op_place(rv['op']) if rv['k'] == 'use' else None
            if q_ is not None and place_proj(q_):
                q_ = norm_place(b, q_)
                if not place_proj(q_):
                    u_ = ub_operand(b, {'cp': q_}, depth + 1)
                    if u_ is not None:
                        best = u_ if best is None else min(best, u_)
                else:
                    lim_ = varint_component(b, q_)
                    if lim_ is not None:
                        best = lim_ if best is None else min(best, lim_)
            if q_ is not None and len(place_proj(q_)) == 1 and isinstance(place_proj(q_)[0], dict) and str(place_proj(q_)[0].get('f')) == '0':
                # result component of a checked addition: a + b
                dq_ = [x for x in b.whole_defs(q_['l']) if x[0] in b.live]
                if len(dq_) == 1 and dq_[0][2] == 'assign' and dq_[0][3]['rv']['k'] == 'bin' and dq_[0][3]['rv']['op'] == 'AddWithOverflow':
                    ua_, uc_ = ub_operand(b, dq_[0][3]['rv']['a'], depth + 1), ub_operand(b, dq_[0][3]['rv']['b'], depth + 1)
                    if ua_ is not None and uc_ is not None:
                        best = ua_ + uc_ if best is None else min(best, ua_ + uc_)
            if rv['k'] == 'use':
                u = ub_operand(b, rv['op'], depth + 1)
                if u is not None:
                    best = u if best is None else min(best, u)
            elif rv['k'] == 'cast':
                src = op_place(rv['op'])
                if src and not place_proj(src):
                    sw = {'u8': 8, 'u16': 16, 'u32': 32, 'bool': 1}.get(b.local_ty(src['l']))
                    u = ub_operand(b, rv['op'], depth + 1)
                    cand = u if u is not None else ((1 << sw) - 1 if sw else None)
                    if cand is not None:
                        best = cand if best is None else min(best, cand)
            elif rv['k'] == 'bin':
                if rv['op'] == 'BitAnd':
                    c = const_val(rv['b']) if const_val(rv['b']) is not None else const_val(rv['a'])
                    if c is not None:
                        best = c if best is None else min(best, c)
                elif rv['op'] == 'Shr':
                    u = ub_operand(b, rv['a'], depth + 1)
                    k = const_val(rv['b'])
                    if u is not None and k is not None:
                        best = min(best, u >> k) if best is not None else u >> k
                elif rv['op'] in ('Add', 'AddWithOverflow'):
                    ua, uc = ub_operand(b, rv['a'], depth + 1), ub_operand(b, rv['b'], depth + 1)
                    if ua is not None and uc is not None and best is not None:
                        best = min(best, ua + uc)
        elif d[2] == 'call':
            nm = callee_name(d[3]) or ''
            if re.search(r'::(len|remaining)$', nm):
                best = (1 << 63) - 1
            if nm.endswith('convert::From<u16>>::from') or nm.endswith('from_be_bytes') and ty == 'u16':
                best = 65535 if best is None else min(best, 65535)
            m_ = re.search(r'<impl std::convert::From<(u8|u16|u32)> for \w+>::from$', nm)
            if m_:
                u_ = ub_operand(b, d[3]['args'][0], depth + 1) if d[3].get('args') else None
                w_ = (1 << {'u8': 8, 'u16': 16, 'u32': 32}[m_.group(1)]) - 1
                best = min(x for x in (best, u_, w_) if x is not None)
    return best


def ub_variant_payload(b, p, depth):
    """Upper bound of `(x as V).0...` where x is assigned on several branches: over the definitions that build variant V
    ('never' when none does, None when a definition cannot be interpreted)."""
    proj = list(place_proj(p))
    if depth > 8 or not proj or not (isinstance(proj[0], dict) and 'd' in proj[0]):
        return None
    best = 'never'
    for d in uniq_defs(b, p['l']):
        if d[2] == 'call':
            nm = callee_name(d[3]) or ''
            if re.search(r'::from_residual$', nm) and proj[0]['d'] in ('Ok', 'Some'):
                continue        # `?` re-raising: builds Err / None
            # the result of a function of the crate: the same component of what that function returns
            tg = [q_ for q_ in b.facts.call_targets(d[3], expand_traits=False) if q_ in b.facts.bodies] if getattr(b, 'facts', None) else []
            if len(tg) == 1 and depth < 6 and not b.facts.bodies[tg[0]].is_coroutine:
                r = ub_variant_payload(b.facts.bodies[tg[0]], {'l': 0, 'p': proj}, depth + 2)
                if r is None:
                    return None
                if r != 'never':
                    best = r if best == 'never' else max(best, r)
                continue
            return None
        rv = d[3]['rv']
        src = rv
        if rv['k'] == 'use' and op_place(rv['op']) is not None and not place_proj(op_place(rv['op'])):
            d2 = uniq_defs(b, op_place(rv['op'])['l'])
            if len(d2) != 1 or d2[0][2] != 'assign':
                r = ub_variant_payload(b, {'l': op_place(rv['op'])['l'], 'p': proj}, depth + 1)
                if r is None:
                    return None
                if r != 'never':
                    best = r if best == 'never' else max(best, r)
                continue
            src = d2[0][3]['rv']
        if src['k'] != 'agg' or src.get('agg') != 'adt':
            return None
        if src.get('variant') != proj[0]['d']:
            continue
        if len(proj) < 2 or not src.get('fields'):
            return None
        fop = src['fields'][0]
        q = op_place(fop)
        if q is None:
            u = const_val(fop) if len(proj) == 2 else None
        else:
            np_ = norm_place(b, {'l': q['l'], 'p': list(place_proj(q)) + proj[2:]})
            if place_proj(np_):
                u = ub_variant_payload(b, np_, depth + 1)
                if u is None:
                    u = ub_operand(b, {'cp': np_}, depth + 1)
            else:
                u = ub_operand(b, {'cp': np_}, depth + 1)
        if u is None:
            return None
        if u != 'never':
            best = u if best == 'never' else max(best, u)
    return best


def varint_component(b, q_):
    """A component of the value decode_variable_length() returned: (value < 2^28, bytes consumed <= 4) - C02.varint."""
    flds = [e for e in place_proj(q_) if isinstance(e, dict) and 'f' in e]
    og_ = Origin(b, transparent=re.compile(TRANSPARENT_CALLS.pattern[:-2] + r'|branch)$')).of_operand({'cp': {'l': q_['l']}})
    calls_ = {l[1] for l in og_ if l[0] == 'call' and not re.search(r'::branch$', l[1] or '')}
    if len(flds) >= 2 and calls_ and all(re.search(r'^utils::decode_variable_length$', c_ or '') for c_ in calls_) and not any(l[0] not in ('call',) for l in og_):
        return {'0': 0x0FFFFFFF, '1': 4}.get(str(flds[-1]['f']))
    return None


def range_item_bound(b, p):
    """`(it.next() as Some).0` for `it = (a..b).into_iter()` with constant bounds: at most b - 1."""
    pj = list(place_proj(p))
    if len(pj) != 2 or not (isinstance(pj[0], dict) and pj[0].get('d') == 'Some'):
        return None
    ds = uniq_defs(b, p['l'])
    if len(ds) != 1 or ds[0][2] != 'call' or not re.search(r'Range<.*>.*::next$', callee_name(ds[0][3]) or ''):
        return None
    og = Origin(b, transparent=re.compile(TRANSPARENT_CALLS.pattern[:-2] + r'|into_iter)$')).of_operand(ds[0][3]['args'][0])
    hi = None
    for l in og:
        if l[0] == 'agg' and l[1].startswith('std::ops::Range') and isinstance(l[2], int):
            for st in b.blocks[l[2]]['stmts']:
                if st['k'] == 'assign' and st['rv']['k'] == 'agg' and (st['rv'].get('adt') or '').startswith('std::ops::Range'):
                    names = st['rv'].get('names') or []
                    if 'end' in names:
                        v = ub_operand(b, st['rv']['fields'][names.index('end')], 1)
                        hi = v if hi is None else max(hi, v) if v is not None else None
    return hi - 1 if hi else None


def mul_bounded(b, site):
    t = site['term']
    if t.get('msg') != 'Overflow' or t.get('op') != 'Mul':
        return False
    p = op_place(t['a']) or op_place(t['b'])
    ty = b.local_ty(p['l']) if p and not place_proj(p) else None
    width = {'u8': 8, 'u16': 16, 'u32': 32, 'u64': 64, 'usize': 64}.get(ty)
    if not width:
        return False
    ua, uc = ub_operand(b, t['a']), ub_operand(b, t['b'])
    return ua is not None and uc is not None and ua * uc <= (1 << width) - 1 and ua < (1 << width) - 1 and uc < (1 << width) - 1


def add_bounded(b, site):
    t = site['term']
    if t.get('msg') != 'Overflow' or t['op'] != 'Add':
        return False
    p = op_place(t['a']) or op_place(t['b'])
    ty = b.local_ty(p['l']) if p and not place_proj(p) else None
    width = {'u8': 8, 'u16': 16, 'u32': 32, 'u64': 64, 'usize': 64}.get(ty)
    if not width:
        return False
    ua, uc = ub_operand(b, t['a']), ub_operand(b, t['b'])
    return ua is not None and uc is not None and ua + uc <= (1 << width) - 1 and (ua < (1 << width) - 1) and (uc < (1 << width) - 1)


def _mentions(x, l):
    if isinstance(x, dict):
        if x.get('l') == l and ('p' in x or set(x) <= {'l', 'p'}):
            return True
        return any(_mentions(v, l) for v in x.values())
    if isinstance(x, list):
        return any(_mentions(v, l) for v in x)
    return False


def shrunk_copy_sub(F, b, site):
    """`x.len() - y.len()` where `y` is a `&[u8]` that starts as a copy of the slice `x` and is afterwards only handed, by
    `&mut`, to functions that are generic over the buffer (`fn f<B>(src: &mut B)`): such a function can change `y` only
    through the trait methods of B, and every `Buf` method of `&[u8]` drops bytes from the front - `y` is a suffix of `x`,
    so the difference cannot underflow. `x` itself must never be written or mutably borrowed."""
    t = site['term']
    if t.get('msg') != 'Overflow' or t.get('op') != 'Sub':
        return False
    bases = []
    for op in (t['a'], t['b']):
        p = op_place(op)
        if p is None or place_proj(p):
            return False
        ds = uniq_defs(b, p['l'])
        if len(ds) != 1 or ds[0][2] != 'call' or not re.search(r'slice::<impl \[T\]>::len$', callee_name(ds[0][3]) or '') or not ds[0][3]['args']:
            return False
        q = op_place(ds[0][3]['args'][0])
        if q is None:
            return False
        q = norm_place(b, {'l': q['l'], 'p': list(place_proj(q)) + ['*']})
        if place_proj(q) != ['*'] or (b.local_ty(q['l']) or '') != '&[u8]':
            return False
        bases.append(q['l'])
    x, y = bases
    dy = uniq_defs(b, y)
    if x == y or len(dy) != 1 or dy[0][2] != 'assign' or dy[0][3]['rv']['k'] != 'use' or (op_place(dy[0][3]['rv']['op']) or {}).get('l') != x or place_proj(op_place(dy[0][3]['rv']['op'])):
        return False
    if [d for d in b.whole_defs(x) if d[0] in b.live] and not (1 <= x <= b.argc):
        return False
    if 1 <= x <= b.argc and [d for d in b.whole_defs(x) if d[0] in b.live]:
        return False
    # mutable borrows of x: none; of y: only into buffer-generic callees
    muts = set()
    for bi, j, st in b.assigns():
        rv = st['rv']
        if rv['k'] in ('ref', 'rawptr') and rv.get('mut', True):
            base = rv['place']['l']
            if base == x:
                return False
            if base == y and not place_proj(rv['place']):
                muts.add(st['lhs']['l'])
            elif base == y:
                return False  # `&mut (*y)[..]`: the bytes, not the slice - not possible for &[u8], refuse anyway
    for _ in range(6):
        for bi, j, st in b.assigns():
            rv = st['rv']
            src = rv['place']['l'] if rv['k'] == 'ref' else (op_place(rv.get('op')) or {}).get('l') if rv['k'] == 'use' else None
            if src in muts and not place_proj(st['lhs']):
                muts.add(st['lhs']['l'])
    for bi, j, st in b.assigns():
        if place_proj(st['lhs']) and (st['lhs']['l'] in muts or st['lhs']['l'] in (x, y)):
            return False  # a store through the reference / into the slice variable
        rv = st['rv']
        if any(_mentions(rv, m) for m in muts) and not (rv['k'] in ('ref', 'use') and not place_proj(st['lhs'])):
            return False
    for bi, t2 in b.calls():
        for ai, a in enumerate(t2['args']):
            q = op_place(a)
            if q is None or q['l'] not in muts:
                continue
            nm = callee_name(t2) or ''
            cb = F.bodies.get(nm)
            ok = cb is not None and ai < cb.argc and re.fullmatch(r'&mut [A-Z]\w*', cb.local_ty(ai + 1) or '') and (cb.local_ty(ai + 1) or '')[5:] in (cb.d.get('generics') or [])
            ok = ok or re.search(r"^<&(?:'\w+ )?\[u8\] as ntex_bytes::Buf>::", nm) is not None
            if not ok:
                return False
    return True


def nopanic(F, R, cg):
    import c16
    used = defaultdict(int)
    n = 0
    n_cons = 0
    for p in sorted(cg):
        b = F.bodies[p]
        proofs = bufflow.BufFlow(b).run() if any(bufflow.consume_kind(callee_name(t) or '') for bi, t in b.calls()) else {}
        cons_sites = []
        for bi, t in b.calls():
            ck = bufflow.consume_kind(callee_name(t) or '')
            if ck:
                cons_sites.append(dict(kind='consume', what=ck, block=bi, loc=b.loc(bi), term=t))
        per = defaultdict(int)
        for s in cons_sites + [x for x in panics.sites(b) if x['kind'] != 'borrow']:
            n += 1
            key = '%s|%s|%s' % (p, s['kind'], s['what'])
            per[key] += 1
            if per[key] > 1:
                key += '#%d' % per[key]
            if s['kind'] == 'consume':
                n_cons += 1
                ok, why = proofs.get(s['block'], (False, 'no dataflow result'))
                if ok:
                    R.ob('C02.nopanic', key, True, 'PROVEN by the available-bytes dataflow: %s' % why, s['loc'], status='proven')
                    continue
            if s['kind'] == 'assert' and (c16.guarded_arith(b, s) or add_bounded(b, s) or mul_bounded(b, s)):
                R.ob('C02.nopanic', key, True, 'PROVEN: dominating guard / constant shift / operands bounded by their source types', s['loc'], status='proven')
                continue
            if s['kind'] == 'assert' and shrunk_copy_sub(F, b, s):
                R.ob('C02.nopanic', key, True, 'PROVEN: length of a slice minus the length of a suffix of it (a copy only advanced through a buffer-generic callee)', s['loc'], status='proven')
                continue
            if s['kind'] == 'unwrap' and c16.const_unwrap(b, s):
                R.ob('C02.nopanic', key, True, 'PROVEN: unwrap of NonZero::new(non-zero literal)', s['loc'], status='proven')
                continue
            ent = None
            # a reviewed site that moved into a closure of its function (`opt.map(|x| a + x)`) is still that site
            ptop = re.sub(r'(::\{(closure|inl)#\d+\})+$', '', p)
            for i, (fre, kre, wre, cls, reason, cnt) in enumerate(TABLE):
                if (re.search(fre, p) or re.search(fre, ptop)) and re.fullmatch(kre, s['kind']) and re.search(wre, s['what']):
                    ent = (i, cls, reason, cnt)
                    break
            if ent is None:
                R.ob('C02.nopanic', key, False, 'panic-capable site in the decoder call graph (%s) is neither proven nor reviewed: %s %s%s' % (
                    ' <- '.join(F.chain(cg, p)[-3:]), s['kind'], s['what'], (' (%s)' % proofs[s['block']][1]) if s['kind'] == 'consume' and s['block'] in proofs else ''), s['loc'])
                continue
            i, cls, reason, cnt = ent
            used[(i, ptop)] += 1
            if used[(i, ptop)] > cnt:
                R.ob('C02.nopanic', key + '|extra', False, 'more sites of this shape than reviewed (%d > %d): %s' % (used[(i, ptop)], cnt, reason), s['loc'])
                continue
            if cls == 'GUARDED-INDEX':
                ok, why_ = guarded_index(b, s)
                R.ob('C02.nopanic', key, ok, ('PROVEN (guarded index): ' if ok else 'the slice start is not covered by a length test of the same value: ') + why_ + ' - ' + reason, s['loc'], status='proven' if ok else None)
            elif cls == 'MIN-IDIOM':
                ok = min_idiom(b, s)
                R.ob('C02.nopanic', key, ok, ('PROVEN (min idiom): ' if ok else 'min idiom not found: ') + reason, s['loc'], status='proven' if ok else None)
            elif cls == 'VARINT':
                R.ob('C02.nopanic', key, True, 'DISCHARGED by C02.varint: ' + reason, s['loc'], status='discharged-by-rule')
            else:
                R.ob('C02.nopanic', key, True, '%s: %s' % (cls, reason), s['loc'], status=cls.lower())
                if cls == 'DERIVED':
                    R.assume('%s %s: %s' % (p, s['what'], reason))
    R.floor('C02.nopanic', 'sites examined', n, 80)
    R.floor('C02.nopanic', 'buffer-consuming calls', n_cons, 40)


def _base_local(b, op, depth=0):
    """The variable an operand's value is read from, through casts and plain copies of single-definition temporaries."""
    p = op_place(op)
    while p is not None and not place_proj(p) and depth < 8:
        ds = [d for d in b.whole_defs(p['l']) if d[0] in b.live]
        if len(ds) == 1 and ds[0][2] == 'assign' and ds[0][3]['rv']['k'] in ('use', 'cast') and op_place(ds[0][3]['rv']['op']) is not None and not b.local_name(p['l']):
            p = op_place(ds[0][3]['rv']['op'])
            depth += 1
        else:
            break
    return p['l'] if p is not None and not place_proj(p) else None


def guarded_index(b, site):
    """`&buf[start..]`: a dominating test `buf.remaining()/len() < start` (taken on its false edge) uses the same variable as
    the slice start, and that variable is not assigned on any path between the test and the slice."""
    t = site['term']
    rng = op_place(t['args'][1]) if len(t['args']) > 1 else None
    start_op = None
    for d in (b.whole_defs(rng['l']) if rng else []):
        if d[2] == 'assign' and d[3]['rv']['k'] == 'agg' and 'Range' in (d[3]['rv'].get('adt') or '') and d[3]['rv']['fields']:
            start_op = d[3]['rv']['fields'][0]
    if start_op is None:
        return False, 'range start not found'
    base = _base_local(b, start_op)
    if base is None:
        return False, 'range start is not a plain variable'
    for xb, j, st in b.assigns():
        rv = st['rv']
        if rv['k'] != 'bin' or rv['op'] not in ('Lt', 'Ge', 'Gt', 'Le'):
            continue
        sides = [(rv['a'], rv['b']), (rv['b'], rv['a'])]
        for k_, (x, y) in enumerate(sides):
            if _base_local(b, y) != base:
                continue
            og = Origin(b).of_operand(x)
            if not any(l[0] == 'call' and re.search(r'::(remaining|len)$', l[1] or '') for l in og):
                continue
            r = bool_branch(b, xb, st['lhs']['l'])
            if not r:
                continue
            _, tt, ft = r
            # edge on which  avail >= start  holds
            op = rv['op']
            if k_ == 0:   # avail <op> start
                good = {'Lt': ft, 'Ge': tt, 'Gt': None, 'Le': None}[op]
            else:         # start <op> avail
                good = {'Gt': ft, 'Le': tt, 'Lt': None, 'Ge': None}[op]
            if good is None or not edge_dominates(b, xb, good, site['block']):
                continue
            between = b.reachable(good)
            redef = [d for d in b.whole_defs(base) if d[0] in between and site['block'] in b.reachable(d[0]) and d[0] != site['block']]
            if redef:
                return False, 'the variable is updated at %s between the length test and the slice' % b.loc(redef[0][0])
            return True, 'length test at %s' % b.loc(xb)
    return False, 'no dominating `remaining() < start` test of the slice start variable'


def min_idiom(b, s):
    """Sub(x, len(payload)) where payload = split_to(min(len(src), x as usize))"""
    t = s['term']
    xk = bufflow.val_key(b, t['a'])
    # rhs: cast of payload.len()
    og = Origin(b).of_operand(t['b'])
    lens = [l for l in og if l[0] == 'call' and l[1].endswith('::len')]
    for l in lens:
        lt = b.blocks[l[2]]['term']
        ap = apath(b, lt['args'][0])
        if ap and any(x.endswith('split_to') for x in ap if x.startswith('call:')):
            # find that split_to call and its min argument
            for bi, st in b.calls_to(r'::split_to$'):
                if st['dest']['l'] == (op_place(lt['args'][0]) or {}).get('l') or True:
                    mo = Origin(b).of_operand(st['args'][1])
                    for m in mo:
                        if m[0] == 'call' and m[1].endswith('cmp::min'):
                            mt = b.blocks[m[2]]['term']
                            keys = [bufflow.val_key(b, a) for a in mt['args']]
                            if xk in keys or any(k == xk for k in keys):
                                return True
                            # x cast to usize: compare origins
                            for a in mt['args']:
                                if bufflow.val_key(b, a) == xk:
                                    return True
                                oa = Origin(b).of_operand(a)
                                ox = Origin(b).of_operand(t['a'])
                                if {x for x in oa if x[0] in ('arg', 'call', 'field')} & {x for x in ox if x[0] in ('arg', 'call', 'field')}:
                                    return True
    return False


def _subterms(t):
    out = []
    st = [t]
    while st:
        x = st.pop()
        if isinstance(x, tuple):
            out.append(x)
            st.extend(y for y in x if isinstance(y, (tuple, dict)))
        elif isinstance(x, dict):
            st.extend(x.values())
    return out


def varint(F, R):
    b = F.one(r'^utils::decode_variable_length_cursor$')
    se = SymEx(b, F, loop_visits=8, max_paths=4000,
               call_model=lambda nm, args, t, path: ('const', 1, 'bool') if nm.endswith('has_remaining') else None)
    paths = se.run()
    oks = [p for p in paths if p.end[0] == 'return' and p.ret and p.ret[0] == 'agg' and p.ret[2] == 'Ok']
    reads = [sum(1 for nm, a, bi in p.calls if nm.endswith('get_u8')) for p in oks]
    R.ob('C02.varint', 'decode_variable_length_cursor|paths', bool(oks) and not se.truncated, '%d successful paths' % len(oks))
    R.ob('C02.varint', 'decode_variable_length_cursor|at most 4 bytes', bool(reads) and max(reads) == 4 and min(reads) == 1,
         'a variable byte integer is accepted with %s bytes (MQTT: 1..4); a fifth byte lets values up to 2^35 through and makes later length arithmetic overflow' % sorted(set(reads)))
    # maximal value: every byte contributes (v & 0x7f) << shift with constant shift
    shifts = set()
    for p in oks:
        for t, c in p.conds:
            pass
    for bi, j, s in b.assigns():
        if s['rv']['k'] == 'bin' and s['rv']['op'] in ('Shl', 'ShlWithOverflow'):
            shifts.add(j)
    # value: byte k contributes (b & 0x7f) << 7k - the returned expression of every accepting path is evaluated for sample bytes
    def evv(t, env):
        k = t[0]
        if k == 'const':
            return t[1]
        if k in ('cast', 'ref', 'deref'):
            return evv(t[1], env)
        if k == 'call' and t[1].endswith('get_u8'):
            return env[t]
        if k == 'un' and t[1] == 'Not' and t[2][0] == 'const' and len(t[2]) > 2 and t[2][2] in ('u8', 'u16', 'u32', 'bool'):
            return (~t[2][1]) & {'u8': 0xFF, 'u16': 0xFFFF, 'u32': 0xFFFFFFFF, 'bool': 1}[t[2][2]]
        if k == 'bin':
            a, c = evv(t[2], env), evv(t[3], env)
            return {'Add': a + c, 'Shl': a << c, 'BitAnd': a & c, 'BitOr': a | c, 'Mul': a * c, 'Sub': a - c}[t[1]]
        if k == 'field' and t[1][0] == 'tuple' and t[2] == '0':
            return evv(t[1][1][0], env)
        if k == 'agg' and t[2] in ('Ok', 'Some'):
            return evv(t[3]['0'], env)
        raise KeyError(str(t)[:80])
    badv = None
    nval = 0
    for p in oks:
        reads_ = [('call', nm, tuple(a) if isinstance(a, list) else a, bi) for nm, a, bi in p.calls if nm.endswith('get_u8')]
        n_ = len(reads_)
        for last in (0x00, 0x01, 0x7F):
            for fill in (0x80, 0xFF, 0xAA):
                bytes_ = [fill] * (n_ - 1) + [last]
                want = sum((x & 0x7F) << (7 * i) for i, x in enumerate(bytes_))
                terms = [t for t in _subterms(p.ret) if t[0] == 'call' and t[1].endswith('get_u8')]
                uniq = []
                for t in terms:
                    if t not in uniq:
                        uniq.append(t)
                if len(uniq) != n_:
                    badv = badv or 'cannot relate the returned expression to the %d bytes read' % n_
                    continue
                # the reads appear in the expression in some order: try the order of first appearance, innermost first
                got = None
                for order in (uniq, uniq[::-1]):
                    try:
                        got = evv(p.ret, dict(zip(order, bytes_)))
                    except Exception as ex:
                        got = None
                        badv = badv or 'cannot evaluate the returned expression (%s)' % ex
                        break
                    if got == want:
                        break
                nval += 1
                if got is not None and got != want:
                    badv = badv or 'bytes %s decode to %d, the specification says %d' % (['0x%02X' % x for x in bytes_], got, want)
    if badv and badv.startswith('cannot'):
        R.undecided('C02.varint', 'decode_variable_length_cursor|value==sum((b&0x7f)<<7k)', badv, b.loc(0))
    else:
        R.ob('C02.varint', 'decode_variable_length_cursor|value==sum((b&0x7f)<<7k)', badv is None and nval >= 9, badv or 'evaluated %d samples' % nval)
    R.ob('C02.varint', 'decode_variable_length_cursor|continuation rejected after 4th byte', any(p.end[0] == 'return' and p.ret and p.ret[0] == 'agg' and p.ret[2] == 'Err' and sum(1 for nm, a, bi in p.calls if nm.endswith('get_u8')) == 4 for p in paths),
         'a fourth byte with the continuation bit must end in an error')


def is_max_cmp(F, b, bi, j, s):
    rv = s['rv']
    if rv['k'] != 'bin' or rv['op'] not in ('Lt', 'Gt', 'Le', 'Ge', 'Ne', 'Eq'):
        return False
    for o in (rv['a'], rv['b']):
        ap = apath(b, o)
        if ap and any(x in ('max_size', 'max_in_size') for x in ap):
            return True
    return False


def max_size(F, R):
    for ver in ('v3', 'v5'):
        b = F.one(r'^<%s::codec::codec::Codec as ntex_codec::Decoder>::decode$' % ver)
        st = '%s::codec::codec::DecodeState' % ver
        ve = variant_edges(F, b, st)
        fh = arm_region(b, ve.get('FrameHeader', []))
        if not fh:
            raise AnchorLost('%s decode: FrameHeader arm' % ver)
        checks = {bi for bi, j, s in b.assigns() if bi in fh and is_max_cmp(F, b, bi, j, s)}
        # helper functions containing the comparison
        for bi, t in b.calls():
            if bi in fh:
                for q in F.call_targets(t):
                    qb = F.bodies.get(q)
                    if qb is not None and any(is_max_cmp(F, qb, x, j, s) for x, j, s in qb.assigns()):
                        checks.add(bi)
        R.ob('C02.max-size', '%s|FrameHeader|compares with the inbound maximum' % ver, bool(checks), 'no comparison with max_size / max_in_size in the FrameHeader arm')
        targets = []
        for bi, t in b.calls():
            if bi in fh and bufflow.consume_kind(callee_name(t) or ''):
                targets.append((bi, 'consumes the fixed header'))
            if bi in fh and (callee_name(t) or '').endswith('BytesMut::reserve'):
                targets.append((bi, 'reserves the frame buffer'))
            if bi in fh and (callee_name(t) or '').endswith('Cell::<T>::set') and (call_recv_path(b, t, 0) or ('',))[-1] == 'state':
                targets.append((bi, 'leaves the FrameHeader state'))
        R.floor('C02.max-size', '%s state changes / consumptions in FrameHeader' % ver, len(targets), 3)
        for k, (bi, what) in enumerate(targets):
            ok = bool(checks) and b.must_pass(checks, bi, start=min(fh))
            # must_pass from function entry is the safe formulation
            ok = bool(checks) and all(bi not in b.reachable(0, avoid=checks) for _ in [0])
            R.ob('C02.max-size', '%s|FrameHeader|%s#%d|after-max-size-test' % (ver, what, k + 1), ok,
                 'the decoder %s on a path that never compared the Remaining Length with the configured inbound maximum: an oversized frame is accepted/buffered' % what, b.loc(bi))
        # once the Remaining Length is known to exceed the maximum nothing but the error may follow
        for bi, j, st_ in b.assigns():
            if bi in fh and is_max_cmp(F, b, bi, j, st_) and st_['rv']['op'] in ('Lt', 'Gt', 'Le', 'Ge'):
                rv = st_['rv']
                a_is_max = any(x in ('max_size', 'max_in_size') for x in (apath(b, rv['a']) or ()))
                r = bool_branch(b, bi, st_['lhs']['l'])
                if not r:
                    continue
                _, tt, ft = r
                over = tt if ((rv['op'] in ('Lt', 'Le')) == a_is_max) else ft
                under = ft if over == tt else tt
                oreg = b.reachable(over, avoid=[under])
                leak = [x for x, what in targets if x in oreg]
                R.ob('C02.max-size', '%s|FrameHeader|over-size-edge=>only-error' % ver, not leak,
                     'after the Remaining Length was found to exceed the inbound maximum the decoder can still consume/advance state (an extra condition weakens the limit)', b.loc(leak[0]) if leak else None)
        errs = [bi for bi, j, s in agg_sites(b, r'^error::DecodeError$', 'MaxSizeExceeded')]
        fam_err = bool(errs) or any(agg_sites(F.bodies[q], r'^error::DecodeError$', 'MaxSizeExceeded') for bi, t in b.calls() if bi in fh for q in F.call_targets(t) if q in F.bodies)
        R.ob('C02.max-size', '%s|over-size=>MaxSizeExceeded' % ver, fam_err, 'the over-size edge does not produce DecodeError::MaxSizeExceeded')


def reject(F, R, cg):
    loops = propschema.property_loops(F)
    R.floor('C02.reject', 'property loops', len(loops), 9)
    spec = __import__('json').load(open(os.path.join(os.path.dirname(os.path.dirname(os.path.abspath(__file__))), 'spec', 'mqtt5_tables.json')))
    for b, sb, table, oth in loops:
        pk = propschema.packet_of(b.path)
        R.ob('C02.reject', '%s|unknown-property=>Err' % pk, oth['err'] and not oth['ok'] and not oth['loops_back'],
             'the fall-through arm of the %s property loop does not end in an error (err=%s ok=%s loops_back=%s): unknown properties would be skipped/accepted' % (pk, oth['err'], oth['ok'], oth['loops_back']), b.loc(sb))
        for pid, info in sorted(table.items()):
            sp = spec['properties'].get(str(pid))
            may_repeat = sp is not None and (sp.get('repeat_in') == 'all' or pk in (sp.get('repeat_in') or []))
            if may_repeat:
                continue
            R.ob('C02.reject', '%s|0x%02X|once-only' % (pk, pid), info['once'] and not info['repeat'],
                 'property 0x%02X may appear at most once in %s but is not decoded through the duplicate-rejecting path (read_value / is_none guard)' % (pid, pk), b.loc(sb))
    rv = F.one(r'^<std::option::Option<T> as utils::Property>::read_value$')
    isn = [(bi, t) for bi, t in rv.calls_to(r'Option::<T>::(is_none|is_some)$')]
    ok = False
    for bi, t in isn:
        r = call_bool_branch(rv, bi)
        if r and r[0] != 'discr':
            # the edge on which the property is already set: is_some() true / is_none() false
            set_edge, unset_edge = (r[1], r[2]) if (callee_name(t) or '').endswith('is_some') else (r[2], r[1])
            freg = rv.reachable(set_edge, avoid=[unset_edge])
            ok = any(x in freg for x, j, s in agg_sites(rv, r'^std::result::Result$', 'Err')) and not any(x in freg for x, t2 in rv.calls() if 'Decode' in (callee_name(t2) or ''))
    R.ob('C02.reject', 'Option::read_value|duplicate=>Err', ok, 'read_value must refuse a property that is already set')
    # no transmute / unchecked constructors reachable
    bad = []
    for p in cg:
        for bi, t in F.bodies[p].calls():
            nm = callee_name(t) or ''
            if re.search(r'intrinsics::transmute$|from_bytes_unchecked$|from_utf8_unchecked$|get_unchecked', nm):
                bad.append('%s -> %s' % (p, nm.split('::')[-1]))
    R.ob('C02.reject', 'decoders|no-transmute-or-unchecked-constructors', not bad, 'unchecked conversions reachable from the decoders: %s' % bad[:4])
    pos = [b.path for b in F.bodies.values() if any(True for _ in b.calls_to(r'from_bytes_unchecked$'))]
    R.ob('C02.reject', 'positive-example|from_bytes_unchecked exists outside the decoders', bool(pos) and not any(p in cg for p in pos), 'the zero-count rule above is kept honest by %s' % pos[:2])
    # identifiers that must not be 0 on the wire (packet ids, subscription ids): a NonZero built from decoded bytes
    # has its zero case turned into an error (`.ok_or(..)`), it is never kept as a silent `None`
    nz = 0
    for p in cg:
        b = F.bodies[p]
        for bi, t in b.calls_to(r'^std::num::NonZero::<u(16|32)>::new$|^core::num::nonzero::NonZero::<u(16|32)>::new$|NonZero::<T>::new$|NonZeroU(16|32)::new$'):
            a0 = t['args'][0] if t['args'] else None
            if a0 is None or op_const(a0) is not None:
                continue  # constant
            nz += 1
            dl = t['dest']['l']
            used_ok = False
            for xb, xt in b.calls():
                nm = callee_name(xt) or ''
                if re.search(r'Option::<T>::(ok_or|ok_or_else|expect|unwrap)$', nm) and xt['args']:
                    pl = op_place(xt['args'][0])
                    if pl is not None and (pl['l'] == dl or any(l_[0] == 'call' and l_[2] == bi for l_ in Origin(b).of_operand(xt['args'][0]))):
                        used_ok = True
            if not used_ok:
                # `match NonZero::new(v) { Some(x) => .., None => return Err(..) }`
                r = discr_switch_after_call(b, bi)
                if r:
                    sb_, tg, oth = r
                    none_t = tg.get(0, oth)
                    some_t = tg.get(1, oth)
                    reg = b.reachable(none_t, avoid=[some_t])
                    used_ok = any(x in reg for x, j, s_ in agg_sites(b, r'^std::result::Result$', 'Err')) and not any(x in reg for x, j, s_ in agg_sites(b, r'^std::result::Result$', 'Ok'))
            R.ob('C02.reject', '%s|NonZero::new|zero=>Err' % p, used_ok,
                 'a wire value that must not be 0 (packet identifier / subscription identifier) is turned into Option by NonZero::new without mapping 0 to an error: the malformed packet is accepted with the field silently absent', b.loc(bi))
    R.floor('C02.reject', 'NonZero constructions from decoded values', nz, 1)
    # enums decoded through TryFrom<u8>: otherwise arm is Err
    n = 0
    for b in F.find(r'^<(types::QoS|v[35]::codec::packet::.*(Reason|ReasonCode|RetainHandling)) as std::convert::TryFrom<u8>>::try_from$'):
        n += 1
        ok = False
        for swb in sorted(b.live):
            t = b.blocks[swb]['term']
            if t['k'] == 'switch' and len(t['targets']) >= 2:
                oth = b.reachable(t['otherwise'], avoid=[x for _, x in t['targets']])
                ok = any(x in oth for x, j, s in agg_sites(b, r'^std::result::Result$', 'Err')) and not any(x in oth for x, j, s in agg_sites(b, r'^std::result::Result$', 'Ok'))
                if not ok:
                    # table in an Option-returning helper: `from_wire(v).ok_or(MalformedPacket)` - the fall-through arm yields None
                    # (and nothing else), and the function's result is that Option turned into a Result by ok_or / ok_or_else
                    nones = [x for x, j, s in agg_sites(b, r'^std::option::Option$', 'None') if x in oth]
                    somes = [x for x, j, s in agg_sites(b, r'^std::option::Option$', 'Some') if x in oth]
                    conv = [xb for xb, xt in b.calls_to(r'Option::<T>::(ok_or|ok_or_else)$')
                            if any(l[0] == 'agg' and l[1] == 'std::option::Option::None' and l[2] in nones for l in Origin(b).of_operand(xt['args'][0]))
                            and any(l[0] == 'call' and l[2] == xb for l in Origin(b).of_operand({'mv': {'l': 0, 'p': []}}))]
                    ok = bool(nones) and not somes and bool(conv) and not any(x in oth for x, j, s in agg_sites(b, r'^std::result::Result$', 'Ok'))
        R.ob('C02.reject', '%s|unknown-value=>Err' % b.path.split(' as ')[0].lstrip('<'), ok, 'the generated TryFrom<u8> accepts values that are not discriminants')
    R.floor('C02.reject', 'prim_enum TryFrom impls', n, 9)


def frame_exhausted(F, R):
    """Every first-byte arm of both decode_packet functions returns Ok only with the frame buffer known
    empty (rules/exhaust.py): a frame whose content is shorter than its Remaining Length is an error."""
    import exhaust, json as _json
    base = os.path.dirname(os.path.dirname(os.path.abspath(__file__)))
    n = 0
    for ver, specf in (('v5', 'mqtt5_tables.json'), ('v3', 'mqtt311_tables.json')):
        spec = _json.load(open(os.path.join(base, 'spec', specf)))
        names = {v: k for k, v in spec['packet_types'].items()}
        for name, ok, loc, oks in exhaust.per_arm(F, ver, names):
            n += 1
            R.ob('C02.frame-exhausted', '%s|%s|Ok-only-when-the-whole-frame-was-read' % (ver, name), ok,
                 'this packet is accepted although bytes of its frame are left over (inner lengths contradict the Remaining Length): no emptiness test dominates the Ok result after the last read', loc)
    R.floor('C02.frame-exhausted', 'decode_packet arms', n, 27)


def frame_confinement(F, R, cg):
    n = 0
    for b in F.bodies.values():
        if b.kind == 'Promoted':
            continue
        for bi, t in b.calls():
            ck = bufflow.consume_kind(callee_name(t) or '')
            if not ck:
                continue
            a0 = op_place(t['args'][0])
            ty = b.local_ty(a0['l']) if a0 and not place_proj(a0) else ''
            if 'BytesMut' in ty:
                n += 1
                ok = re.match(r'^<v[35]::codec::codec::Codec as ntex_codec::Decoder>::decode$', b.path) is not None
                R.ob('C02.frame-confinement', '%s|%s(BytesMut)' % (b.path, ck), ok, 'the receive buffer is consumed outside Codec::decode: bytes beyond the reported frame can be lost', b.loc(bi))
    R.floor('C02.frame-confinement', 'consuming calls on the receive buffer', n, 8)


def run(F, R):
    roots, cg = graph(F)
    R.counts['C02:decoder call graph bodies'] = len(cg)
    nopanic(F, R, cg)
    varint(F, R)
    max_size(F, R)
    reject(F, R, cg)
    frame_exhausted(F, R)
    frame_confinement(F, R, cg)
