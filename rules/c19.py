"""C19 (structural part): gate: MqttHandler::call creates the control/handler services and the
dispatcher only on the Ok edge of the handshake; both HandshakeService::call return a session only
from the CONNECT arm on the `ack.session == Some` edge, every other arm ends in Err, and on the
refusal edge the CONNACK is written before the Err; version-route: the combined server hands
MQTT3 to handlers.0 and MQTT5 to handlers.1, detection uses the retrying recv when the buffer does not
yet hold the level, VersionCodec maps level 4/5 by value and never consumes bytes; each protocol's
CONNECT decoder refuses the other level; limits: every negotiated limit (keep-alive, announced
keep-alive, inbound/outbound maximum packet size, maximum QoS, topic alias maximum, receive maximum,
send window) flows from its negotiated source to the setter that enforces it on the accept path.
Behaviour for every fragmentation and the numeric 1.5 factor are not decided. limits (continued): a limit announced in CONNACK that was pre-set from the configuration is overwritten unconditionally (None = no limit); the v5 client uses the CONNACK Server Keep Alive as is (not combined with its own value). limits (continued): the value handed to an enforcing setter is the negotiated field itself, not a combination (min/max/arithmetic) with another value - except the send window, which is a minimum by definition (C05). limits (continued): set_receive_max, set_topic_alias_max, v5 set_max_inbound_size and v3 set_max_size store the value they are given, unchanged, on every path.
"""
from facts import *
from disp import agg_sites
from symex import SymEx, term_str_v, term_has, derived_eq_model

HS = {'v3': r'^<v3::server::HandshakeService<St, H> as ntex_service::Service<ntex_io::IoBoxed>>::call::\{closure#0\}$',
      'v5': r'^<v5::server::HandshakeService<St, H> as ntex_service::Service<ntex_io::IoBoxed>>::call::\{closure#0\}$'}
IO_ENCODE = r'^ntex_io::.*IoRef>::encode$'


def gate(F, R):
    b = F.one(r'^<service::MqttHandler<St, E, H, T, M, C, Codec> as ntex_service::Service<ntex_io::IoBoxed>>::call::\{closure#0\}$')
    aws = await_points(b)
    hs = [a for a in aws if a['awaited'] and a['awaited'][0].endswith('ServiceCtx::<\'a, S>::call')]
    R.ob('C19.gate', 'MqttHandler::call|awaits-handshake', len(hs) == 1, 'found %d handshake awaits' % len(hs))
    if hs:
        a = hs[0]
        # the `?` on the handshake result: Continue edge
        ok_edges = []
        for tb, tt in b.calls_to(r'ops::Try>::branch$'):
            if tb in b.reachable(a['ready']):
                r = discr_switch_after_call(b, tb)
                if r:
                    ok_edges.append((r[0], r[1].get(0, r[2])))
                break
        # ... or a plain `match handshake { Ok(x) => x, Err(e) => return Err(e) }` on the awaited value
        for sb_, place_, adt_, ty_, t_ in discr_switches(b, adt='std::result::Result'):
            if sb_ in b.reachable(a['ready']) and any(l[0] == 'call' and l[2] == a['poll'] for l in Origin(b).of_operand({'cp': place_})):
                tg_ = dict((v_, x_) for v_, x_ in t_['targets'])
                if 0 in tg_:
                    ok_edges.append((sb_, tg_[0]))
        creates = [(bi, t) for bi, t in b.calls() if re.search(r'ServiceFactory<.*>>::create$|::create$', callee_name(t) or '') or (callee_name(t) or '').endswith('io::Dispatcher::<P, C, U, E>::new')]
        R.floor('C19.gate', 'service creations + Dispatcher::new', len(creates), 3)
        for bi, t in creates:
            ok = any(edge_dominates(b, s, t_, bi) for s, t_ in ok_edges)
            R.ob('C19.gate', 'MqttHandler::call|%s|after-handshake-Ok' % (callee_name(t).split('::')[-2] + '::' + callee_name(t).split('::')[-1]), ok,
                 'a handler/control service or the dispatcher is created without the handshake having succeeded', b.loc(bi))
    for ver, pat in HS.items():
        b = F.one(pat)
        dec = '%s::codec::Decoded' % ver
        pk = '%s::codec::packet::Packet' % ver
        de = variant_edges(F, b, dec)
        pe = variant_edges(F, b, pk)
        connect_reg = arm_region(b, pe.get('Connect', []))
        if not connect_reg:
            raise AnchorLost('%s handshake: Connect arm' % ver)
        oks = [(bi, j, s) for bi, j, s in agg_sites(b, r'^std::result::Result$', 'Ok') if s['lhs']['l'] in b.ret_locals]
        R.ob('C19.gate', '%s|HandshakeService::call|Ok-exits' % ver, len(oks) == 1, 'found %d' % len(oks))
        # session Some edge
        sess = []
        for sb, place, adt, ty, t in discr_switches(b, adt='std::option::Option'):
            ap = apath(b, place)
            import c05
            names = c05.origin_field_names(F, b, {'cp': place}, re.compile(TRANSPARENT_CALLS.pattern[:-2] + r'|or_else|or|take|filter|and_then)$'))
            if (ap and ap[-1] == 'session') or 'session' in names:
                for v, tb in t['targets']:
                    if v == 1:
                        sess.append((sb, tb, t['otherwise'] if 0 not in [x for x, _ in t['targets']] else [y for x, y in t['targets'] if x == 0][0]))
        R.ob('C19.gate', '%s|HandshakeService::call|tests ack.session' % ver, len(sess) == 1, 'found %d tests of ack.session' % len(sess))
        for bi, j, s in oks:
            ok = bi in connect_reg and any(edge_dominates(b, sb, tb, bi) for sb, tb, nb in sess)
            R.ob('C19.gate', '%s|HandshakeService::call|session-only-for-accepted-CONNECT' % ver, ok, 'a session is returned outside the CONNECT arm / without an accepted handshake', b.loc(bi))
        # other arms -> Err, no Ok
        for arm, edges in list(de.items()) + [(k, v) for k, v in pe.items() if k != 'Connect']:
            if arm in ('Packet',) or arm.endswith('?') and arm[:-1] == 'Connect':
                continue
            reg = arm_region(b, edges) - connect_reg
            if not reg:
                continue
            bad = [bi for bi, j, s in oks if bi in reg]
            R.ob('C19.gate', '%s|HandshakeService::call|arm %s=>Err' % (ver, arm.rstrip('?')), not bad, 'a first packet other than CONNECT yields a session')
        # refusal edge: encode before Err
        for sb, tb, nb in sess:
            nreg = b.reachable(nb, avoid=[tb])
            encs = {bi for bi, t in b.calls_to(IO_ENCODE) if bi in nreg}
            errs = [bi for bi, j, s in agg_sites(b, r'^std::result::Result$', 'Err') if bi in nreg and s['lhs']['l'] in b.ret_locals]
            ok = bool(encs) and all(b.must_pass(encs, e, start=nb) for e in errs) and bool(errs)
            R.ob('C19.gate', '%s|HandshakeService::call|refusal: CONNACK before Err' % ver, ok, 'a refused handshake must write the refusing CONNACK before the connection is dropped')
            # accept edge: CONNACK written before Ok
            areg = b.reachable(tb, avoid=[nb])
            aencs = {bi for bi, t in b.calls_to(IO_ENCODE) if bi in areg}
            R.ob('C19.gate', '%s|HandshakeService::call|accept: CONNACK before session' % ver, bool(aencs) and all(b.must_pass(aencs, bi, start=tb) for bi, j, s in oks), 'CONNACK is not written on the accept path')
        # exactly one read, not in a loop
        recvs = [(bi, t) for bi, t in b.calls_to(r'^ntex_io::.*::recv$')]
        R.ob('C19.gate', '%s|HandshakeService::call|reads-one-packet' % ver, len(recvs) == 1 and recvs[0][0] not in b.reachable_after(recvs[0][0]), 'the handshake must read exactly one packet (found %d recv sites)' % len(recvs))


def version_route(F, R):
    b = F.one(r'^<server::MqttServerImpl<V3, V5, Err> as ntex_service::Service<ntex_io::IoBoxed>>::call::\{closure#0\}$')
    ve = variant_edges(F, b, 'version::ProtocolVersion')
    calls = [(bi, t) for bi, t in b.calls_to(r"^ntex_service::ServiceCtx::<'a, S>::call$")]
    R.floor('C19.version-route', 'handler invocations in MqttServerImpl::call', len(calls), 4)
    for bi, t in calls:
        ap = call_recv_path(b, t, 1) or ()
        idx = ap[-1] if ap and ap[-2:-1] == ('handlers',) else None
        want = {'0': 'MQTT3', '1': 'MQTT5'}.get(idx)
        ok = want is not None and any(edge_dominates(b, s, t_, bi) for s, t_ in ve.get(want, []))
        R.ob('C19.version-route', 'MqttServerImpl::call|handlers.%s<=%s|%s' % (idx, want, 'peek' if not any(bi in b.reachable(a['ready']) for a in await_points(b) if a['awaited'] and 'select' in a['awaited'][0]) else 'recv'), ok,
             'protocol version %s is not routed to handlers.%s (argument path %s)' % (want, idx, apath_str(ap)), b.loc(bi))
    fam = F.family(b)
    decs = [(x, bi) for x in fam for bi, t in x.calls_to(r'^ntex_io::.*IoRef>::decode$|^ntex_io::.*::decode$')]
    recvs = [(x, bi) for x in fam for bi, t in x.calls_to(r'^ntex_io::.*::recv$')]
    R.ob('C19.version-route', 'MqttServerImpl::call|peek-then-retrying-recv', len(decs) == 1 and len(recvs) >= 1,
         'version detection must peek once (io.decode) and otherwise use the retrying io.recv(&VersionCodec): a single decode after one read drops a CONNECT whose first fragment does not reach the level byte (decode sites %d, recv sites %d)' % (len(decs), len(recvs)))
    dl = [1 for x in fam for bi, t in x.calls_to(r'ntex_util::time::Deadline::new$|Deadline::new$')]
    R.ob('C19.version-route', 'MqttServerImpl::call|detection-under-deadline', bool(dl), 'version detection is not bounded by protocol_version_timeout')
    # VersionCodec::decode: table + no consumption
    d = F.one(r'^<version::VersionCodec as ntex_codec::Decoder>::decode$')
    cons = [(bi, callee_name(t)) for bi, t in d.calls() if re.search(r'::(advance|split_to|split_off|get_u8|get_u16|get_u32|truncate|clear|reserve|split)$', callee_name(t) or '')]
    R.ob('C19.version-route', 'VersionCodec::decode|consumes-nothing', not cons, 'VersionCodec consumes bytes of the first packet (%s): the protocol handshake would miss them' % cons)
    levels = {}
    for sb in sorted(d.live):
        t = d.blocks[sb]['term']
        if t['k'] == 'switch' and len(t['targets']) >= 2:
            cand = {}
            for v, tb in t['targets']:
                vs = [s['rv']['variant'] for bi, j, s in agg_sites(d, r'^version::ProtocolVersion$') if bi in d.reachable(tb, avoid=[x for _, x in t['targets'] if x != tb] + [t['otherwise']])]
                if len(set(vs)) == 1:
                    cand[v] = vs[0]
            if len(set(cand.values())) >= 2:
                levels = cand
                oth = d.reachable(t['otherwise'], avoid=[x for _, x in t['targets']])
                errs = [bi for bi, j, s in agg_sites(d, r'^std::result::Result$', 'Err') if bi in oth]
                vs_oth = [bi for bi, j, s in agg_sites(d, r'^version::ProtocolVersion$') if bi in oth]
                R.ob('C19.version-route', 'VersionCodec::decode|other-level=>Err', bool(errs) and not vs_oth, 'an unknown protocol level is not rejected')
                break
    R.ob('C19.version-route', 'VersionCodec::decode|level-table', levels == {4: 'MQTT3', 5: 'MQTT5'}, 'level table extracted: %s' % levels)
    R.table('VersionCodec level table', {str(k): v for k, v in levels.items()})
    # each protocol decoder refuses other levels
    for ver, lvl in (('v3', 4), ('v5', 5)):
        cands = F.find(r'^%s::codec::(decode::decode_connect_packet|packet::connect::<impl .*Decode.*Connect>::decode|decode::.*connect.*)$' % ver) or F.find(r'^(<)?%s::codec::.*[Cc]onnect.*decode' % ver)
        ok = False
        for c in cands:
            uns = [bi for bi, j, s in agg_sites(c, r'^error::DecodeError$', 'UnsupportedProtocolLevel')]
            if not uns:
                continue
            # a comparison with the constant level dominates / controls the error
            for bi, j, s in c.assigns():
                if s['rv']['k'] == 'bin' and s['rv']['op'] in ('Eq', 'Ne') and (const_val(s['rv']['a']) == lvl or const_val(s['rv']['b']) == lvl):
                    ok = True
                elif s['rv']['k'] == 'bin' and s['rv']['op'] in ('Eq', 'Ne'):
                    # the expected level handed to a shared helper as an argument (`decode_connect_header(src, 5)`)
                    for o_ in (s['rv']['a'], s['rv']['b']):
                        if op_place(o_) is not None and {l[1] for l in Origin(c).of_operand(o_) if l[0] == 'const'} == {lvl}:
                            ok = True
            for bi, t in c.calls():
                if re.search(r'PartialEq.*::(eq|ne)$', callee_name(t) or ''):
                    for a in t['args']:
                        og = Origin(c).of_operand(a)
                        if any(l[0] == 'const' and l[1] == lvl for l in og) or any(l[0] == 'constx' and 'LEVEL' in str(l[1]) for l in og):
                            ok = True
        R.ob('C19.version-route', '%s|CONNECT-decoder-refuses-other-levels' % ver, ok, 'the %s CONNECT decoder does not compare the protocol level with %d before accepting' % (ver, lvl))
    consts = {k.split('::')[-1]: v['v'] for k, v in F.consts.items() if k.startswith('types::MQTT_LEVEL')}
    R.ob('C19.version-route', 'types::MQTT_LEVEL_3=4,MQTT_LEVEL_5=5', consts.get('MQTT_LEVEL_3') == 4 and consts.get('MQTT_LEVEL_5') == 5, 'constants %s' % consts)


def setter_from(F, R, b, name, setter_pat, want_fields, arg_idx=1, root=None, key=None, announced=False, exact=True):
    sites = [(bi, t) for bi, t in b.calls_to(setter_pat)]
    hit = []
    # the limit may be installed by building the codec with it (`Codec::with_inbound_limits(size, ..)` spliced in): the
    # aggregate's field takes the place of the setter's argument
    fld_ = {'set_max_inbound_size': 'max_in_size', 'set_max_size': 'max_size'}.get(setter_pat.rstrip('$').split('::')[-1])
    if not sites and fld_:
        import c05
        for bi, j, s_ in agg_sites(b, r'^v[35]::codec::codec::Codec$'):
            nm_ = s_['rv'].get('names') or []
            if fld_ in nm_:
                names = c05.origin_field_names(F, b, s_['rv']['fields'][nm_.index(fld_)], re.compile(TRANSPARENT_CALLS.pattern[:-2] + r'|new|map_or|min|unwrap_or|get)$'))
                if set(want_fields) <= names:
                    R.ob('C19.limits', key or name, True, '', b.loc(bi))
                    R.ob('C19.limits', (key or name) + '|stored-as-negotiated', True, '', b.loc(bi))
                    R.ob('C19.limits', (key or name) + '|unconditional', True, 'the codec is created with the value', b.loc(bi))
                    return [bi]
    for bi, t in sites:
        ap = apath(b, t['args'][arg_idx]) or ()
        og = None
        names = set(ap)
        if not (set(want_fields) <= names):
            import c05
            names |= c05.origin_field_names(F, b, t['args'][arg_idx], re.compile(TRANSPARENT_CALLS.pattern[:-2] + r'|map_or|min|unwrap_or|get)$'))
        if set(want_fields) <= names and (root is None or root in names or any(root in x for x in names)):
            hit.append(bi)
    R.ob('C19.limits', key or name, bool(hit), '%s: no call of the enforcing setter whose argument derives from %s (found %d setter calls)' % (name, '.'.join(want_fields), len(sites)),
         b.loc(sites[0][0]) if sites else None)
    # "exactly the negotiated one": the stored value is the negotiated field itself, not a combination of it with something else
    for bi in (hit if exact else []):
        t = b.blocks[bi]['term']
        og = Origin(b).of_operand(t['args'][arg_idx])
        mixed = sorted({(l[1] or '').split('::')[-1] for l in og if l[0] == 'call' and re.search(r'(^std::cmp::(min|max)$|::(min|max|clamp|saturating_\w+|wrapping_\w+|checked_\w+)$)', l[1] or '')} | {'operator ' + str(l[1]) for l in og if l[0] == 'binop' and l[1] not in ('Eq', 'Ne', 'Lt', 'Le', 'Gt', 'Ge')})
        R.ob('C19.limits', (key or name) + '|stored-as-negotiated', not mixed,
             '%s: the value handed to the enforcing setter is computed from the negotiated field and something else (%s): the limit in force is not the negotiated one (e.g. min() with a configured value whose 0 means "unlimited" switches the limit off)' % (name, ', '.join(mixed)), b.loc(bi))
    # the negotiated value is stored unconditionally: the setter is not skipped on some path to the dispatcher
    disp = [bi for bi, t in b.calls() if re.search(r'create_dispatcher$|Dispatcher::<.*>::new$|dispatcher::create_dispatcher$|::Dispatcher.*::new$', callee_name(t) or '')]
    if not disp:
        # the accept path ends in the Ok(..) result that hands the session to the dispatcher factory
        disp = [bi for bi, j, s in agg_sites(b, r'^std::result::Result$', 'Ok') if s['lhs']['l'] in b.ret_locals and any(bi in b.reachable_after(h) for h in hit)]
    if hit and disp:
        # `if let Some(v) = <the negotiated Option> { set(v) }`: the absent edge legitimately leaves the default
        through = set(hit)
        # ... unless the same setter was already applied earlier on this path with another (configured) value: then the
        # absent edge keeps a limit that was not negotiated, while the announcement says "no limit"
        # (only for limits the peer is told about: MQTT 3.1.1 has no such announcement, there the absent case keeps the configured default)
        preset = [bi for bi, t in sites if bi not in hit and any(bi in b.dom.get(h, ()) for h in hit)] if announced else []
        for h in ([] if preset else hit):
            for sb in b.dom.get(h, ()):
                t_ = b.blocks[sb]['term']
                if t_['k'] != 'switch' or sb == h:
                    continue
                p_ = op_place(t_['discr'])
                for (xb, xs, kind, x) in (b.whole_defs(p_['l']) if p_ else []):
                    if kind == 'assign' and x['rv']['k'] == 'discr' and (x['rv'].get('ty') or '').startswith('std::option::Option<') and \
                            (want_fields[-1] in place_fields(x['rv']['place']) or want_fields[-1] in (apath(b, {'cp': x['rv']['place']}) or ())
                             or want_fields[-1] in __import__('c05').origin_field_names(F, b, {'cp': x['rv']['place']}, re.compile(TRANSPARENT_CALLS.pattern[:-2] + r'|map|copied|cloned)$'))):   # (or a copy of it: the Option handed to a spliced helper)
                        none_t = [tb for v_, tb in t_['targets'] if v_ == 0] or [t_['otherwise']]
                        some_t = [tb for v_, tb in t_['targets'] if v_ == 1] or [t_['otherwise']]
                        if none_t[0] != some_t[0]:
                            through.add(none_t[0])
        skipped = [d_ for d_ in disp if not b.must_pass(through, d_)]
        R.ob('C19.limits', (key or name) + '|unconditional', not skipped,
             '%s: the dispatcher can be created on a path that skips the setter (e.g. the negotiated value is only applied under a condition), so the enforced limit differs from the one announced to the peer' % name,
             b.loc(hit[0]))
    return hit


def limits(F, R):
    b = F.one(HS['v5'])
    setter_from(F, R, b, 'v5-server|max QoS <- ack.packet.max_qos', r'^v5::shared::MqttShared::set_max_qos$', ['packet', 'max_qos'])
    setter_from(F, R, b, 'v5-server|receive maximum <- ack.packet.receive_max', r'^v5::shared::MqttShared::set_receive_max$', ['packet', 'receive_max'])
    setter_from(F, R, b, 'v5-server|topic alias maximum <- ack.packet.topic_alias_max', r'^v5::shared::MqttShared::set_topic_alias_max$', ['packet', 'topic_alias_max'])
    setter_from(F, R, b, 'v5-server|inbound max size <- ack.packet.max_packet_size', r'^v5::codec::codec::Codec::set_max_inbound_size$', ['packet', 'max_packet_size'], announced=True)
    setter_from(F, R, b, 'v5-server|outbound max size <- CONNECT.max_packet_size', r'^v5::codec::codec::Codec::set_max_outbound_size$', ['max_packet_size'])
    setter_from(F, R, b, 'v5-server|send window <- min(max_send, CONNECT.receive_max)', r'^v5::shared::MqttShared::set_cap$', ['max_send', 'receive_max'], exact=False)   # a minimum by definition (C05.cap-source)
    # announced keep-alive
    ka = False
    for bi, j, s in b.assigns():
        if place_fields(s['lhs'])[-1:] == ['server_keepalive_sec']:
            og = Origin(b).of_operand(s['rv'].get('op')) if s['rv']['k'] == 'use' else set()
            names = set()
            import c05
            if s['rv']['k'] == 'use':
                names = c05.origin_field_names(F, b, s['rv']['op'], TRANSPARENT_CALLS)
            ka = ka or 'keepalive' in names
    R.ob('C19.limits', 'v5-server|announced keep-alive <- ack.keepalive', ka, 'an imposed keep-alive is not announced in CONNACK (server_keepalive_sec = Some(ack.keepalive))')
    # v5 client: a Server Keep Alive in CONNACK replaces the client's own value [MQTT-3.2.2-21]; it is not combined with it
    cb = F.one(r'^v5::client::connector::MqttConnectorService::<A, T>::connect_inner::\{closure#0\}$')
    news = [(bi, t) for bi, t in cb.calls_to(r'^v5::client::connection::Client::new$')]
    R.ob('C19.limits', 'v5-client|Client::new sites', len(news) >= 1, 'found %d' % len(news))
    for bi, t in news:
        ka_args = [a for a in t['args'] if 'Seconds' in (cb.local_ty(op_place(a)['l']) if op_place(a) else '')]
        ok = False
        why = 'no keep-alive argument found'
        for a in ka_args:
            import c05
            names = c05.origin_field_names(F, cb, a, re.compile(TRANSPARENT_CALLS.pattern[:-2] + r'|Seconds)$'))
            og = Origin(cb, transparent=re.compile(TRANSPARENT_CALLS.pattern[:-2] + r'|Seconds)$')).of_operand(a)
            mixers = sorted({l[1].split('::')[-1] for l in og if l[0] == 'call' and re.search(r'(::min|::max|map_or|map_or_else|and_then|filter|min_by|max_by|clamp|saturating_sub|checked_sub)$', l[1] or '')} | {'closure' for l in og if l[0] == 'agg' and 'closure' in str(l[1])})
            ok = 'server_keepalive_sec' in names and not mixers
            why = 'keep-alive handed to the client derives from %s%s' % (sorted(names)[:6], (' combined through %s' % mixers) if mixers else '')
        R.ob('C19.limits', 'v5-client|keep-alive <- CONNACK.server_keepalive_sec replaces the own value', ok,
             '%s: when the server imposes a keep-alive the client must use exactly that value (otherwise it pings too rarely or not at all and is disconnected)' % why, cb.loc(bi))
    # returned keep-alive (tuple .3) derives from ack.keepalive
    for ver in ('v3', 'v5'):
        hb = F.one(HS[ver])
        ok = False
        for bi, j, s in agg_sites(hb, r'^std::result::Result$', 'Ok'):
            if s['lhs']['l'] not in hb.ret_locals:
                continue
            import c05
            names = c05.origin_field_names(F, hb, s['rv']['fields'][0], re.compile(TRANSPARENT_CALLS.pattern[:-2] + r'|new)$'))
            ok = 'keepalive' in names
        R.ob('C19.limits', '%s-server|dispatcher keep-alive <- ack.keepalive' % ver, ok, 'the keep-alive handed to the io dispatcher does not derive from HandshakeAck.keepalive')
    mh = F.one(r'^<service::MqttHandler<St, E, H, T, M, C, Codec> as ntex_service::Service<ntex_io::IoBoxed>>::call::\{closure#0\}$')
    kt = [(bi, t) for bi, t in mh.calls_to(r'^io::Dispatcher::<P, C, U, E>::keepalive_timeout$')]
    ok = False
    for bi, t in kt:
        ap = apath(mh, t['args'][1]) or ()
        ok = ok or (len(ap) >= 1 and ap[-1] == '3') or any('branch' in x for x in ap)
    R.ob('C19.limits', 'MqttHandler::call|keepalive_timeout(<handshake result>.3)', bool(kt) and ok, 'the dispatcher keep-alive is not the value returned by the handshake')
    # Handshake::ack derives keepalive from CONNECT keep_alive
    for ver in ('v3', 'v5'):
        hb = F.one(r'^%s::handshake::Handshake::ack$' % ver)
        ok = False
        for bi, j, s in agg_sites(hb, r'^%s::handshake::HandshakeAck$' % ver):
            i = s['rv']['names'].index('keepalive')
            import c05
            names = c05.origin_field_names(F, hb, s['rv']['fields'][i], re.compile(TRANSPARENT_CALLS.pattern[:-2] + r'|saturating_add|saturating_mul|checked_add|new|map_or|map|unwrap_or|min|max)$'))
            ok = ok or 'keep_alive' in names
        R.ob('C19.limits', '%s|Handshake::ack keepalive <- CONNECT.keep_alive' % ver, ok, 'the default keep-alive does not depend on the client\'s keep_alive')
    b3 = F.one(HS['v3'])
    setter_from(F, R, b3, 'v3-server|inbound max size <- ack.max_packet_size', r'^v3::codec::codec::Codec::set_max_size$', ['max_packet_size'])
    setter_from(F, R, b3, 'v3-server|send window <- ack.max_send|cfg.max_send', r'^v3::shared::MqttShared::set_cap$', ['max_send'], exact=False)
    c5 = F.one(r'^v5::client::connector::MqttConnectorService::<A, T>::connect_inner::\{closure#0\}$')
    setter_from(F, R, c5, 'v5-client|outbound max size <- CONNACK.max_packet_size', r'^v5::codec::codec::Codec::set_max_outbound_size$', ['max_packet_size'])
    setter_from(F, R, c5, 'v5-client|inbound max size <- CONNECT.max_packet_size', r'^v5::codec::codec::Codec::set_max_inbound_size$', ['max_packet_size'])
    setter_from(F, R, c5, 'v5-client|send window <- CONNACK.receive_max', r'^v5::shared::MqttShared::set_cap$', ['receive_max'])
    # v5 Handshake::ack advertises what shared holds
    hb = F.one(r'^v5::handshake::Handshake::ack$')
    adv = {}
    for bi, j, s in agg_sites(hb, r'^v5::codec::packet::connack::ConnectAck$'):
        for n, f in zip(s['rv']['names'], s['rv']['fields']):
            og = Origin(hb, transparent=re.compile(TRANSPARENT_CALLS.pattern[:-2] + r'|new|unwrap_or|map_or)$')).of_operand(f)
            adv[n] = sorted({l[1].split('::')[-1] for l in og if l[0] == 'call'})
    for fld, getter in (('max_qos', 'max_qos'), ('receive_max', 'receive_max'), ('topic_alias_max', 'topic_alias_max')):
        R.ob('C19.limits', 'v5|Handshake::ack advertises shared.%s' % getter, getter in adv.get(fld, []) or any(getter in x for x in adv.get(fld, [])), 'CONNACK.%s is built from %s' % (fld, adv.get(fld)))
    # server-side enforcement sites read the shared values
    from disp import Disp
    d = Disp(F, 'v5-server')
    reg = d.arm('Publish')
    for getter in ('max_qos', 'receive_max', 'topic_alias_max'):
        n = [bi for bi, t in d.call.calls_to(r'^v5::shared::MqttShared::%s$' % getter) if bi in reg]
        R.ob('C19.limits', 'v5-server|PUBLISH arm enforces shared.%s()' % getter, bool(n), 'the PUBLISH arm does not consult the negotiated %s' % getter)
    d3 = Disp(F, 'v3-server')
    reg3 = d3.arm('Publish')
    okq = False
    for bi, t in d3.call.calls():
        if bi in reg3 and re.search(r'Partial(Ord|Eq).*::(gt|lt|le|ge)$', callee_name(t) or ''):
            for a in t['args']:
                ap = apath(d3.call, a) or ()
                if ap and ap[-1] == 'max_qos':
                    okq = True
    R.ob('C19.limits', 'v3-server|PUBLISH arm enforces cfg.max_qos', okq, 'the v3 PUBLISH arm does not compare the QoS with the configured maximum')


def max_qos_roundtrip(F, R):
    """v5 MqttShared keeps the negotiated Maximum QoS in two flag bits. The setter's per-variant
    insert/remove sequences and the getter's decision list are extracted and evaluated for every previous
    flag state x every value: max_qos() after set_max_qos(v) is v (so the value stored after the handshake
    is the one that is enforced, whatever was configured before)."""
    sb = F.one(r'^v5::shared::MqttShared::set_max_qos$')
    gb = F.one(r'^v5::shared::MqttShared::max_qos$')
    qos = F.adts['types::QoS']
    names = {v.get('discr', i): v['name'] for i, v in enumerate(qos['variants'])}

    def cname(t):
        while isinstance(t, tuple) and t and t[0] in ('ref', 'deref'):
            t = t[1]
        return str(t[1]).split('::')[-1] if isinstance(t, tuple) and t and t[0] == 'constx' else None
    setters = {}
    for i_, var in enumerate(qos['variants']):
        # the setter evaluated for each value: `match val {..}` and `val == QoS::X` both fold on a known value
        seqs = set()
        for p in SymEx(sb, F, arg_values={2: ('agg', 'types::QoS', var['name'], {})}, call_model=derived_eq_model(F)).run():
            if p.end[0] != 'return':
                continue
            ops = []
            for nm, a, bi in p.calls:
                base = nm.split('::')[-1]
                if base in ('insert', 'remove', 'toggle') and len(a) >= 2 and cname(a[1]):
                    ops.append((base, cname(a[1])))
                elif base == 'set' and len(a) >= 3 and cname(a[1]):
                    ops.append((('insert' if a[2][1] else 'remove') if a[2][0] == 'const' else 'set-to-unknown', cname(a[1])))
            stores = [1 for nm, a, bi in p.calls if nm.endswith('Cell::<T>::set')]
            seqs.add((tuple(ops), bool(stores)))
        if len(seqs) == 1:
            ops, st = seqs.pop()
            setters[var.get('discr', i_)] = (list(ops), st)
    getters = []
    for p in SymEx(gb, F).run():
        if p.end[0] != 'return' or not p.ret or p.ret[0] != 'agg':
            continue
        conds = []
        for t, c in p.conds:
            if t[0] == 'call' and t[1].split('::')[-1] == 'contains' and len(t[2]) >= 2 and cname(t[2][1]):
                val = 1 if (c[0] == 'ne' and 0 in c[1]) or c == ('eq', 1) else 0
                conds.append((cname(t[2][1]), val))
        getters.append((conds, p.ret[2]))
    R.ob('C19.limits', 'v5::MqttShared::max_qos|extracted', len(setters) == 3 and len(getters) >= 3 and all(st for _, st in setters.values()), 'setter paths %d, getter paths %d' % (len(setters), len(getters)), sb.loc(0))
    flags = sorted({f for ops, _ in setters.values() for _, f in ops} | {f for conds, _ in getters for f, _ in conds})
    bad = None
    import itertools
    for mask in itertools.product((0, 1), repeat=len(flags)):
        state = {f for f, m in zip(flags, mask) if m}
        for v, (ops, _) in setters.items():
            s2 = set(state)
            for op, f in ops:
                if op == 'insert':
                    s2.add(f)
                elif op == 'remove':
                    s2.discard(f)
                elif op == 'toggle':
                    s2 ^= {f}
                else:
                    s2 = {'?'}  # a flag set to a value that is not known: nothing can be concluded
            got = [ret for conds, ret in getters if all((f in s2) == bool(val) for f, val in conds)]
            if got != [names[v]] and bad is None:
                bad = 'flags %s, set_max_qos(%s) -> flags %s -> max_qos() = %s' % (sorted(state) or '{}', names[v], sorted(s2) or '{}', got)
    R.ob('C19.limits', 'v5::MqttShared|max_qos()==last-set_max_qos(v)-for-every-previous-state', bad is None,
         'the Maximum QoS stored after the handshake is not the one enforced: %s' % bad, sb.loc(0))


def setters_store_verbatim(F, R):
    """The setters the handshakes hand the negotiated limits to keep exactly the value they are given (the send window and
    the outbound size have rules of their own: C05.cap-source, C09.contract): a setter that adjusts its argument - an
    allowance subtracted, a clamp - makes the limit in force differ from the one announced, and a value read back through
    the getter and stored again drifts further."""
    import c05
    n = 0
    for pat, field, name in ((r'^v5::shared::MqttShared::set_receive_max$', 'receive_max', 'v5::MqttShared::set_receive_max'),
                             (r'^v5::shared::MqttShared::set_topic_alias_max$', 'topic_alias_max', 'v5::MqttShared::set_topic_alias_max'),
                             (r'^v5::codec::codec::Codec::set_max_inbound_size$', 'max_in_size', 'v5::Codec::set_max_inbound_size'),
                             (r'^v3::codec::codec::Codec::set_max_size$', 'max_size', 'v3::Codec::set_max_size')):
        b = F.one(pat)
        stores = [(bi, t) for bi, t in b.calls_to(r'^std::cell::Cell::<T>::(set|replace)$') if (call_recv_path(b, t, 0) or ('',))[-1] == field]
        ok = bool(stores) and all(b.must_pass({x[0] for x in stores}, rb) for rb in b.returns())
        what = ''
        for bi, t in stores:
            n += 1
            vals = c05.reaching_defs(b, t['args'][1])
            if not vals or not all(x[0] == 'arg' for x in vals):
                ok = False
                what = ', '.join(sorted({x[0] for x in vals})) or 'nothing'
        R.ob('C19.limits', '%s|stores-its-argument-unchanged' % name, ok,
             'the setter does not store the value it is given on every path (value comes from: %s): the limit in force differs from the negotiated / announced one' % (what or 'no store on some path'), b.loc(stores[0][0]) if stores else b.loc(0))
    R.floor('C19.limits', 'stores in the negotiated-limit setters', n, 4)


def run(F, R):
    max_qos_roundtrip(F, R)
    gate(F, R)
    version_route(F, R)
    limits(F, R)
    setters_store_verbatim(F, R)
