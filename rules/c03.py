"""C03 (structural part): per-path rules on the four publish_fn coroutines (paths enumerated from
MIR with their branch conditions) and who-constructs / who-writes rules on the dispatchers:
the handler is invoked once and not in a loop; an acknowledgement is built only on paths where the
handler future completed with Ok (v5 server: or try_ack mapped the error); PUBREC iff QoS 2, PUBACK
iff QoS 1, nothing without an id; a failing handler ends in Err; PUBCOMP is constructed only in the
PUBREL answer paths; dispatchers write to the wire only through their return value or the enumerated
duplicate-id negative acks; the decoded PUBLISH is handed to the handler unmodified (v5: topic alias
resolution only). Decides code shape on all paths, not schedules."""
from facts import *
from disp import *
from symex import SymEx, skip_logging, term_str_v, cond_map

HANDLER_POLL = "ntex_service::ServiceCtx::<'a, S>::call::{closure#0}"
WIDE = re.compile(TRANSPARENT_CALLS.pattern[:-2] + r'|new|branch|map_err|map|ok|from_residual)$')


def nonzero_model(nm, args, t, path):
    """skip_logging + NonZero::new(x) folded when the path already knows x != 0 / x == 0."""
    r = skip_logging(nm, args, t, path)
    if r is not None:
        return r
    from symex import option_tests
    r = option_tests(nm, args, t, path)
    if r is not None:
        return r
    if re.search(r'^std::num::NonZero::<T>::new$', nm) and args:
        x = args[0]
        for term, c in path.conds:
            if term[0] != 'bin' or len(term) < 4:
                continue
            # tests of an unsigned value against zero in any spelling: x != 0, x > 0, 0 < x, x >= 1, 1 <= x (true <=> non-zero);
            # x == 0, x < 1, x <= 0, 0 >= x, 1 > x (true <=> zero)
            op, a_, b_ = term[1], term[2], term[3]
            k_ = None
            if a_ == x and b_[0] == 'const':
                k_ = (op, b_[1])
            elif b_ == x and a_[0] == 'const':
                k_ = ({'Lt': 'Gt', 'Gt': 'Lt', 'Le': 'Ge', 'Ge': 'Le'}.get(op, op), a_[1])
            nz_when_true = {('Ne', 0): True, ('Gt', 0): True, ('Ge', 1): True, ('Eq', 0): False, ('Lt', 1): False, ('Le', 0): False}.get(k_) if k_ else None
            if nz_when_true is not None:
                truth = 1 if (c[0] == 'ne' and 0 in c[1]) or c == ('eq', 1) else (0 if c == ('eq', 0) else None)
                if truth is None:
                    continue
                nonzero = (truth == 1) == nz_when_true
                if nonzero:
                    return ('agg', 'std::option::Option', 'Some', {'0': x})
                return ('agg', 'std::option::Option', 'None', {})
    return None


def path_facts(d, p, b, ack_sites):
    conds = [(term_str_v(t), c) for t, c in p.conds]
    hp = [(s, c) for s, c in conds if HANDLER_POLL in s and s.startswith('discr(')]
    outcome = None
    if len(hp) >= 2:
        c = hp[1][1]
        outcome = 'ok' if c == ('eq', 0) else ('err' if c == ('eq', 1) else None)
    elif len(hp) == 1:
        outcome = 'pending-only'
    try_ack = None
    for s, c in conds:
        if 'ToPublishAck::try_ack' in s and s.startswith('discr('):
            try_ack = 'ok' if c == ('eq', 0) else 'err'
    qos2 = None
    for s, c in conds:
        if 'types::QoS as std::cmp::PartialEq>::eq' in s:
            qos2 = (c != ('eq', 0))
        elif s.startswith('discr(') and re.search(r'qos', s, re.I) and HANDLER_POLL not in s:
            # `matches!(qos, QoS::ExactlyOnce)` / `match qos {..}`: ExactlyOnce has discriminant 2
            if c == ('eq', 2):
                qos2 = True
            elif c[0] == 'eq' or (c[0] == 'ne' and 2 in c[1]):
                qos2 = False
    acks = [kind for (bi, kind) in ack_sites if bi in p.blocks]
    ret = None
    if p.ret is not None and p.ret[0] == 'agg':
        ret = p.ret[2]
    elif p.ret is not None and p.ret[0] == 'call' and 'from_residual' in p.ret[1]:
        ret = 'Err'
    return dict(outcome=outcome, try_ack=try_ack, qos2=qos2, acks=acks, ret=ret)


def publish_fn_rules(F, R, d):
    b = d.publish_fn
    # once
    hc = list(b.calls_to(r"^ntex_service::ServiceCtx::<'a, S>::call$"))
    R.ob('C03.once', '%s|publish_fn|handler-call-sites' % d.name, len(hc) == 1, 'publish_fn invokes the publish handler at %d sites (expected exactly one)' % len(hc))
    for bi, t in hc:
        R.ob('C03.once', '%s|publish_fn|handler-not-in-loop' % d.name, bi not in b.reachable_after(bi), 'the handler invocation lies on a cycle', b.loc(bi))
    c = d.call
    region = d.arm('Publish')
    pf = [(bi, t) for bi, t in d.call_sites(c, 'publish_fn') if bi in region]
    allpf = d.call_sites(c, 'publish_fn')
    R.ob('C03.once', '%s|call|publish_fn-sites' % d.name, len(pf) == 1 and len(allpf) == 1, 'the PUBLISH arm creates %d publish_fn futures (%d in the whole dispatcher), expected exactly one' % (len(pf), len(allpf)))
    for bi, t in pf:
        R.ob('C03.once', '%s|call|publish_fn-not-in-loop' % d.name, bi not in c.reachable_after(bi), 'publish_fn is created inside a loop', c.loc(bi))
    # per-path rules
    ack_sites = [(bi, 'PublishAck') for bi, j, s in agg_sites(b, r'^%s$' % re.escape(d.packet), 'PublishAck')] + \
                [(bi, 'PublishReceived') for bi, j, s in agg_sites(b, r'^%s$' % re.escape(d.packet), 'PublishReceived')]
    # an acknowledgement built inside a closure of publish_fn (`packet_id.map(|id| ..)`) counts where the closure is created
    for c_ in F.descendants(b):
        for kind_ in ('PublishAck', 'PublishReceived'):
            if agg_sites(c_, r'^%s$' % re.escape(d.packet), kind_):
                root_ = c_
                while root_.d.get('parent') and root_.d.get('parent') != b.path and root_.d.get('parent') in F.bodies:
                    root_ = F.bodies[root_.d['parent']]
                for bi, j, s in b.assigns():
                    if s['rv']['k'] == 'agg' and s['rv'].get('def') == root_.path:
                        ack_sites.append((bi, kind_ + ' (built in a closure)'))
    R.floor('C03.ack-after-handler', '%s ack constructions in publish_fn' % d.name, len(ack_sites), 2 if d.role == 'server' else 1)
    se = SymEx(b, F, call_model=nonzero_model, loop_visits=1, max_paths=5000)
    paths = [p for p in se.run() if p.end[0] == 'return']
    R.ob('C03.ack-after-handler', '%s|publish_fn|paths-enumerated' % d.name, not se.truncated and len(paths) >= 3, 'enumerated %d return paths (truncated=%s)' % (len(paths), se.truncated))
    R.counts['C03:%s publish_fn paths' % d.name] = len(paths)
    seen = set()
    for p in paths:
        f = path_facts(d, p, b, ack_sites)
        sig = (f['outcome'], f['try_ack'], f['qos2'], tuple(f['acks']), f['ret'])
        if sig in seen:
            continue
        seen.add(sig)
        for kind in f['acks']:
            ok = f['outcome'] == 'ok' or (d.name == 'v5-server' and f['outcome'] == 'err' and f['try_ack'] == 'ok')
            R.ob('C03.ack-after-handler', '%s|publish_fn|%s|handler=%s,try_ack=%s' % (d.name, kind, f['outcome'], f['try_ack']), ok,
                 'an acknowledgement (%s) is built on a path where the handler future has not completed successfully (outcome %s, try_ack %s)' % (kind, f['outcome'], f['try_ack']))
            if kind.endswith('(built in a closure)'):
                R.undecided('C03.ack-kind', '%s|publish_fn|%s' % (d.name, kind), 'the acknowledgement kind is chosen inside a closure handed to a combinator; the QoS it is chosen under is not visible on the path')
            elif kind == 'PublishReceived':
                R.ob('C03.ack-kind', '%s|publish_fn|PublishReceived|qos2=%s' % (d.name, f['qos2']), f['qos2'] is True,
                     'PUBREC is produced on a path where the message is not known to be QoS 2')
            else:
                R.ob('C03.ack-kind', '%s|publish_fn|PublishAck|qos2=%s' % (d.name, f['qos2']), f['qos2'] is False,
                     'PUBACK is produced (and the id released) on a path that never tested the QoS: an inbound QoS 2 PUBLISH is answered with PUBACK and its later PUBREL is refused as unknown' if f['qos2'] is None else 'PUBACK is produced for a QoS 2 message')
        if f['outcome'] == 'err' and d.name == 'v5-server' and f['try_ack'] == 'ok':
            R.ob('C03.ack-after-handler', '%s|publish_fn|handler-error-converted=>negative-ack-is-written' % d.name, bool(f['acks']) or f['ret'] == 'Err',
                 'a handler error is converted with try_ack() on a path that then writes no acknowledgement (no packet id): the failure is swallowed and the connection keeps being served')
        if f['outcome'] == 'err' and not (d.name == 'v5-server' and f['try_ack'] == 'ok'):
            R.ob('C03.ack-after-handler', '%s|publish_fn|handler-error=>Err|try_ack=%s' % (d.name, f['try_ack']), f['ret'] == 'Err' and not f['acks'],
                 'a failing handler does not end in Err (returns %s, acks %s)' % (f['ret'], f['acks']))
    # ack carries the request's id and (v5) the handler's verdict
    for bi, j, st in agg_sites(b, r'^v5::codec::packet::pubacks::PublishAck$') + [x for x in agg_sites(b, r'^%s$' % re.escape(d.packet)) if d.ver == 'v3' and x[2]['rv']['variant'] in ('PublishAck', 'PublishReceived')]:
        names = st['rv']['names']
        kind = 'ack@' + ('qos2' if any(bi in b.reachable_after(x) or x == bi for x, k in ack_sites if k == 'PublishReceived') and not any(x == bi for x, k in ack_sites if k == 'PublishAck') else 'any')
        for fname, fop in zip(names, st['rv']['fields']):
            og = Origin(b, transparent=WIDE).of_operand(fop)
            if fname == 'packet_id':
                ok = any(l[0] == 'arg' for l in og) and not any(l[0] == 'const' for l in og)
                R.ob('C03.ack-fields', '%s|publish_fn|%s.packet_id' % (d.name, st['rv']['adt'].split('::')[-1] + ('::' + st['rv']['variant'] if d.ver == 'v3' else '')), ok,
                     'the acknowledgement does not carry the packet id of the request (origin %s)' % sorted(map(str, og))[:3], b.loc(bi))
            elif fname in ('reason_code', 'reason_string', 'properties'):
                from_handler = any(l[0] == 'call' and (HANDLER_POLL in l[1] or 'try_ack' in l[1]) for l in og) or any(l[0] == 'resume' for l in og)
                defaulted = any(l[0] == 'call' and 'default' in l[1].lower() for l in og) or any(l[0] in ('const', 'agg') and l[0] == 'agg' and 'Reason' in l[1] for l in og)
                R.ob('C03.ack-fields', '%s|publish_fn|PublishAck.%s|from-handler|%s' % (d.name, fname, field_site_label(b, bi, ack_sites)), from_handler and not defaulted,
                     'the %s of the acknowledgement does not come from the handler result / try_ack (origin %s): a negative verdict would be written as success' % (fname, sorted({l[1] if len(l) > 1 else l[0] for l in og if l[0] in ('call', 'agg')})[:3]), b.loc(bi))
    # client control path: PublishAck constructors offered to the application must depend on the QoS
    if d.role == 'client':
        mod = d.mod.replace('dispatcher', 'control')
        for fn in F.find(r'^%s::Publish::(ack|ack_with|into_inner)(::\{closure#0\})?$' % re.escape(mod)):
            if fn.d.get('parent') is None:
                fam = F.family(fn)
                has_ack = any(agg_sites(x, r'Packet$|ProtocolMessageKind$', 'PublishAck') for x in fam)
                tests_qos = any(list(x.calls_to(r'types::QoS as std::cmp::Partial(Eq|Ord)>')) or [1 for _ in discr_switches(x, adt='types::QoS')] for x in fam)
                if has_ack:
                    R.ob('C03.ack-kind', '%s|%s|PublishAck|qos-tested' % (d.name, fn.path), bool(tests_qos),
                         'the control-message acknowledgement for an inbound PUBLISH is always PUBACK, also for QoS 2')


def field_site_label(b, bi, ack_sites):
    """Which ack packet the struct feeds: PublishReceived / PublishAck (by reachability to the wrapping Packet aggregate)."""
    labs = sorted({k for x, k in ack_sites if x == bi or x in b.reachable_after(bi)})
    pr = [k for x, k in ack_sites if x == bi]
    if pr:
        return pr[0]
    # nearest: the first ack site reachable without passing another PublishAck struct construction
    for x, k in ack_sites:
        if x in b.reachable_after(bi, avoid=[y for y, kk in ack_sites if y != x]):
            return k
    return '+'.join(labs) or '?'


PUBCOMP_ALLOWED = [
    (r'^v3::dispatcher::Inner::<C>::control::\{closure#0\}$', 'answer to the PublishRelease control message (v3 server)'),
    (r'^v3::client::dispatcher::Inner::<C>::control::\{closure#0\}$', 'answer to the PublishRelease control message (v3 client)'),
    (r'^<v5::(client::)?dispatcher::Dispatcher<T, C, E> as ntex_service::Service<v5::codec::Decoded>>::call::\{closure#0\}$', 'PUBREL arm, id not in flight (PacketIdNotFound)'),
    (r'^v5::control::PublishRelease::ack$', 'application acknowledges the PublishRelease control message (v5 server)'),
    (r'^v5::client::control::PublishRelease::ack$', 'application acknowledges the PublishRelease control message (v5 client)'),
]


def pubcomp_origin(F, R):
    n = 0
    for b in F.bodies.values():
        for bi, j, s in agg_sites(b, r'codec::packet::Packet$', 'PublishComplete'):
            n += 1
            ok = any(re.search(p, b.path) for p, _ in PUBCOMP_ALLOWED) or '/codec/' in b.file
            R.ob('C03.pubcomp-origin', '%s|constructs PublishComplete' % b.path, ok, 'PUBCOMP is constructed outside the PUBREL answer paths', b.loc(bi))
    R.floor('C03.pubcomp-origin', 'PublishComplete constructions', n, 7)
    for d in all_dispatchers(F):
        if d.ver == 'v5':
            b = d.call
            region = d.arm('Packet:PublishRelease')
            for bi, j, s in agg_sites(b, r'codec::packet::Packet$', 'PublishComplete'):
                R.ob('C03.pubcomp-origin', '%s|call|PublishComplete-in-PUBREL-arm' % d.name, bi in region, 'PUBCOMP built outside the PUBREL arm', b.loc(bi))
                nf = [x for x, jj, ss in agg_sites(b, r'PublishAck2Reason$', 'PacketIdNotFound') if x in region]
                R.ob('C03.pubcomp-origin', '%s|call|PublishComplete-is-negative' % d.name, bool(nf), 'the locally built PUBCOMP does not carry PacketIdNotFound', b.loc(bi))
        else:
            b = d.control
            kinds = variant_edges(F, b, 'v3::control::ProtocolMessageKind')
            reg = arm_region(b, kinds.get('PublishRelease', []))
            for bi, j, s in agg_sites(b, r'codec::packet::Packet$', 'PublishComplete'):
                R.ob('C03.pubcomp-origin', '%s|control|PublishComplete-in-PublishRelease-arm' % d.name, bi in reg, 'PUBCOMP built for a control answer other than PublishRelease', b.loc(bi))


def drop_guard(F, R):
    """After the connection was closed a server still hands a PUBLISH to the handler when its QoS is not above
    the configured handle_qos_after_disconnect level (documented: QoS larger than the level is not
    guaranteed): the silent-drop guard compares with strictly-greater, in both server dispatchers."""
    n = 0
    for ver in ('v3', 'v5'):
        cl = [b for b in F.find(r'^<%s::dispatcher::Dispatcher<T, C, E> as ntex_service::Service<%s::codec::Decoded>>::call::\{closure#0\}::\{closure#\d+\}$' % (ver, ver))
              if any('PartialOrd' in (callee_name(t) or '') for _, t in b.calls()) and b.argc == 2 and b.local_ty(2) == 'types::QoS']
        if len(cl) != 1:
            R.ob('C03.once', '%s-server|publish-after-disconnect|guard-closure' % ver, False, 'found %d candidate closures' % len(cl))
            continue
        b = cl[0]
        n += 1
        cmpc = [(bi, t) for bi, t in b.calls() if 'PartialOrd' in (callee_name(t) or '')]
        ok = False
        why = 'more than one comparison'
        if len(cmpc) == 1:
            bi, t = cmpc[0]
            op = (callee_name(t) or '').split('::')[-1]
            a0 = Origin(b).of_operand(t['args'][0])
            a1 = Origin(b).of_operand(t['args'][1])
            lvl0 = any(l[0] == 'arg' and l[1] == 2 for l in a0)
            lvl1 = any(l[0] == 'arg' and l[1] == 2 for l in a1)
            # qos > level   or   level < qos
            ok = (op == 'gt' and lvl1 and not lvl0) or (op == 'lt' and lvl0 and not lvl1)
            why = 'the guard drops a PUBLISH when `qos %s level` (%s): a message whose QoS equals the configured level is silently dropped after disconnect, never handled and never acknowledged' % (op, 'level first' if lvl0 else 'qos first')
        R.ob('C03.once', '%s-server|publish-after-disconnect|dropped-only-when-qos>level' % ver, ok, why, b.loc(0))
    R.floor('C03.once', 'publish-after-disconnect guards', n, 2)


def ack_origin(F, R, d):
    """PUBACK / PUBREC for an inbound PUBLISH are constructed only in publish_fn (i.e. after the handler);
    the only other construction allowed in a dispatcher body is the v5 negative acknowledgement on the
    duplicate-id edge (reason PacketIdentifierInUse)."""
    n = 0
    for b in d.bodies():
        if b is d.publish_fn or b.path.startswith(d.publish_fn.path):
            continue
        for variant in ('PublishAck', 'PublishReceived'):
            for bi, j, st in agg_sites(b, r'^%s$' % re.escape(d.packet), variant):
                n += 1
                ok = False
                if d.ver == 'v5' and b is d.call:
                    for ibi, it, ap in d.inflight_calls(b, 'insert'):
                        r = call_bool_branch(b, ibi)
                        if r and r[0] != 'discr' and bi in b.reachable(r[2], avoid=[r[1]]):
                            neg = [x for x, jj, ss in agg_sites(b, r'PublishAckReason$', 'PacketIdentifierInUse') if x in b.reachable(r[2], avoid=[r[1]])]
                            ok = bool(neg)
                if b is d.control or b.path.startswith(d.control.path):
                    # answer of the control service to a publish it was handed: built in the PublishAck arm of its result
                    for adt in [a for a in F.adts if a.endswith('control::ProtocolMessageKind')]:
                        ve = variant_edges(F, b, adt)
                        if bi in arm_region(b, ve.get('PublishAck', [])) and variant == 'PublishAck':
                            ok = True
                R.ob('C03.ack-after-handler', '%s|%s|%s-built-outside-publish_fn' % (d.name, re.sub(r'(::\{closure#\d+\})+$', '', b.path).split('::')[-1], variant), ok,
                     'an acknowledgement for a PUBLISH is built without (before) running the handler: the message is acknowledged although no handler completed for it', b.loc(bi))
    R.counts['C03:%s acks built outside publish_fn' % d.name] = n


def single_writer(F, R, d):
    n = 0
    allowed = {'v5-server': 3, 'v5-client': 1, 'v3-server': 0, 'v3-client': 0}[d.name]
    for b in d.bodies():
        for bi, t in b.calls_to(r'MqttShared::(encode_packet|encode_publish|encode_publish_payload)$|^ntex_io::.*IoRef>::encode$'):
            n += 1
            ok = False
            why = 'direct wire write from a dispatcher body'
            if b is d.call and d.ver == 'v5':
                # must lie on the duplicate-id edge of an in-flight insert
                for ibi, it, ap in d.inflight_calls(b, 'insert'):
                    r = call_bool_branch(b, ibi)
                    if r and r[0] != 'discr' and bi in b.reachable(r[2], avoid=[r[1]]):
                        ok = True
                why = 'direct wire write outside the duplicate-id negative-ack edges: it bypasses the response ordering of the io dispatcher'
            R.ob('C03.single-writer', '%s|%s|%s' % (d.name, re.sub(r'(::\{closure#\d+\})+$', '', b.path).split('::')[-1], callee_name(t).split('::')[-1]), ok, why, b.loc(bi))
    R.ob('C03.single-writer', '%s|direct-write-count' % d.name, n == allowed, 'found %d direct writes in the dispatcher bodies, reviewed %d' % (n, allowed))


def message_intact(F, R, d):
    b = d.call
    region = d.arm('Publish')
    news = [(bi, t) for bi, t in b.calls_to(r'^%s::publish::Publish::new$' % d.ver) if bi in region]
    R.ob('C03.message-intact', '%s|Publish::new-sites' % d.name, len(news) == 1, 'found %d constructions of the handler message' % len(news))
    for bi, t in news:
        p = op_place(t['args'][0])
        roots = set()
        l = p['l']
        for _ in range(8):
            roots.add(l)
            ds = [x for x in b.whole_defs(l) if x[2] == 'assign' and x[3]['rv']['k'] == 'use' and op_place(x[3]['rv']['op'])]
            if len(ds) == 1 and not place_fields(op_place(ds[0][3]['rv']['op'])):
                l = op_place(ds[0][3]['rv']['op'])['l']
            else:
                break
        written = set()
        for xb, xj, s in b.assigns():
            if xb in region and s['lhs']['l'] in roots and place_fields(s['lhs']):
                written.add(place_fields(s['lhs'])[0])
            if xb in region and s['rv']['k'] == 'ref' and s['rv']['mut'] and s['rv']['place']['l'] in roots and place_fields(s['rv']['place']):
                written.add(place_fields(s['rv']['place'])[0])
        allowed = {'topic'} if d.ver == 'v5' else set()
        R.ob('C03.message-intact', '%s|fields-written-before-handler|%s' % (d.name, '+'.join(sorted(written)) or 'none'), written <= allowed,
             'the decoded PUBLISH is modified before it reaches the handler: fields %s' % sorted(written - allowed), b.loc(bi))


def run(F, R):
    drop_guard(F, R)
    for d in all_dispatchers(F):
        publish_fn_rules(F, R, d)
        ack_origin(F, R, d)
        single_writer(F, R, d)
        message_intact(F, R, d)
    pubcomp_origin(F, R)
