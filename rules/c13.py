"""C13 (structural part, necessary conditions for 'no lost wake-up'): wake-checked: every wake of
a parked sender (Sender<()>::send on a waiter popped from `waiters`) has its result tested and a
cancelled waiter does not consume the wake-up (the pop is reachable again from the Err edge);
every-opening-wakes: every function that can open the window (pops the outstanding queue without
re-queueing, raises cap, clears WRB_ENABLED) passes a waiter wake loop or clear on every normal exit;
wake-count: bulk wake-ups are bounded by the free slots; stream-resume: a parked payload stream is
stored in streaming_waiter only under write back-pressure, is signalled when it lifts and dropped on
teardown; control-order: the back-pressure flag is updated before the application control service
is awaited; baton: a woken-but-cancelled sender must hand the wake-up on (the parked object needs a
Drop that re-runs the wake loop). Eventual completion (fairness, waker delivery) is not decided. every-opening-wakes (continued): wait_readiness parks a sender only on {window full, write back-pressure} - the conditions whose lifting wakes senders. wake-count (continued): a parked sender is woken only inside a function that itself opens the window; control-order (continued): every back-pressure state change of Dispatcher::poll is followed on every way out by the matching Control::wr notification.
"""
import re
from facts import *
from disp import agg_sites

SEND = r'ntex_util::channel::pool::Sender::<T>::send$'


def waiter_sends(b):
    out = []
    for bi, t in b.calls_to(SEND):
        a0 = op_place(t['args'][0])
        if a0 and 'pool::Sender<()>' in b.local_ty(a0['l']):
            ap = call_recv_path(b, t, 0)
            out.append((bi, t, ap))
    return out


def wake_capable(F, ver):
    """Functions of shared.rs that wake parked senders (pop `waiters` and send)."""
    out = {}
    for b in F.find(r'^%s::shared::(MqttShared::)?[a-z_]+$' % ver):
        if calls_on_field(b, r'VecDeque::<T, A>::pop_front$', 'waiters') and [x for x in waiter_sends(b) if x[2] and any('pop_front' in y for y in x[2])]:
            out[b.path] = b
    return out


def wake_checked(F, R, ver):
    n = 0
    for path, b in sorted(wake_capable(F, ver).items()):
        fn = path.split('::')[-1]
        pops = {x[0] for x in calls_on_field(b, r'VecDeque::<T, A>::pop_front$', 'waiters')}
        k = 0
        for bi, t, ap in waiter_sends(b):
            if not ap or not any('pop_front' in x for x in ap):
                continue  # e.g. the streaming waiter
            n += 1
            k += 1
            r = call_bool_branch(b, bi)
            tested = bool(r) and r[0] != 'discr'
            R.ob('C13.wake-checked', '%s::shared::MqttShared::%s|wake#%d|result-tested' % (ver, fn, k), tested,
                 'the result of waking a parked sender is ignored: if that sender was cancelled (its future dropped) the wake-up is lost and the next waiter stays parked although a slot is free', b.loc(bi))
            if tested:
                sb, ok_t, err_t = r
                again = any(p in b.reachable(err_t, avoid=[ok_t]) for p in pops)
                R.ob('C13.wake-checked', '%s::shared::MqttShared::%s|wake#%d|cancelled-waiter-skipped' % (ver, fn, k), again,
                     'after a failed wake (cancelled waiter) the next waiter is not tried', b.loc(bi))
    R.floor('C13.wake-checked', '%s waiter wake sites' % ver, n, 4)


def every_opening_wakes(F, R, ver):
    n = 0
    for b in F.find(r'^%s::shared::MqttShared::[a-z_]+$' % ver):
        opens = []
        for bi, t, ap in calls_on_field(b, r'VecDeque::<T, A>::(pop_front|pop_back|remove|swap_remove_back|swap_remove_front)$', 'inflight'):
            opens.append((bi, 'pops outstanding entry'))
        for bi, t in b.calls_to(r'^std::cell::Cell::<T>::set$'):
            if (call_recv_path(b, t, 0) or ('',))[-1] == 'cap':
                opens.append((bi, 'sets cap'))
        if b.path.endswith('::disable_wr_backpressure'):
            opens.append((0, 'clears WRB_ENABLED'))
        if not opens:
            continue
        wakes = {x[0] for x in calls_on_field(b, r'VecDeque::<T, A>::(pop_front|clear|drain)$', 'waiters')}
        wc = wake_capable(F, ver)
        wakes |= {bi for bi, t in b.calls() if callee_name(t) in wc}
        # a window test (`inflight.len() < cap`) that decides no slot is free also ends the obligation
        window_tests = {x[0] for x in calls_on_field(b, r'VecDeque::<T, A>::len$', 'inflight')} if b.path.endswith('::disable_wr_backpressure') else set()
        requeue = {x[0] for x in calls_on_field(b, r'VecDeque::<T, A>::push_back$', 'inflight')}
        emptied = {x[0] for x in calls_on_field(b, r'VecDeque::<T, A>::(clear|drain)$', 'waiters')}
        for obi, what in opens:
            n += 1
            bad = []
            if obi != 0 and any(b.dominates(e, obi) for e in emptied) and not b.yields():
                # nobody is parked when the window opens: the waiters were all dropped earlier in this synchronous function
                R.ob('C13.every-opening-wakes', '%s|%s|%s' % (b.path, what, 'all-exits-wake'), True, '', b.loc(obi))
                continue
            for rb in b.returns():
                # error exits close the connection (clear_queues): ignore returns whose value is Err
                pass
            # all Ok/unit exits
            exits = ok_exits(b)
            for xb in exits:
                if obi != 0 and xb not in b.reachable_after(obi) and xb != obi:
                    continue
                start = obi
                reach = b.reachable_after(start, avoid=wakes | requeue) if obi != 0 else b.reachable(0, avoid=wakes | requeue | window_tests)
                if xb in reach:
                    bad.append(xb)
            fn = b.path.split('::')[-1]
            ok = not bad
            if fn == 'set_cap':
                # wake loop precedes cap.set: every path from entry to the set passes the loop head
                # ... or follows it: then every path from the set to a return passes the wake loop's head
                heads = {nb for nb, nt in b.calls() if (callee_name(nt) or '').endswith('::next') and any(w_ in b.reachable_after(nb) and nb in b.reachable_after(w_) for w_ in wakes)}
                ok = any(obi in b.reachable_after(w_) for w_ in wakes) or (bool(wakes) and not (set(b.returns()) & b.reachable_after(obi, avoid=wakes | heads)))
            R.ob('C13.every-opening-wakes', '%s|%s|%s' % (b.path, what, 'all-exits-wake'), ok,
                 'this function can open the send window (%s) and return normally without waking a parked sender or clearing the waiters: senders parked in wait_readiness() stay blocked although the window is open' % what,
                 b.loc(bad[0]) if bad else b.loc(obi))
    R.floor('C13.every-opening-wakes', '%s window-opening sites' % ver, n, 4)


def ok_exits(b):
    """Blocks assigning the return place a non-Err value (or returning unit)."""
    ty = b.local_ty(0)
    if not ty.startswith('std::result::Result<'):
        return set(b.returns())
    out = set()
    for bi, j, s in b.assigns():
        if s['lhs']['l'] in b.ret_locals and s['rv']['k'] == 'agg' and s['rv'].get('variant') == 'Ok':
            out.add(bi)
    return out


def wake_count(F, R, ver):
    ack_wakes_one(F, R, ver)
    wc = wake_capable(F, ver)
    b = F.one(r'^%s::shared::MqttShared::disable_wr_backpressure$' % ver)
    len_locals = {t['dest']['l'] for bi, t, ap in calls_on_field(b, r'VecDeque::<T, A>::len$', 'inflight')}
    subs = set()
    for bi, j, s in b.assigns():
        rv = s['rv']
        if rv['k'] == 'bin' and rv['op'] in ('Sub', 'SubWithOverflow'):
            a = apath(b, rv['a'])
            c = op_place(rv['b'])
            if a and a[-1] == 'cap' and c and resolves(b, c['l'], len_locals):
                subs.add(bi)
    # the same difference through the integer methods (`cap.saturating_sub(len)`, checked_sub, wrapping_sub)
    sub_calls = set()
    for bi, t in b.calls():
        if re.search(r'::(saturating_sub|checked_sub|wrapping_sub)$', callee_name(t) or '') and len(t['args']) == 2:
            a = apath(b, t['args'][0])
            c = op_place(t['args'][1])
            if a and a[-1] == 'cap' and c and resolves(b, c['l'], len_locals):
                sub_calls.add(bi)
    ok = bool(subs) or bool(sub_calls)
    # if the waking is delegated to a helper, the bound handed over must be that difference
    for bi, t in b.calls():
        if callee_name(t) in wc and callee_name(t) != b.path:
            okh = False
            for a in t['args']:
                og = Origin(b).of_operand(a)
                if any(l[0] == 'binop' and l[1] in ('Sub', 'SubWithOverflow') and l[2] in subs for l in og) or any(l[0] == 'call' and l[2] in sub_calls for l in og):
                    okh = True
            ok = ok and okh
    R.ob('C13.wake-count', '%s|disable_wr_backpressure|wakes up to cap - outstanding' % ver, ok, 'the number of senders released when back-pressure lifts must be bounded by the free slots (cap - outstanding), not by cap')
    b = F.one(r'^%s::shared::MqttShared::set_cap$' % ver)
    ok = False
    for bi, j, s in b.assigns():
        if s['rv']['k'] == 'agg' and s['rv'].get('adt') == 'std::ops::Range':
            args = set()
            for f in s['rv']['fields']:
                args |= leaves_args(Origin(b).of_operand(f))
            ok = ok or any(a == 2 for a, _ in args)
    for bi, t in b.calls():
        if callee_name(t) in wc and callee_name(t) != b.path:
            for a in t['args']:
                if any(x == 2 for x, _ in leaves_args(Origin(b).of_operand(a))):
                    ok = True
    # the same bound as a counter: `let mut n = cap; while n > 0 { pop ..; if sent { n -= 1 } }`
    if not ok:
        ok = counter_bounded(b, lambda op: any(a == 2 for a, _ in leaves_args(Origin(b).of_operand(op))))
    R.ob('C13.wake-count', '%s|set_cap|wakes up to cap' % ver, ok, 'set_cap must wake at most `cap` parked senders (one per slot)')


def park_only_when_closed(F, R, ver):
    """wait_readiness parks a sender only when the window is full or write back-pressure is on. Those are the two conditions
    whose lifting wakes parked senders (acknowledgement, set_cap, disable_wr_backpressure); a sender parked for another
    reason - e.g. because somebody else is already queued - is woken by nothing while credit is free."""
    import c05
    pf = c05.predicate_fields(F, ver)
    extra = sorted(pf - {'inflight', 'cap', 'flags', 'queues'})
    R.ob('C13.every-opening-wakes', '%s|wait_readiness|parks-only-on-window-or-backpressure' % ver, not extra,
         'the decision to park a sender also reads %s: a sender can be parked while the window has room and back-pressure is off, and no event is defined to wake it' % extra)


def counter_bounded(b, init_pred):
    """A wake loop bounded by a down-counter: some local is initialised from a value accepted by init_pred,
    compared with 0 on a cycle that contains a pop of `waiters`, and decremented by 1 inside that cycle."""
    pops = {x[0] for x in calls_on_field(b, r'VecDeque::<T, A>::(pop_front|pop_back)$', 'waiters')}
    if not pops:
        return False
    for l in range(len(b.locals)):
        ds = [d for d in b.whole_defs(l) if d[0] in b.live]
        if len(ds) < 2:
            continue
        init = dec = False
        dec_blocks = set()
        for d in ds:
            if d[2] != 'assign':
                continue
            rv = d[3]['rv']
            if rv['k'] == 'use':
                p = op_place(rv['op'])
                if p is not None and place_proj(p):
                    # n = move (tmp.0) where tmp = SubWithOverflow(n, 1)
                    for d2 in b.whole_defs(p['l']):
                        if d2[2] == 'assign' and d2[3]['rv']['k'] == 'bin' and d2[3]['rv']['op'] in ('Sub', 'SubWithOverflow') and const_val(d2[3]['rv']['b']) == 1 and (op_place(d2[3]['rv']['a']) or {}).get('l') == l:
                            dec = True
                            dec_blocks.add(d[0])
                    continue
                if init_pred(rv['op']):
                    init = True
            elif rv['k'] == 'bin' and rv['op'] in ('Sub', 'SubWithOverflow') and const_val(rv['b']) == 1 and (op_place(rv['a']) or {}).get('l') == l:
                dec = True
                dec_blocks.add(d[0])
            elif rv['k'] in ('cast',) and init_pred(rv['op']):
                init = True
        if not (init and dec):
            # initialised by a call result (saturating_sub etc.)
            for d in ds:
                if d[2] == 'call' and init_pred({'cp': {'l': l}}) and dec:
                    init = True
        if not (init and dec):
            continue
        # compared with 0 on a cycle with the pop and the decrement
        for bi, j, s_ in b.assigns():
            rv = s_['rv']
            if rv['k'] != 'bin' or rv['op'] not in ('Gt', 'Ne', 'Lt', 'Ge', 'Le', 'Eq'):
                continue
            sides = [rv['a'], rv['b']]
            if not any(op_place(x) is not None and resolves(b, op_place(x)['l'], {l}) for x in sides) or not any(const_val(x) in (0, 1) for x in sides):
                continue
            cyc = {x for x in b.reachable_after(bi) if bi in b.reachable_after(x)} | {bi}
            if pops & cyc and dec_blocks & cyc:
                return True
    return False


def ack_wakes_one(F, R, ver):
    """A final acknowledgement frees one slot, so it releases at most one parked sender: in pkt_ack_inner
    (and the helpers it calls) no further waiter is popped after a wake-up was accepted."""
    root = F.one(r'^%s::shared::MqttShared::pkt_ack_inner$' % ver)
    bodies = [root] + [F.bodies[q] for bi, t in root.calls() for q in F.call_targets(t) if q in F.bodies and q.startswith('%s::shared::' % ver)]
    n = 0
    for b in bodies:
        pops = {x[0] for x in calls_on_field(b, r'VecDeque::<T, A>::(pop_front|pop_back)$', 'waiters')}
        if not pops:
            continue
        for bi, t, _ap in waiter_sends(b):
            r = None
            # result tested through is_ok()/is_err()
            for xb, xt in b.calls():
                nm = callee_name(xt) or ''
                if nm.endswith('::is_ok') or nm.endswith('::is_err'):
                    og = Origin(b).of_operand(xt['args'][0])
                    if any(l[0] == 'call' and l[2] == bi for l in og):
                        rr = call_bool_branch(b, xb)
                        if rr and rr[0] != 'discr':
                            r = (rr[1], rr[2]) if nm.endswith('::is_ok') else (rr[2], rr[1])
            if r is None:
                continue
            n += 1
            accepted, refused = r
            again = pops & b.reachable(accepted, avoid=[refused])
            R.ob('C13.wake-count', '%s|%s|one-ack-wakes-at-most-one-sender' % (ver, b.path.split('::')[-1]), not again,
                 'after a parked sender accepted the wake-up another waiter can be popped for the same acknowledgement: one freed slot is promised to several senders, the window is exceeded', b.loc(bi))
    R.floor('C13.wake-count', '%s checked wake-ups on the acknowledgement path' % ver, n, 1)


def resolves(b, l, targets):
    for _ in range(8):
        if l in targets:
            return True
        ds = b.whole_defs(l)
        if len(ds) == 1 and ds[0][2] == 'assign' and ds[0][3]['rv']['k'] in ('use', 'cast') and op_place(ds[0][3]['rv']['op']) and not place_proj(op_place(ds[0][3]['rv']['op'])):
            l = op_place(ds[0][3]['rv']['op'])['l']
        else:
            return False
    return False


def stream_resume(F, R, ver):
    w = F.one(r'^%s::shared::MqttShared::want_payload_stream::\{closure#0\}$' % ver)
    sets = [(bi, t) for bi, t in w.calls_to(r'^std::cell::Cell::<T>::set$') if (call_recv_path(w, t, 0) or ('',))[-1] == 'streaming_waiter']
    flag_edges = []
    for bi, t in w.calls():
        if re.search(r'Flags>?::contains$', callee_name(t) or ''):
            r = call_bool_branch(w, bi)
            if r and r[0] != 'discr':
                flag_edges.append((r[0], r[1]))
    ok = bool(sets) and all(any(edge_dominates(w, s, t_, bi) for s, t_ in flag_edges) for bi, t in sets)
    R.ob('C13.stream-resume', '%s|want_payload_stream|parks-only-under-backpressure' % ver, ok, 'the stream is parked although write back-pressure is off: nothing would resume it')
    d = F.one(r'^%s::shared::MqttShared::disable_wr_backpressure$' % ver)
    takes = [(bi, t) for bi, t in d.calls_to(r'^std::cell::Cell::<T>::take$') if (call_recv_path(d, t, 0) or ('',))[-1] == 'streaming_waiter']
    sends = [x for x in waiter_sends(d) if x[2] and not any('pop_front' in y for y in x[2])]
    R.ob('C13.stream-resume', '%s|disable_wr_backpressure|signals-parked-stream' % ver, bool(takes) and bool(sends) and not (set(d.returns()) & d.reachable(0, avoid={t[0] for t in takes})),
         'lifting back-pressure does not take and signal the parked payload stream on every path')
    c = F.one(r'^%s::shared::MqttShared::clear_queues$' % ver)
    takes = [bi for bi, t in c.calls_to(r'^std::cell::Cell::<T>::(take|set|replace)$') if (call_recv_path(c, t, 0) or ('',))[-1] == 'streaming_waiter']
    R.ob('C13.stream-resume', '%s|clear_queues|drops-parked-stream' % ver, bool(takes) and not (set(c.returns()) & c.reachable(0, avoid=set(takes))),
         'teardown keeps the sender of a payload stream parked on back-pressure alive: StreamingPayload::send() never resolves after the connection is closed')
    # control service: flag toggled before the application's control service is awaited
    cs = F.one(r'^<%s::default::ControlService<S, E> as ntex_service::Service<control::Control<E>>>::call::\{closure#0\}$' % ver)
    toggles = {bi for bi, t in cs.calls_to(r'^%s::shared::MqttShared::(enable|disable)_wr_backpressure$' % ver)}
    ys = set(cs.yields())
    early = [y for y in ys if any(t in cs.reachable_after(y) for t in toggles)]
    R.ob('C13.control-order', '%s|ControlService::call|WrBackpressure-applied-before-await' % ver, len(toggles) == 2 and not early,
         'the back-pressure flag is toggled after awaiting the application control service: enable/disable notifications are separate spawned calls, a slow handler lets "disable" overtake "enable" and WRB_ENABLED stays set forever',
         cs.loc(early[0]) if early else None)


def baton(F, R, ver):
    """The object awaited by a parked sender must pass the wake-up on if it is dropped after having
    been woken: accepted shape = the awaited type has a local Drop impl."""
    drops = {im['self'] for im in F.impls if im.get('trait') == 'std::ops::Drop'}
    b = F.one(r'^%s::shared::MqttShared::wait_readiness$' % ver)
    ty = b.local_ty(0)
    m = re.match(r'^std::option::Option<(.*)>$', ty)
    inner = m.group(1) if m else ty
    local_guard = inner.startswith('%s::' % ver) and any(inner.startswith(d.split('<')[0]) for d in drops)
    R.ob('C13.baton', '%s|wait_readiness|parked-object-hands-on-wakeup' % ver, local_guard,
         'a parked sender awaits a bare %s: if it is woken (value delivered) and its future is dropped before it resumes, the freed slot is never offered to the next waiter (no Drop-based baton)' % inner)


def wakes_only_where_the_window_opens(F, R, ver):
    """Who may wake: a parked sender is taken off `waiters` and signalled only inside a function of the connection state that
    itself opens the window (removes an outstanding entry, raises the cap, lifts write back-pressure). A wake-up from anywhere
    else hands out a slot that nobody freed - the woken sender does not look at the window again (D20), so the window is
    exceeded by one for each such wake-up. Counted over every body of the version, helpers spliced into their callers."""
    openers = set()
    for b in F.find(r'^%s::shared::MqttShared::[a-z_]+$' % ver):
        if calls_on_field(b, r'VecDeque::<T, A>::(pop_front|pop_back|remove|swap_remove_back|swap_remove_front)$', 'inflight') or b.path.endswith('::disable_wr_backpressure') \
                or any((call_recv_path(b, t, 0) or ('',))[-1] == 'cap' for bi, t in b.calls_to(r'^std::cell::Cell::<T>::set$')):
            openers.add(b.path)
    n = 0
    for b in F.find(r'^(<)?%s::' % ver):
        pops = calls_on_field(b, r'VecDeque::<T, A>::(pop_front|pop_back|remove|swap_remove_front|swap_remove_back)$', 'waiters')
        if not pops:
            continue
        sends = [x for x in waiter_sends(b) if x[2] and any('pop_' in y or 'remove' in y for y in x[2])]
        if not sends:
            continue
        n += 1
        topf = re.sub(r'(::\{(closure|inl)#\d+\})+$', '', b.path)
        R.ob('C13.wake-count', '%s|%s|wakes-a-parked-sender-only-where-the-window-opens' % (ver, topf), topf in openers,
             'a parked sender is woken in a function that frees no window slot itself (no outstanding entry removed, cap not raised, back-pressure not lifted): the woken sender transmits without looking at the window again, one more packet than the limit is in flight', b.loc(sends[0][0]))
    R.floor('C13.wake-count', '%s functions that wake parked senders' % ver, n, 3)


def backpressure_notified(F, R):
    """The io dispatcher tells the connection state about write back-pressure through Control::wr(true) / wr(false); senders
    parked by wr(true) resume only on wr(false). Typestate pairing in Dispatcher::poll: every store `st = Processing` made in
    the Backpressure state is followed on every way out (return or next loop round) by control.call(Control::wr(false)), and
    every store `st = Backpressure` by wr(true) - or the notification was sent before the store. A way out in between (a
    `ready!` that returns Pending) leaves WRB_ENABLED set for ever on a healthy connection."""
    import c07
    poll = F.one(r'^<io::Dispatcher<P, C, U, E> as std::future::Future>::poll$')
    head = c07.loop_head(F, poll)
    arms = variant_edges(F, poll, c07.ST)
    regions = {v: arm_region(poll, e) for v, e in arms.items() if not v.endswith('?')}
    wr = {True: set(), False: set()}
    for bi, t, kind in c07.control_calls(poll):
        if 'wr' not in kind.split('+'):
            continue
        for l in Origin(poll).of_operand(t['args'][1]):
            if l[0] == 'call' and l[1].startswith('control::Control') and l[1].endswith('::wr') and isinstance(l[2], int):
                v = const_of_local(poll, poll.blocks[l[2]]['term']['args'][0]) if poll.blocks[l[2]]['term'].get('args') else None
                if v in (0, 1):
                    wr[bool(v)].add(bi)
    n = 0
    for bi, var, st in c07.state_stores(poll):
        src = [v for v in regions if bi in regions[v]]
        if (src, var) == (['Backpressure'], 'Processing'):
            want = False
        elif (src, var) == (['Processing'], 'Backpressure'):
            want = True
        else:
            continue
        n += 1
        notes = wr[want]
        before = any(poll.dominates(x, bi) and x in regions[src[0]] for x in notes)
        out = (set(poll.returns()) | {head}) & poll.reachable_after(bi, avoid=notes)
        R.ob('C13.control-order', 'io::Dispatcher::poll|%s->%s|control-notified-wr(%s)' % (src[0], var, str(want).lower()), bool(notes) and (before or not out),
             'the dispatcher changes its back-pressure state (%s -> %s) and can leave the poll round without Control::wr(%s): the connection state keeps the old back-pressure flag, parked senders never resume' % (src[0], var, str(want).lower()),
             poll.loc(sorted(out)[0]) if out else poll.loc(bi))
    R.floor('C13.control-order', 'back-pressure state changes in Dispatcher::poll', n, 2)


def run(F, R):
    backpressure_notified(F, R)
    for ver in ('v3', 'v5'):
        wakes_only_where_the_window_opens(F, R, ver)
        wake_checked(F, R, ver)
        every_opening_wakes(F, R, ver)
        park_only_when_closed(F, R, ver)
        wake_count(F, R, ver)
        stream_resume(F, R, ver)
        baton(F, R, ver)
