"""Shared view of the four protocol dispatchers (v3/v5 x server/client): their `call` coroutine,
match arms, helper coroutines and the places holding the inbound in-flight id set."""
from facts import *

DISPATCHERS = {
    'v3-server': dict(mod='v3::dispatcher', ver='v3', role='server'),
    'v3-client': dict(mod='v3::client::dispatcher', ver='v3', role='client'),
    'v5-server': dict(mod='v5::dispatcher', ver='v5', role='server'),
    'v5-client': dict(mod='v5::client::dispatcher', ver='v5', role='client'),
}


class Disp:
    def __init__(self, F, name):
        d = DISPATCHERS[name]
        self.F = F
        self.name = name
        self.mod = d['mod']
        self.ver = d['ver']
        self.role = d['role']
        self.decoded = '%s::codec::Decoded' % self.ver
        self.packet = '%s::codec::packet::Packet' % self.ver
        esc = re.escape
        self.call = F.one(r'^<%s::Dispatcher<T, C, E> as ntex_service::Service<%s>>::call::\{closure#0\}$' % (esc(self.mod), esc(self.decoded)))
        self.publish_fn = F.one(r'^%s::publish_fn::\{closure#0\}$' % esc(self.mod))
        self.control_pkt = F.body('%s::Inner::<C>::control_pkt::{closure#0}' % self.mod)
        # MQTT 5: `control` is a one-line wrapper `control_pkt(pkt, <no id>)`; a tree that calls control_pkt directly has none
        self.control = (F.body('%s::Inner::<C>::control::{closure#0}' % self.mod) if self.control_pkt else None) or self.control_pkt \
            or F.one(r'^%s::Inner::<C>::control::\{closure#0\}$' % esc(self.mod))
        self.shutdown = F.one(r'^<%s::Dispatcher<T, C, E> as ntex_service::Service<%s>>::shutdown::\{closure#0\}$' % (esc(self.mod), esc(self.decoded)))
        self.ready = F.one(r'^<%s::Dispatcher<T, C, E> as ntex_service::Service<%s>>::ready::\{closure#0\}$' % (esc(self.mod), esc(self.decoded)))
        self._dec = variant_edges(F, self.call, self.decoded)
        self._pkt = variant_edges(F, self.call, self.packet)
        self._regions = {}

    def bodies(self):
        """Coroutines that together implement request handling."""
        out = [self.call, self.publish_fn, self.control]
        if self.control_pkt and self.control_pkt is not self.control:
            out.append(self.control_pkt)
        return out

    def arm_edges(self, name):
        """name: 'Publish' | 'PayloadChunk' | 'Packet:<Variant>'"""
        if name.startswith('Packet:'):
            return self._pkt.get(name[7:], [])
        return self._dec.get(name, [])

    def arm(self, name):
        if name not in self._regions:
            e = self.arm_edges(name)
            self._regions[name] = arm_region(self.call, e) if e else set()
        return self._regions[name]

    def packet_arms(self):
        return [k for k in self._pkt if not k.endswith('?')]

    def handler_awaits(self, body=None):
        """Awaits of publish_fn / control / control_pkt futures inside `body` (default: call)."""
        body = body or self.call
        out = []
        for a in await_points(body):
            ap = a['awaited'] or ('?',)
            m = re.match(r'call:%s::(publish_fn|Inner::<C>::control|Inner::<C>::control_pkt)$' % re.escape(self.mod), ap[0])
            if m:
                a = dict(a, kind=m.group(1).split('::')[-1])
                out.append(a)
        return out

    def call_sites(self, body, what):
        """Call terminators (constructing the future) of publish_fn/control/control_pkt in body."""
        return list(body.calls_to(r'^%s::(%s)$' % (re.escape(self.mod), what)))

    def set_calls(self, body, method, field):
        """Calls of HashSet::<method> on the per-connection id set stored in `field`."""
        res = []
        for bi, t in body.calls_to(r'HashSet::<T, S, A>::%s$' % method):
            ap = call_recv_path(body, t, 0)
            if ap and ap[-1] == field:
                res.append((bi, t, ap))
        return res

    def inflight_calls(self, body, method):
        """Calls of HashSet::<method> on the inbound in-flight id set."""
        res = []
        for bi, t in body.calls_to(r'HashSet::<T, S, A>::%s$' % method):
            ap = call_recv_path(body, t, 0)
            if ap and ap[-1] == 'inflight':
                res.append((bi, t, ap))
        return res


def all_dispatchers(F):
    return [Disp(F, n) for n in DISPATCHERS]


def agg_sites(body, adt_pat, variant=None):
    """Aggregate constructions of an ADT (regex on path) / variant in a body: (block, stmt idx, stmt)."""
    rx = re.compile(adt_pat)
    out = []
    for bi, j, s in body.assigns():
        rv = s['rv']
        if rv['k'] == 'agg' and rv.get('agg') == 'adt' and rx.search(rv['adt']) and (variant is None or rv['variant'] == variant):
            out.append((bi, j, s))
    return out


def err_returns(body):
    """Blocks that build `Result::Err` into the return place or any local (Err aggregates)."""
    return [(bi, j, s) for bi, j, s in agg_sites(body, r'^std::result::Result$', 'Err')]
