"""C12 (structural part): counter: the Boolean/arithmetic expressions of Counter/CounterInner
(inc, dec, available, is_available) are extracted from MIR and three lemmas are checked by
enumerating all small states over the extracted expressions (L1: whenever dec turns 'unavailable' into
'available' it wakes the waiter; L2: is_available == available; L3: inc/dec update both counters
symmetrically); gate: InFlightServiceImpl::ready waits for capacity unless a streamed publish is in
progress or capacity is available, call holds the guard across the inner call, and the streaming flag
is never cleared by a chunk request; recvmax: both v5 dispatchers compare the in-flight id set with
the negotiated Receive Maximum before reserving a QoS>0 PUBLISH, answer with Pub_3_3_4_7/_9 (0x93)
and that set is fed only by PUBLISH; wiring of the limits into the middleware. Overlap under every
interleaving and resumption of reading (liveness) are not decided. recvmax (continued): the count is given back only together with the id (not at PUBREC); wiring (continued): every client create_dispatcher call site hands max_receive to the parameter that becomes the in-flight limit; gate (continued): a streaming flag written as one computed store equals 'PUBLISH raises, chunk keeps, anything else clears' for all inputs.
"""
from facts import *
from disp import *
from symex import SymEx, term_str_v, term_has, skip_logging
import itertools

SYMS = ('max_cap', 'cur_cap', 'max_size', 'cur_size')


class EvalError(Exception):
    pass


def ev(t, env):
    k = t[0]
    if k == 'const':
        return t[1]
    if k == 'arg':
        if t[1] == 2:
            return env['size']
        raise EvalError('arg%d' % t[1])
    if k in ('deref', 'ref'):
        return ev(t[1], env)
    if k == 'cast':
        return ev(t[1], env)
    if k == 'field':
        if t[2] in env:
            return env[t[2]]
        if t[2] == '0' and t[1][0] == 'tuple':
            return ev(t[1][1][0], env)
        raise EvalError('field %s' % t[2])
    if k == 'call':
        nm = t[1]
        if nm.endswith('Cell::<T>::get'):
            a = t[2][0]
            while a[0] in ('ref', 'deref'):
                a = a[1]
            if a[0] == 'field' and a[2] in env:
                return env[a[2]]
        raise EvalError('call %s' % nm)
    if k == 'bin':
        a, b = ev(t[2], env), ev(t[3], env)
        op = t[1]
        return {'Eq': int(a == b), 'Ne': int(a != b), 'Lt': int(a < b), 'Le': int(a <= b), 'Gt': int(a > b), 'Ge': int(a >= b), 'Add': a + b, 'Sub': a - b,
                'BitAnd': a & b, 'BitOr': a | b}[op]
    if k == 'un' and t[1] == 'Not':
        return 1 - ev(t[2], env)
    if k == 'agg' and t[1] == 'std::task::Poll':
        return int(t[2] == 'Ready')
    raise EvalError(str(k))


def holds(p, env):
    for t, c in p.conds:
        if t[0] == 'assert':
            continue
        v = ev(t, env)
        if c[0] == 'eq' and v != c[1]:
            return False
        if c[0] == 'ne' and v in c[1]:
            return False
    return True


def pick(paths, env):
    m = [p for p in paths if holds(p, env)]
    if len(m) != 1:
        raise EvalError('%d paths match %s' % (len(m), env))
    return m[0]


def counter(F, R):
    fns = {}
    for name, pat in (('dec', r'^inflight::CounterInner::dec$'), ('inc', r'^inflight::CounterInner::inc$'), ('available', r'^inflight::CounterInner::available$'), ('is_available', r'^inflight::Counter::is_available$')):
        if name == 'available' and not F.find(pat):
            # the helper went into its (only) caller or answers with Poll instead of bool: the body of the counter module that
            # registers the waker and answers whether there is room
            cands = [x for x in F.find(r'^inflight::') if x.locals[0].get('ty') in ('bool', 'std::task::Poll<()>') and any(True for _ in x.calls_to(r'LocalWaker::register$'))]
            if len(cands) != 1:
                raise AnchorLost("expected exactly one body matching %r (or one body of inflight:: that registers the waker and answers bool / Poll<()>), found %d" % (pat, len(cands)))
            b = cands[0]
        else:
            b = F.one(pat)
        se = SymEx(b, F)
        fns[name] = [p for p in se.run() if p.end[0] == 'return']
        R.ob('C12.counter', '%s|paths-extracted' % name, len(fns[name]) >= 3 and not se.truncated, '%d paths' % len(fns[name]))
        # all gets precede sets per cell (so a get denotes the pre-state)
        for p in fns[name]:
            seen_set = set()
            ok = True
            for nm, args, bi in p.calls:
                if nm.endswith('Cell::<T>::set'):
                    seen_set.add(term_str_v(args[0]))
                if nm.endswith('Cell::<T>::get') and term_str_v(args[0]) in seen_set:
                    ok = False
            if not ok:
                R.ob('C12.counter', '%s|gets-before-sets' % name, False, 'a counter cell is read after it was written in the same call: the extracted expressions no longer denote the pre-state')
    def avail(fn, env):
        p = pick(fns[fn], env)
        return int(bool(ev(p.ret, env)))
    def post(fn, env):
        p = pick(fns[fn], env)
        out = dict(env)
        for nm, args, bi in p.calls:
            if nm.endswith('Cell::<T>::set'):
                a = args[0]
                while a[0] in ('ref', 'deref'):
                    a = a[1]
                if a[0] == 'field' and a[2] in ('cur_cap', 'cur_size'):
                    out[a[2]] = ev(args[1], env)
        woke = any(nm.endswith('LocalWaker::wake') for nm, args, bi in p.calls)
        return out, woke
    n = 0
    bad = {'L1': None, 'L2': None, 'L3inc': None, 'L3dec': None}
    try:
        for max_cap, cur_cap, max_size, cur_size, size in itertools.product(range(0, 8 if R.tier == 'thorough' else 5), repeat=5):
            env = dict(max_cap=max_cap, cur_cap=cur_cap, max_size=max_size, cur_size=cur_size, size=size)
            n += 1
            if avail('available', env) != avail('is_available', env) and not bad['L2']:
                bad['L2'] = env
            pe, _ = post('inc', env)
            if (pe['cur_cap'], pe['cur_size']) != (cur_cap + 1, cur_size + size) and not bad['L3inc']:
                bad['L3inc'] = env
            if cur_cap >= 1 and cur_size >= size:
                pd, woke = post('dec', env)
                if (pd['cur_cap'], pd['cur_size']) != (cur_cap - 1, cur_size - size) and not bad['L3dec']:
                    bad['L3dec'] = env
                if not avail('available', env) and avail('available', pd) and not woke and not bad['L1']:
                    bad['L1'] = env
    except EvalError as e:
        R.ob('C12.counter', 'expressions-evaluable', False, 'the extracted counter expressions contain a term outside +,-,comparisons on {max_cap,cur_cap,max_size,cur_size,size}: %s' % e)
        return
    R.counts['C12.counter:states enumerated'] = n
    R.ob('C12.counter', 'L1|dec: unavailable->available implies wake', bad['L1'] is None,
         'dec() makes capacity available again without waking the task parked in ready(): reading never resumes (state %s)' % bad['L1'])
    R.ob('C12.counter', 'L2|is_available == available', bad['L2'] is None, 'the fast-path predicate differs from the waiting predicate in state %s' % bad['L2'])
    R.ob('C12.counter', 'L3|inc adds (1,size)', bad['L3inc'] is None, 'state %s' % bad['L3inc'])
    R.ob('C12.counter', 'L3|dec subtracts (1,size)', bad['L3dec'] is None, 'state %s' % bad['L3dec'])
    # guard pairing: CounterGuard::new calls inc(size) and stores the same size; Drop calls dec(self.0)
    g = F.body('inflight::CounterGuard::new') or F.one(r'^inflight::Counter::get$')   # (the one-call constructor may be folded into Counter::get)
    incs = list(g.calls_to(r'^inflight::CounterInner::inc$'))
    ok = False
    size_field = '0'
    for bi, t in incs:
        a = leaves_args(Origin(g).of_operand(t['args'][1]))
        aggs = agg_sites(g, r'^inflight::CounterGuard$')
        for xb, j, s in aggs:
            # the field that keeps the size (first field of the tuple struct, or a named field after a refactoring)
            for fi_, fop_ in enumerate(s['rv']['fields']):
                a2 = leaves_args(Origin(g).of_operand(fop_))
                if bool(a) and a == a2:
                    ok = True
                    size_field = (s['rv'].get('names') or [str(i_) for i_ in range(len(s['rv']['fields']))])[fi_]
    R.ob('C12.counter', 'L3|guard stores the size given to inc', ok, 'CounterGuard::new must inc(size) and keep the same size for dec')
    d = F.one(r'^<inflight::CounterGuard as std::ops::Drop>::drop$')
    decs = list(d.calls_to(r'^inflight::CounterInner::dec$'))
    ok = any(apath(d, t['args'][1]) and apath(d, t['args'][1])[-1] == size_field for bi, t in decs)
    R.ob('C12.counter', 'L3|drop calls dec(self.0)', ok, 'Drop for CounterGuard must dec with the stored size')


def computed_flag_mismatch(F, cl, set_block):
    """None when the value stored by the Cell::set at `set_block` equals is_publish || (old && is_chunk) for all inputs
    (a chunk is never a PUBLISH); otherwise a description of the first differing input."""
    tgt = cl.blocks[set_block]['term'].get('target')
    se = SymEx(cl, F, max_paths=4000, loop_visits=1, stop_at=lambda bi: bi == tgt)
    paths = [p for p in se.run() if p.end == ('stop', tgt)]
    if not paths or se.truncated:
        return 'cannot enumerate the paths to the store'
    def evb(t, env):
        k = t[0]
        if k == 'const':
            return int(t[1])
        if k in ('ref', 'deref', 'cast'):
            return evb(t[1], env)
        if k == 'un' and t[1] == 'Not':
            return 1 - evb(t[2], env)
        if k == 'bin' and t[1] in ('BitAnd', 'BitOr', 'Eq', 'Ne', 'BitXor'):
            a, b_ = evb(t[2], env), evb(t[3], env)
            return {'BitAnd': a & b_, 'BitOr': a | b_, 'Eq': int(a == b_), 'Ne': int(a != b_), 'BitXor': a ^ b_}[t[1]]
        if k == 'call':
            nm = t[1] or ''
            if nm.endswith('::is_chunk'):
                return env['chunk']
            if nm.endswith('::is_publish'):
                return env['publish']
            if nm.endswith('Cell::<T>::get') and 'publish' in term_str_v(t):
                return env['old']
        raise EvalError(term_str_v(t))
    for old in (0, 1):
        for chunk, publish in ((0, 0), (1, 0), (0, 1)):
            env = dict(old=old, chunk=chunk, publish=publish)
            want = publish or (old and chunk)
            got = set()
            for p in paths:
                try:
                    okp = True
                    for t, c in p.conds:
                        if t[0] == 'assert':
                            continue
                        v = evb(t, env)
                        if (c[0] == 'eq' and v != c[1]) or (c[0] == 'ne' and v in c[1]):
                            okp = False
                            break
                    if not okp:
                        continue
                    sets = [a for nm, a, bi in p.calls if bi == set_block]
                    got.add(evb(sets[-1][1], env))
                except (EvalError, IndexError, KeyError) as ex:
                    return 'cannot evaluate the stored value (%s)' % ex
            if got != {int(bool(want))}:
                return 'old=%d is_chunk=%d is_publish=%d stores %s, expected %d' % (old, chunk, publish, sorted(got), int(bool(want)))
    return None


def gate(F, R):
    rd = F.one(r'^<inflight::InFlightServiceImpl<S> as ntex_service::Service<R>>::ready::\{closure#0\}$')
    av = [bi for bi, t in rd.calls_to(r'^inflight::Counter::available$')]
    edges = []
    for bi, t in rd.calls_to(r'^inflight::Counter::is_available$'):
        r = call_bool_branch(rd, bi)
        if r and r[0] != 'discr':
            edges.append((r[0], r[1]))
    for bi, t in rd.calls_to(r'^std::cell::Cell::<T>::get$'):
        if (call_recv_path(rd, t, 0) or ('',))[-1] == 'publish':
            r = call_bool_branch(rd, bi)
            if r and r[0] != 'discr':
                edges.append((r[0], r[1]))
    succ = [list(s) for s in rd.succ]
    for s_, t_ in edges:
        succ[s_] = [x for x in succ[s_] if x != t_]
    readys = [bi for bi, t in rd.calls_to(r"^ntex_service::ServiceCtx::<'a, S>::ready$")]
    reach = rd.reachable(0, avoid=set(av), succ=succ)
    bad = [x for x in readys if x in reach]
    R.ob('C12.gate', 'ready|waits-for-capacity-unless-publish-or-available', len(edges) == 2 and bool(av) and not bad,
         'ready() can report readiness without awaiting count.available() although neither a streamed publish is in progress nor capacity is available')
    cl = F.one(r'^<inflight::InFlightServiceImpl<S> as ntex_service::Service<R>>::call::\{closure#0\}$')
    gets = [(bi, t) for bi, t in cl.calls_to(r'^inflight::Counter::get$')] or [(bi, t) for bi, t in cl.calls_to(r'^inflight::CounterGuard::new$')]
    calls = [(bi, t) for bi, t in cl.calls_to(r"^ntex_service::ServiceCtx::<'a, S>::call$")]
    R.ob('C12.gate', 'call|guard-before-inner-call', len(gets) == 1 and len(calls) == 1 and cl.must_pass({gets[0][0]}, calls[0][0]), 'the in-flight guard must be taken before the inner service is called')
    if gets:
        gl = gets[0][1]['dest']['l']
        aw = [a for a in await_points(cl)]
        ready_edges = [(a['switch'], a['ready']) for a in aw]
        drops = []
        for bi in cl.live:
            t = cl.blocks[bi]['term']
            if t['k'] == 'drop' and t['place']['l'] == gl and not place_proj(t['place']):
                drops.append(bi)
            if t['k'] == 'call' and (callee_name(t) or '').endswith('mem::drop') and op_place(t['args'][0]):
                og = Origin(cl).of_operand(t['args'][0])
                if any(l[0] == 'call' and l[1] in ('inflight::Counter::get', 'inflight::CounterGuard::new') for l in og):
                    drops.append(bi)
        # the normal-path release is after the await completed
        normal = [x for x in drops if any(edge_dominates(cl, s, t_, x) for s, t_ in ready_edges)]
        early = [x for x in drops if not any(edge_dominates(cl, s, t_, x) for s, t_ in ready_edges) and x in cl.reachable(0, avoid={a['poll'] for a in aw})]
        R.ob('C12.gate', 'call|guard-held-across-inner-call', bool(normal) and not early, 'the in-flight guard is released before the inner call completed (drops at %s)' % [cl.loc(x) for x in early])
    # streaming flag
    n = 0
    chunk_edges = []
    for bi, t in cl.calls():
        if (callee_name(t) or '').endswith('SizedRequest::is_chunk') or (callee_name(t) or '').endswith('::is_chunk'):
            r = call_bool_branch(cl, bi)
            if r and r[0] != 'discr':
                chunk_edges.append((r[0], r[2]))
    pub_edges = []
    for bi, t in cl.calls():
        if (callee_name(t) or '').endswith('::is_publish'):
            r = call_bool_branch(cl, bi)
            if r and r[0] != 'discr':
                pub_edges.append((r[0], r[1]))
    for bi, t in cl.calls_to(r'^std::cell::Cell::<T>::set$'):
        if (call_recv_path(cl, t, 0) or ('',))[-1] != 'publish':
            continue
        n += 1
        v = const_val(t['args'][1])
        if v == 1:
            ok = any(edge_dominates(cl, s, t_, bi) for s, t_ in pub_edges)
            R.ob('C12.gate', 'call|publish-flag|set(true)-only-for-publish', ok, 'the streaming flag is raised for a request that is not a PUBLISH', cl.loc(bi))
        elif v == 0:
            ok = any(edge_dominates(cl, s, t_, bi) for s, t_ in chunk_edges)
            R.ob('C12.gate', 'call|publish-flag|set(false)-never-on-chunk', ok,
                 'the "streamed publish in progress" flag can be cleared while payload chunks are still arriving: later chunks wait in ready() for capacity held by the handler that is waiting for those chunks (stall)', cl.loc(bi))
        else:
            # computed value (`flag.set(is_publish || (flag && is_chunk))`): evaluated for every combination of the old flag
            # and the two request predicates and compared with what the two constant updates do
            bad = computed_flag_mismatch(F, cl, bi)
            n += 1      # one store does the work of the two conditional ones
            R.ob('C12.gate', 'call|publish-flag|computed-update==raise-on-publish,keep-on-chunk,clear-otherwise', bad is None,
                 'the streaming flag is overwritten with a computed value that differs from "PUBLISH raises it, a payload chunk keeps it, anything else clears it": %s' % (bad,), cl.loc(bi))
    R.floor('C12.gate', 'publish flag updates', n, 2)
    # the bypass must end with the stream: either set(true) is conditional on more than is_publish()
    # (payload incomplete) or the flag is cleared after the inner call completed / at the final chunk
    ready_edges = [(a['switch'], a['ready']) for a in await_points(cl)]
    clears_after = [bi for bi, t in cl.calls_to(r'^std::cell::Cell::<T>::set$') if (call_recv_path(cl, t, 0) or ('',))[-1] == 'publish' and const_val(t['args'][1]) == 0
                    and any(edge_dominates(cl, s_, t_, bi) for s_, t_ in ready_edges)]
    trues = [bi for bi, t in cl.calls_to(r'^std::cell::Cell::<T>::set$') if (call_recv_path(cl, t, 0) or ('',))[-1] == 'publish' and const_val(t['args'][1]) == 1]
    extra_cond = False
    for bi in trues:
        doms = [d_ for d_ in cl.dom.get(bi, ()) if cl.blocks[d_]['term']['k'] == 'switch' and any(edge_dominates(cl, d_, tg, bi) for tg in cl.succ[d_])]
        extra_cond = extra_cond or len(doms) >= 2
    R.ob('C12.gate', 'call|publish-flag|bypass-ends-with-the-stream', bool(clears_after) or extra_cond,
         'the limiter bypass flag is raised for every PUBLISH (also one whose payload arrived inline) and is cleared only by a later packet that is neither PUBLISH nor chunk: '
         'for back-to-back PUBLISH packets ready() never waits for capacity, so more than max_receive handlers run at once')
    # admission must be counted before the dispatcher asks for readiness again: a call future that is spawned
    # without having been polled has not taken its CounterGuard yet
    csb = F.one(r'^io::DispatcherInner::<P, C, U, E>::call_service$')
    cn = [(bi, t) for bi, t in csb.calls_to(r'ntex_service::PipelineBinding::<S, R>::call_nowait$')]
    R.ob('C12.gate', 'io::call_service|call_nowait-sites', len(cn) == 1, 'found %d' % len(cn))
    for bi, t in cn:
        L = t['dest']['l']
        polls = set()
        for pb, pt in csb.calls_to(r'as std::future::Future>::poll$'):
            og = Origin(csb, transparent=re.compile(TRANSPARENT_CALLS.pattern[:-2] + r'|new)$')).of_operand(pt['args'][0])
            if any(l[0] == 'call' and l[1].endswith('call_nowait') for l in og):
                polls.add(pb)
        for xb, xj, st in csb.assigns():
            rv = st['rv']
            if rv['k'] == 'agg' and rv.get('agg') in ('coroutine', 'closure') and any(op_place(f) and op_place(f)['l'] == L for f in rv['fields']):
                R.ob('C12.gate', 'io::call_service|spawned-call|polled-before-spawn', csb.must_pass(polls, xb),
                     'a handler call is handed to a spawned task without having been polled: InFlightServiceImpl::call takes its CounterGuard only when first polled, so the next readiness check '
                     'still sees the old count and several requests already buffered are all admitted (max_receive exceeded for packets arriving in one read)', csb.loc(xb))


def recvmax(F, R):
    for d in all_dispatchers(F):
        if d.ver != 'v5':
            continue
        b = d.call
        reg = d.arm('Publish')
        # the counted set: the per-connection HashSet whose len() is tested in the PUBLISH arm (`inflight`, or a set that holds
        # the ids of publications only)
        all_lens = [(bi, t, (call_recv_path(b, t, 0) or ('',))[-1]) for bi, t in b.calls_to(r'HashSet::<T, S, A>::len$') if bi in reg and 'log' not in t.get('mac', '')]
        fields = sorted({f_ for _, _, f_ in all_lens if f_})
        counted = 'inflight' if 'inflight' in fields or not fields else fields[0]
        lens = [(bi, t) for bi, t, f_ in all_lens if f_ == counted]
        R.ob('C12.recvmax', '%s|compares inflight.len()' % d.name, len(lens) >= 1, 'no length test of the in-flight id set in the PUBLISH arm')
        from c16 import val_key
        ins = [(bi, t, ap) for bi, t, ap in d.set_calls(b, 'insert', counted) if bi in reg]
        if counted != 'inflight':
            # two-set design: every publication whose id was reserved is counted, and every release of an id releases the count
            res_ins = [(bi, t, ap) for bi, t, ap in d.inflight_calls(b, 'insert') if bi in reg]
            pf_sites = [bi for bi, t in d.call_sites(b, 'publish_fn') if bi in reg]
            cnt_blocks = {bi for bi, t, ap in ins}
            for rbi, rt, rap in res_ins:
                rr = call_bool_branch(b, rbi)
                start = rr[1] if rr and rr[0] != 'discr' else b.blocks[rbi]['term'].get('target', rbi)
                missed = [x for x in pf_sites if x in b.reachable(start, avoid=cnt_blocks)]
                R.ob('C12.recvmax', '%s|reserved-publication=>counted' % d.name, bool(cnt_blocks) and not missed,
                     'a QoS>0 PUBLISH whose id was reserved can reach the handler without being added to the set compared with Receive Maximum: the limit is not enforced for it', b.loc(rbi))
            for body in d.bodies():
                rel = [bi for bi, t, ap in d.inflight_calls(body, 'remove')]
                crel = {bi for bi, t, ap in d.set_calls(body, 'remove', counted)}
                # ... and the converse: the count is given back only together with the id (a QoS 2 publication keeps counting
                # from PUBREC until its PUBREL is handled)
                for x in sorted(crel):
                    ok_c = bool(rel) and (any(r_ in body.dom.get(x, ()) for r_ in rel) or not (set(body.returns()) & body.reachable_after(x, avoid=set(rel))))
                    R.ob('C12.recvmax', '%s|%s|count-released=>id-released' % (d.name, body.path.split('::')[-2] if '{closure' in body.path else body.path.split('::')[-1]), ok_c,
                         'a publication stops counting against Receive Maximum on a path that keeps its packet id in flight (e.g. at PUBREC): the peer may have more than the announced number of unacknowledged QoS 2 publications accepted', body.loc(x))
                for x in rel:
                    ok_rel = bool(crel) and (any(c_ in body.dom.get(x, ()) for c_ in crel) or not (set(body.returns()) & body.reachable_after(x, avoid=crel)))
                    R.ob('C12.recvmax', '%s|%s|id-released=>count-released' % (d.name, body.path.split('::')[-2] if '{closure' in body.path else body.path.split('::')[-1]), ok_rel,
                         'a packet id is released without being removed from the set compared with Receive Maximum: completed publications keep counting and the peer is eventually refused with 0x93', body.loc(x))
        len_locals = {t['dest']['l'] for bi, t in lens}
        cmps = []  # (switch block, op, limit key, len_is_lhs)
        zero_tests = []
        for sb in sorted(reg):
            t = b.blocks[sb]['term']
            if t['k'] != 'switch':
                continue
            p = op_place(t['discr'])
            if not p:
                continue
            for (xb, xs, kind, x) in b.whole_defs(p['l']):
                if kind != 'assign' or x['rv']['k'] != 'bin':
                    continue
                rv = x['rv']
                ka, kb = val_key(b, rv['a']), val_key(b, rv['b'])
                la = op_place(rv['a']) and resolves_to(b, op_place(rv['a'])['l'], len_locals)
                lb = op_place(rv['b']) and resolves_to(b, op_place(rv['b'])['l'], len_locals)
                if rv['op'] in ('Ge', 'Gt', 'Lt', 'Le') and (la or lb):
                    cmps.append((sb, rv['op'], kb if la else ka, bool(la), p['l']))
                if rv['op'] in ('Ne', 'Eq') and (kb == ('const', 0) or ka == ('const', 0)):
                    zero_tests.append((sb, ka if kb == ('const', 0) else kb))
                # the same test for an unsigned value spelled `x > 0`, `0 < x`, `x >= 1`, `1 <= x`
                if (rv['op'] == 'Gt' and kb == ('const', 0)) or (rv['op'] == 'Ge' and kb == ('const', 1)):
                    zero_tests.append((sb, ka))
                if (rv['op'] == 'Lt' and ka == ('const', 0)) or (rv['op'] == 'Le' and ka == ('const', 1)):
                    zero_tests.append((sb, kb))
        R.ob('C12.recvmax', '%s|len-vs-limit comparison' % d.name, len(cmps) == 1, 'found %d comparisons of inflight.len() in the PUBLISH arm' % len(cmps))
        src_ok = False
        for sb, op, lim, len_lhs, loc_ in cmps:
            if d.role == 'server':
                src_ok = lim[0] == 'ap' and any(z == 'call:v5::shared::MqttShared::receive_max' for z in lim)
            else:
                src_ok = lim[0] == 'ap' and lim[-1] == 'max_receive'
            zt = {z for z, k in zero_tests if k == lim}
            for ibi, it, iap in ins:
                R.ob('C12.recvmax', '%s|insert-after-limit-test' % d.name, b.must_pass(zt | {sb}, ibi) and bool(zt), 'a QoS>0 PUBLISH id is reserved on a path that never tested the Receive Maximum', b.loc(ibi))
            r = bool_branch(b, sb, loc_)
            if r:
                _, tt, ft = r
                over = tt if ((op in ('Ge', 'Gt')) == len_lhs) else ft
                under = ft if over == tt else tt
                oreg = b.reachable(over, avoid=[under])
                sv_over = [s_['rv']['variant'] for bi_, j_, s_ in agg_sites(b, r'^error::SpecViolation$') if bi_ in oreg]
                R.ob('C12.recvmax', '%s|over-limit=>refused-without-reserving' % d.name, any(v.startswith('Pub_3_3_4_') for v in sv_over) and not any(ibi in oreg for ibi, _, _ in ins),
                     'when the in-flight count has reached the limit the PUBLISH must be refused (Pub_3_3_4_x) without being reserved')
                R.ob('C12.recvmax', '%s|comparison-is->=' % d.name, (op == 'Ge' and len_lhs) or (op == 'Le' and not len_lhs), 'comparison operator is %s (len on %s): the limit is off by one' % (op, 'lhs' if len_lhs else 'rhs'))
        R.ob('C12.recvmax', '%s|limit-origin' % d.name, src_ok, 'the in-flight count is not compared with %s' % ('shared.receive_max() (advertised in CONNACK)' if d.role == 'server' else 'the dispatcher\'s max_receive (CONNECT receive_max)'))
        sv = [s_['rv']['variant'] for bi_, j_, s_ in agg_sites(b, r'^error::SpecViolation$') if bi_ in reg]
        want = 'Pub_3_3_4_7' if d.role == 'server' else 'Pub_3_3_4_9'
        R.ob('C12.recvmax', '%s|refusal=%s' % (d.name, want), want in sv, 'SpecViolations used in the PUBLISH arm: %s' % sv)
        # who feeds the set: only the PUBLISH arm
        allins = d.set_calls(b, 'insert', counted)
        others = [(bi, t) for bi, t, ap in allins if bi not in reg]
        for bi, t in others:
            arm = [a for a in ('Packet:Subscribe', 'Packet:Unsubscribe') if bi in d.arm(a)]
            R.ob('C12.recvmax', '%s|set-fed-only-by-PUBLISH|%s' % (d.name, '+'.join(arm) or '?'), False,
                 'the set whose size is compared with Receive Maximum also receives %s packet ids: a peer that stays within its Receive Maximum is refused with 0x93 while a subscribe/unsubscribe is being handled' % ('+'.join(arm) or 'other'), b.loc(bi))
        if not others:
            R.ob('C12.recvmax', '%s|set-fed-only-by-PUBLISH' % d.name, True, 'only the PUBLISH arm inserts into the counted set')
    codes = F.enum_variants('v5::codec::packet::disconnect::DisconnectReasonCode')
    R.ob('C12.recvmax', 'ReceiveMaximumExceeded=0x93', codes.get('ReceiveMaximumExceeded') == 0x93, 'value %s' % codes.get('ReceiveMaximumExceeded'))
    # client limit source: connector passes CONNECT receive_max
    cn = F.one(r'^v5::client::connector::MqttConnectorService::<A, T>::connect_inner::\{closure#0\}$')
    news = [(bi, t) for bi, t in cn.calls_to(r'^v5::client::connection::Client::new$')]
    ok = False
    for bi, t in news:
        for a in t['args']:
            ap = apath(cn, a)
            og = Origin(cn, transparent=re.compile(TRANSPARENT_CALLS.pattern[:-2] + r'|map_or)$')).of_operand(a)
            if any(l[0] == 'field' or True for l in og) and ap and 'receive_max' in ap:
                ok = True
            if any(l[0] == 'call' and l[1].endswith('map_or') for l in Origin(cn).of_operand(a)):
                ap2 = [apath(cn, x['args'][0]) for xb, x in cn.calls_to(r'Option::<T>::map_or$')]
                if any(p and 'receive_max' in p for p in ap2):
                    ok = True
    R.ob('C12.recvmax', 'v5-client|max_receive<-CONNECT.receive_max', ok, 'the client does not derive its inbound limit from the receive_max it advertised in CONNECT')
    # ... the CONNECT one, not the CONNACK's (which limits the other direction and shadows the name `pkt` in the accept arm)
    def field_adts(op, depth=0, seen=None):
        seen = seen if seen is not None else set()
        out = set()
        pl = op_place(op)
        if pl is None or depth > 12:
            return out
        for e in place_proj(pl):
            if isinstance(e, dict) and e.get('f') == 'receive_max':
                out.add(e.get('adt'))
        if pl['l'] in seen:
            return out
        seen.add(pl['l'])
        for d_ in cn.whole_defs(pl['l']):
            if d_[0] not in cn.live:
                continue
            if d_[2] == 'assign':
                rv = d_[3]['rv']
                if rv['k'] in ('use', 'cast') and rv.get('op') is not None:
                    out |= field_adts(rv['op'], depth + 1, seen)
                elif rv['k'] in ('ref', 'discr'):
                    out |= field_adts({'cp': rv['place']}, depth + 1, seen)
                elif rv['k'] == 'agg':
                    for f_ in rv.get('fields') or []:
                        out |= field_adts(f_, depth + 1, seen)
            elif d_[2] == 'call' and re.search(r'::(map_or|get|unwrap_or|unwrap|into|from|map|copied|cloned|as_ref)$', callee_name(d_[3]) or ''):
                for a_ in d_[3]['args']:
                    out |= field_adts(a_, depth + 1, seen)
        return out
    adts_ = set()
    lim_idx = None
    for bi, t in news:
        for a in t['args']:
            fa = field_adts(a)
            if fa:
                adts_ |= fa
    R.ob('C12.recvmax', 'v5-client|max_receive-is-the-CONNECT-field', bool(adts_) and all((x or '').endswith('connect::Connect') for x in adts_),
         'the inbound limit handed to the client is read from %s: the Receive Maximum of CONNACK limits what the client may send, the client must enforce the value it announced in CONNECT' % sorted(map(str, adts_)), cn.loc(news[0][0]) if news else cn.loc(0))


def resolves_to(b, l, targets):
    for _ in range(8):
        if l in targets:
            return True
        ds = b.whole_defs(l)
        if len(ds) == 1 and ds[0][2] == 'assign' and ds[0][3]['rv']['k'] in ('use', 'cast') and op_place(ds[0][3]['rv']['op']) and not place_proj(op_place(ds[0][3]['rv']['op'])):
            l = op_place(ds[0][3]['rv']['op'])['l']
        else:
            return False
    return False


def wiring(F, R):
    for ver, want0 in (('v3', 'max_receive'), ('v5', 0)):
        bs = [b for b in F.bodies.values() if b.path.startswith('<%s::default::InFlightService' % ver) or b.path.startswith('%s::default::' % ver)]
        found = False
        for b in bs:
            for bi, t in b.calls_to(r'^inflight::InFlightServiceImpl::<S>::new$'):
                found = True
                a0, a1 = t['args'][0], t['args'][1]
                if want0 == 0:
                    ok0 = const_val(a0) == 0
                else:
                    ap = apath(b, a0)
                    ok0 = ap is not None and ap[-1] == 'max_receive'
                ap1 = apath(b, a1)
                ok1 = ap1 is not None and ap1[-1] == 'max_receive_size'
                R.ob('C12.wiring', '%s|InFlightServiceImpl::new(max_cap)' % ver, ok0, 'first argument: %s' % (const_val(a0) if const_val(a0) is not None else apath_str(apath(b, a0))), b.loc(bi))
                R.ob('C12.wiring', '%s|InFlightServiceImpl::new(max_size)' % ver, ok1, 'second argument: %s' % apath_str(ap1), b.loc(bi))
        R.ob('C12.wiring', '%s|middleware-constructed' % ver, found, 'InFlightServiceImpl::new not found in %s::default' % ver)


def client_wiring(F, R):
    """The client dispatchers are built by create_dispatcher(..): the parameter that becomes the in-flight limit (v3: first
    argument of InFlightService::new; v5: the max_receive field of Dispatcher) receives `max_receive` of the connection at
    every call site - not a neighbouring same-typed setting (an argument swap between two usize parameters type-checks)."""
    n = 0
    for ver in ('v3', 'v5'):
        cb = F.one(r'^%s::client::dispatcher::create_dispatcher$' % ver)
        idx = set()
        if ver == 'v3':
            for bi, t in cb.calls_to(r'InFlightService::<S>::new$|InFlightService<.*>::new$|::InFlightService::new$'):
                idx |= {l[1] for l in Origin(cb).of_operand(t['args'][0]) if l[0] == 'arg'}
        else:
            for bi, j, st in agg_sites(cb, r'^v5::client::dispatcher::Dispatcher$'):
                names = st['rv'].get('names') or []
                if 'max_receive' in names:
                    idx |= {l[1] for l in Origin(cb).of_operand(st['rv']['fields'][names.index('max_receive')]) if l[0] == 'arg'}
        R.ob('C12.wiring', '%s-client|create_dispatcher|limit-parameter-found' % ver, len(idx) == 1, 'parameters reaching the in-flight limit: %s' % sorted(idx), cb.loc(0))
        if len(idx) != 1:
            continue
        pi = idx.pop() - 1
        for b in F.find(r'^(<)?%s::client::' % ver):
            for bi, t in b.calls_to(r'^%s::client::dispatcher::create_dispatcher$' % ver):
                n += 1
                ap = apath(b, t['args'][pi]) if pi < len(t['args']) else None
                R.ob('C12.wiring', '%s-client|%s|create_dispatcher(limit <- max_receive)' % (ver, re.sub(r'(::\{(closure|inl)#\d+\})+$', '', b.path)), ap is not None and ap[-1] == 'max_receive',
                     'the in-flight limit of the client dispatcher is built from %s, not from the configured max_receive' % apath_str(ap), b.loc(bi))
    # a start variant that hands over to a sibling (`start_default` -> `start` -> `start_with_control`) has no site of its own
    for ver in ('v3', 'v5'):
        for b in F.find(r'^%s::client::connection::(Client|ClientRouter::<Err, PErr>)::start\w*::\{closure#0\}$' % ver):
            if not list(b.calls_to(r'^%s::client::dispatcher::create_dispatcher$' % ver)) and list(b.calls_to(r'^%s::client::connection::(Client|ClientRouter::<Err, PErr>)::start\w*$' % ver)):
                n += 1
    R.floor('C12.wiring', 'client create_dispatcher call sites', n, 6)


def counted_set_shrinks(F, R):
    """The set compared with Receive Maximum must lose an id on every final acknowledgement (imports the
    C11.release rule for the v5 dispatchers): otherwise a peer within its Receive Maximum is refused."""
    import c11, runner
    rep = runner.Report('C11', 'quick')
    for d in all_dispatchers(F):
        if d.ver == 'v5':
            c11.release(F, rep, d)
    bad = [i for i in rep.items if not i['ok']]
    R.ob('C12.recvmax', 'v5|counted-set-released-on-every-final-ack (C11.release)', not bad,
         'ids stay in the set compared with Receive Maximum after their acknowledgement was produced: %s' % '; '.join(i['key'] for i in bad)[:400])


def enforced_is_announced(F, R):
    """The Receive Maximum the v5 server enforces is the one it announced in CONNACK, stored unconditionally
    (imports the C19.limits obligations about the receive maximum)."""
    import c19, runner
    rep = runner.Report('C19', 'quick')
    c19.limits(F, rep)
    mine = [i for i in rep.items if 'receive maximum' in i['key'].lower() or 'receive_max' in i['key']]
    bad = [i for i in mine if not i['ok']]
    R.ob('C12.recvmax', 'v5-server|enforced-receive-maximum==announced (C19.limits, %d instances)' % len(mine), bool(mine) and not bad,
         'the limit compared with the in-flight set is not (always) the value announced in CONNACK: %s' % '; '.join(i['key'] for i in bad)[:300])


def run(F, R):
    enforced_is_announced(F, R)
    counted_set_shrinks(F, R)
    counter(F, R)
    gate(F, R)
    recvmax(F, R)
    wiring(F, R)
    client_wiring(F, R)
    R.assume('lemma domain 0..4 per symbol: every atom of the extracted expressions is a difference constraint with constants <= 1, so all orderings are covered')
