"""Transparent helpers: functions that do not exist on the pinned tree are spliced into their callers.

The rules anchor on the functions of the pinned tree (spec/known_defs.json: every fn / method def path at
the commit the rules were written against). A later edit that extracts a helper, splits a function into
private methods or merges two siblings into a generic private helper introduces def paths that are not in
that list. Before any rule runs, every call from a known function to such an *unknown* local function is
replaced by the callee's MIR (locals and blocks renumbered, arguments assigned, `return` turned into an
assignment of the destination and a goto), repeatedly, so the rules see the code the way they would if the
helper had been written in place:

  * plain fns / methods, including trait-impl methods resolved by the driver;
  * `async fn` helpers: the call builds the coroutine value (spliced like any fn); the `poll` call of the
    await loop that resolves to the unknown coroutine body is replaced by that body - its `Yield`s become
    yields of the caller (await-atomicity rules keep seeing them), its `return` builds `Poll::Ready(v)` and
    continues on the Ready edge of the await;
  * closure / fn-item parameters of an unknown generic helper: inside a spliced region `FnOnce::call_once`
    (`FnMut::call_mut`, `Fn::call`) on a value that is a closure aggregate or a fn item of the caller is
    rewritten into a direct call (arguments untupled), and closure bodies reached that way are spliced too;
  * closures defined inside a spliced helper are copied under the caller (path `<caller>::{inl#k}::{closure#n}`)
    so that `family(caller)` still contains all the code that runs on behalf of the caller.

An unknown function all of whose uses were spliced (and which is not exported) is removed from the facts so
that who-may-call rules do not see its sites twice. Nothing happens on the pinned tree itself (no unknown
function exists), so every count confirmed by hand is unaffected. Recursion, very large callees and more
than MAX_SPLICES per caller are left as calls (the rules then treat them as they treat any opaque call).
"""
import json, os, re, copy

VERIF = os.path.dirname(os.path.dirname(os.path.abspath(__file__)))
KNOWN = os.path.join(VERIF, 'spec', 'known_defs.json')
MAX_SPLICES = 80
MAX_CALLEE_BLOCKS = 600
MAX_DEPTH = 6

_CLOSURE_SEG = re.compile(r'::\{(closure|inl)#[^}]*\}')


def top_path(p):
    m = _CLOSURE_SEG.search(p)
    return p[:m.start()] if m else p


def load_known():
    if not os.path.exists(KNOWN):
        return None
    return set(json.load(open(KNOWN))['defs'])


# ----------------------------------------------------------------------------- renumbering
def _shift(x, loff, boff):
    """Deep copy of a statement / terminator / operand with locals shifted by loff."""
    if isinstance(x, dict):
        out = {}
        for k, v in x.items():
            if k == 'l' and isinstance(v, int) and not isinstance(v, bool):
                out[k] = v + loff
            elif k == 'idx' and isinstance(v, int) and not isinstance(v, bool):
                out[k] = v + loff
            else:
                out[k] = _shift(v, loff, boff)
        return out
    if isinstance(x, list):
        return [_shift(v, loff, boff) for v in x]
    return x


def _rename_local(x, a, b):
    """In place: every occurrence of local a (as place base or index) becomes local b."""
    if isinstance(x, dict):
        for k, v in x.items():
            if k in ('l', 'idx') and isinstance(v, int) and not isinstance(v, bool):
                if v == a:
                    x[k] = b
            else:
                _rename_local(v, a, b)
    elif isinstance(x, list):
        for v in x:
            _rename_local(v, a, b)


def _shift_term(t, loff, boff):
    t = _shift(t, loff, boff)
    for k in ('target', 'otherwise', 'unwind', 'resume'):
        if isinstance(t.get(k), int) and not isinstance(t.get(k), bool):
            t[k] = t[k] + boff
    if t.get('k') == 'yield' and isinstance(t.get('drop'), int):
        t['drop'] = t['drop'] + boff
    if 'targets' in t:
        t['targets'] = [[v, b + boff] for v, b in t['targets']]
    return t


def _rename_defs(x, mapping):
    """Rename closure def paths (agg def, fn / res of function constants) according to mapping (prefix -> prefix)."""
    if isinstance(x, dict):
        for k, v in list(x.items()):
            if k in ('def', 'fn', 'res') and isinstance(v, str) and 'promoted' not in x:
                for a, b in mapping:
                    if v.startswith(a + '::{'):
                        x[k] = b + v[len(a):]
                        break
            else:
                _rename_defs(v, mapping)
    elif isinstance(x, list):
        for v in x:
            _rename_defs(v, mapping)


def _callee(term):
    f = term.get('func') or {}
    c = f.get('c')
    if not c:
        return None, None
    return (c.get('res') or c.get('fn')), c


def _place(l):
    return {'l': l}


def _assign(lhs_local, operand, src):
    s = {'k': 'assign', 'lhs': _place(lhs_local), 'rv': {'k': 'use', 'op': operand}}
    for k in ('file', 'ln'):
        if k in src:
            s[k] = src[k]
    return s


def _defs_of(body, local):
    out = []
    for bi, blk in enumerate(body['blocks']):
        for s in blk['stmts']:
            if s['k'] == 'assign' and s['lhs']['l'] == local and not s['lhs'].get('p'):
                out.append(('assign', bi, s))
        t = blk['term']
        if t['k'] == 'call' and t.get('dest') and t['dest']['l'] == local and not t['dest'].get('p'):
            out.append(('call', bi, t))
    return out


def _op_local(op):
    p = op.get('mv') or op.get('cp')
    if p is not None and not p.get('p'):
        return p['l']
    return None


def _trace_value(body, op, depth=0, upvar=None):
    """Follow moves / copies / refs of an operand back to a closure aggregate, a fn item constant or a coroutine
    aggregate. Returns ('closure', def, local) | ('fn', const) | ('coroutine', def, local) | None."""
    if depth > 12:
        return None
    c = op.get('c')
    if c is not None:
        if 'fn' in c:
            return ('fn', c)
        return None
    p = op.get('mv') or op.get('cp')
    if p is None:
        return None
    proj = [e for e in (p.get('p') or []) if e != '*']
    if proj:
        if upvar is not None and p['l'] == 1 and len(proj) == 1 and isinstance(proj[0], dict) and proj[0].get('of') in ('closure', 'coroutine') and 'i' in proj[0]:
            return upvar(body, proj[0]['i'], depth)
        return None
    defs = _defs_of(body, p['l'])
    if len(defs) != 1:
        return None
    kind, bi, x = defs[0]
    if kind == 'assign':
        rv = x['rv']
        if rv['k'] == 'agg' and rv.get('agg') in ('closure', 'coroutine', 'coroutine_closure'):
            return ('closure' if rv['agg'] == 'closure' else 'coroutine', rv['def'], p['l'])
        if rv['k'] == 'use':
            return _trace_value(body, rv['op'], depth + 1, upvar)
        if rv['k'] in ('ref', 'rawptr'):
            return _trace_value(body, {'cp': {'l': rv['place']['l'], 'p': [e for e in (rv['place'].get('p') or []) if e != '*']}}, depth + 1, upvar)
        return None
    name, c = _callee(x)
    if name and re.search(r'(IntoFuture>?::into_future|Pin::<[^>]*>::new_unchecked|Pin::<[^>]*>::new|::as_mut|::deref_mut|::deref)$', name) and x['args']:
        return _trace_value(body, x['args'][0], depth + 1, upvar)
    return None



# ----------------------------------------------------------------------------- new closures under std combinators
def closure_fp(body):
    """Fingerprint of a closure body that survives renumbering of locals / line changes: statement and terminator kinds,
    operators, aggregate kinds, constants and callee names in block order."""
    import hashlib
    parts = []
    def opk(o):
        if o is None:
            return '-'
        c = o.get('c')
        if c is not None:
            return 'c:%s' % (c.get('v') if 'v' in c else (c.get('s') or c.get('fn') or c.get('def') or ''))
        pl = o.get('mv') or o.get('cp') or {}
        return 'p:' + ''.join(('*' if e == '*' else (e.get('f') or e.get('d') or 'i') if isinstance(e, dict) else str(e)) for e in (pl.get('p') or []))
    for blk in body['blocks']:
        if blk.get('cleanup'):
            continue
        for st in blk['stmts']:
            if st['k'] != 'assign':
                continue
            rv = st['rv']
            k = rv['k']
            if k == 'use':
                parts.append('u(%s)' % opk(rv['op']))
            elif k == 'bin':
                parts.append('b%s(%s,%s)' % (rv['op'], opk(rv['a']), opk(rv['b'])))
            elif k == 'agg':
                parts.append('a%s:%s:%s' % (rv.get('agg'), rv.get('adt') or '', rv.get('variant') or ''))
            else:
                parts.append(k + (':' + str(rv.get('op')) if rv.get('op') and isinstance(rv.get('op'), str) else ''))
        t = blk['term']
        if t['k'] == 'call':
            parts.append('call:%s' % (_callee(t)[0] or '?'))
        else:
            parts.append('t:' + t['k'])
    return hashlib.sha1('|'.join(parts).encode()).hexdigest()[:16]


COMBINATORS = re.compile(r'^(?:std::option::Option::<.*>::(map|and_then|map_or|map_or_else|unwrap_or_else|ok_or_else|is_some_and|is_none_or|filter)|std::result::Result::<.*>::(map|map_err|and_then|or_else|unwrap_or_else|is_ok_and|is_err_and)|core::bool::<impl bool>::(then)|std::bool::<impl bool>::(then))$')


def _adt(adt, variant, vi, fields):
    return {'k': 'agg', 'agg': 'adt', 'adt': adt, 'variant': variant, 'vi': vi, 'names': [str(i) for i in range(len(fields))], 'fields': fields}


def _down(l, adt, variant, vi):
    return {'l': l, 'p': [{'d': variant, 'vi': vi}, {'f': '0', 'i': 0, 'adt': adt}]}


class Inliner:
    def __init__(self, raw, known, known_fps=None):
        self.raw = raw
        self.known = known
        self.known_fps = known_fps
        self.bodies = {}
        for b in raw['bodies']:
            if b['kind'] != 'Promoted' and b['path'] not in self.bodies:
                self.bodies[b['path']] = b
        self.children = {}
        for b in self.bodies.values():
            if b.get('parent'):
                self.children.setdefault(b['parent'], []).append(b)
        self.unknown_tops = sorted(p for p, b in self.bodies.items() if not _CLOSURE_SEG.search(p) and p not in known)
        self.spliced = {}  # unknown top path -> number of splices
        self.devirt = {}  # closure def -> number of devirtualised splices
        self._subst_rx = {}
        self.consumed = set()  # copies of coroutine bodies that were spliced at their only poll site
        self.log = []
        self.counter = 0

    def unknown(self, path):
        if path not in self.bodies:
            return False
        if '::{inl#' in path:
            return False  # copy of a helper's closure living under a known caller: treated as the caller's own closure
        return top_path(path) not in self.known

    def descendants(self, path):
        out = []
        st = [path]
        while st:
            p = st.pop()
            for c in self.children.get(p, []):
                out.append(c)
                st.append(c['path'])
        return out

    def generic_subst(self, callee, call_term):
        gens = callee.get('generics') or []
        name, c = _callee(call_term)
        args = (c or {}).get('args') or []
        if not gens or len(args) != len(gens):
            return None
        sub = {}
        for g, a in zip(gens, args):
            if g.startswith("'") or g.startswith('<') or not re.match(r'^[A-Za-z_][A-Za-z0-9_]*$', g) or not isinstance(a, str):
                continue
            if a != g:
                sub[g] = a
        return sub or None

    def apply_subst(self, text, subst):
        if not subst:
            return text
        rx = self._subst_rx.get(tuple(sorted(subst)))
        if rx is None:
            rx = re.compile(r'(?<![A-Za-z0-9_:])(' + '|'.join(re.escape(k) for k in sorted(subst, key=len, reverse=True)) + r')(?![A-Za-z0-9_])')
            self._subst_rx[tuple(sorted(subst))] = rx
        return rx.sub(lambda m: subst[m.group(1)], text)

    def instantiate(self, blk, subst):
        """Replace the helper's type parameters in the function constants of a spliced block and resolve trait calls that
        became calls on a concrete type (`<R as TryFrom<u8>>::try_from` -> `<PublishAckReason as TryFrom<u8>>::try_from`)."""
        def visit(x):
            if isinstance(x, dict):
                c = x.get('c') if isinstance(x.get('c'), dict) else None
                if c is not None and 'fn' in c:
                    if isinstance(c.get('args'), list):
                        c['args'] = [self.apply_subst(a, subst) if isinstance(a, str) else a for a in c['args']]
                    if isinstance(c.get('ty'), str):
                        c['ty'] = self.apply_subst(c['ty'], subst)
                    if c.get('trait') and not c.get('res') and c.get('args'):
                        targs = [a for a in c['args'][1:] if not a.startswith("'")]
                        cand = '<%s as %s%s>::%s' % (c['args'][0], c['trait'], ('<%s>' % ', '.join(targs)) if targs else '', c.get('method'))
                        if cand not in self.bodies:
                            # impls on tuples / references live under `module::<impl Trait for X>::method`: use the impl table
                            tref = '<%s as %s%s>' % (c['args'][0], c['trait'], ('<%s>' % ', '.join(targs)) if targs else '')
                            for im in self.raw.get('impls') or []:
                                if im.get('trait_ref') == tref:
                                    for it in im.get('items') or []:
                                        if it.get('name') == c.get('method') and it.get('path') in self.bodies:
                                            cand = it['path']
                        if cand in self.bodies:
                            c['res'] = cand
                            c['res_local'] = True
                            c['res_kind'] = 'item'
                for v in x.values():
                    visit(v)
            elif isinstance(x, list):
                for v in x:
                    visit(v)
        visit(blk['stmts'])
        visit(blk['term'])

    def upvar_value(self, body, i, depth=0):
        """Value captured as upvar i of a closure / coroutine body: looked up at its (unique) creation site in the parent."""
        par = self.bodies.get(body.get('parent') or '')
        if par is None or depth > 10:
            return None
        sites = []
        for blk in par['blocks']:
            for st in blk['stmts']:
                if st['k'] == 'assign' and st['rv']['k'] == 'agg' and st['rv'].get('def') == body['path']:
                    sites.append(st['rv'])
        if len(sites) != 1 or i >= len(sites[0]['fields']):
            return None
        v = _trace_value(par, sites[0]['fields'][i], depth + 1, self.upvar_value)
        if v and v[0] in ('closure', 'coroutine'):
            # the aggregate lives in the parent: the local index is meaningless here
            return (v[0], v[1], None)
        return v

    # ------------------------------------------------------------------ the splice
    def splice(self, caller, bi, callee, kind, force_args=None, stack=()):
        """Replace the call terminating block bi of caller by callee's body. kind: 'fn' | 'poll' | 'closure'."""
        blk = caller['blocks'][bi]
        t = blk['term']
        loff = len(caller['locals'])
        boff = len(caller['blocks'])
        self.counter += 1
        tag = '%s::{inl#%d}' % (caller['path'], self.counter)
        # copy closures defined in the callee under the caller
        mapping = []
        desc = self.descendants(callee['path'])
        if desc:
            mapping.append((callee['path'], tag))
            for c in desc:
                nc = copy.deepcopy(c)
                nc['path'] = tag + c['path'][len(callee['path']):]
                par = c.get('parent')
                nc['parent'] = caller['path'] if par == callee['path'] else tag + par[len(callee['path']):]
                _rename_defs(nc['blocks'], mapping)
                self.raw['bodies'].append(nc)
                self.bodies[nc['path']] = nc
                self.children.setdefault(nc['parent'], []).append(nc)
        new_locals = copy.deepcopy(callee['locals'])
        # instantiate the helper's type parameters with the types it is called with (`helper::<PublishAckReason>(..)`)
        subst = self.generic_subst(callee, t)
        if subst:
            for l_ in new_locals:
                if isinstance(l_.get('ty'), str):
                    l_['ty'] = self.apply_subst(l_['ty'], subst)
            # ... also inside the closures the helper defines (they inherit its type parameters)
            for c in desc:
                nc = self.bodies.get(tag + c['path'][len(callee['path']):])
                if nc is None:
                    continue
                for l_ in nc['locals']:
                    if isinstance(l_.get('ty'), str):
                        l_['ty'] = self.apply_subst(l_['ty'], subst)
                for nb_ in nc['blocks']:
                    self.instantiate(nb_, subst)
        caller['locals'].extend(new_locals)
        args = force_args if force_args is not None else t['args']
        pre = []
        for i, a in enumerate(args[:callee['argc']]):
            pre.append(_assign(loff + 1 + i, a, t))
        cont = t.get('target')
        ready_cont = None
        if kind == 'poll' and cont is not None:
            # await loop: the block after poll() reads the discriminant of the Poll value and switches; continue on Ready
            nb = caller['blocks'][cont]
            tt = nb['term']
            if tt['k'] == 'switch':
                tg = dict((v, b) for v, b in tt['targets'])
                ready_cont = tg.get(0)
        new_blocks = []
        for cb in callee['blocks']:
            nb = {'cleanup': cb.get('cleanup', False), 'stmts': [_shift(s, loff, boff) for s in cb['stmts']], 'term': _shift_term(cb['term'], loff, boff), 'inl': callee['path']}
            if mapping:
                _rename_defs(nb, mapping)
            if subst:
                self.instantiate(nb, subst)
            tt = nb['term']
            if tt['k'] == 'return':
                src = {k: tt[k] for k in ('file', 'ln') if k in tt}
                if cont is None:
                    nb['term'] = dict({'k': 'unreachable'}, **src)
                elif kind == 'poll':
                    rv = {'k': 'agg', 'agg': 'adt', 'adt': 'std::task::Poll', 'variant': 'Ready', 'vi': 0, 'names': ['0'], 'fields': [{'mv': _place(loff)}]}
                    st = {'k': 'assign', 'lhs': copy.deepcopy(t['dest']), 'rv': rv}
                    st.update(src)
                    nb['stmts'].append(st)
                    nb['term'] = dict({'k': 'goto', 'target': ready_cont if ready_cont is not None else cont}, **src)
                    nb['poll_return'] = True
                else:
                    st = {'k': 'assign', 'lhs': copy.deepcopy(t['dest']), 'rv': {'k': 'use', 'op': {'mv': _place(loff)}}}
                    st.update(src)
                    nb['stmts'].append(st)
                    nb['term'] = dict({'k': 'goto', 'target': cont}, **src)
            new_blocks.append(nb)
        caller['blocks'].extend(new_blocks)
        if kind != 'poll' and cont is not None and not t['dest'].get('p'):
            self.thread_returns(caller, boff, len(new_blocks), loff, t['dest']['l'], cont)
        if kind == 'poll' and ready_cont is not None:
            self.thread_poll_returns(caller, boff, len(new_blocks), loff, ready_cont)
        if kind != 'poll' and cont is not None and not t['dest'].get('p'):
            # the helper's return slot IS the destination: `_0 = Ok(())` of the helper is the caller's own `_0 = Ok(())`
            dl = t['dest']['l']
            for nb in caller['blocks'][boff:]:
                _rename_local(nb, loff, dl)
                nb['stmts'] = [st for st in nb['stmts'] if not (st['k'] == 'assign' and st['rv']['k'] == 'use' and not st['lhs'].get('p') and st['lhs']['l'] == dl
                                                                 and (st['rv']['op'].get('mv') or st['rv']['op'].get('cp') or {}).get('l') == dl
                                                                 and not (st['rv']['op'].get('mv') or st['rv']['op'].get('cp') or {}).get('p'))]
        blk['stmts'].extend(pre)
        blk['term'] = dict({'k': 'goto', 'target': boff, 'inl_call': callee['path']}, **{k: t[k] for k in ('file', 'ln') if k in t})
        top = top_path(callee['path'])
        self.spliced[top] = self.spliced.get(top, 0) + 1
        self.log.append('%s <- %s (%s, %d blocks)' % (caller['path'], callee['path'], kind, len(callee['blocks'])))
        return range(boff, boff + len(new_blocks))

    def ret_values(self, caller, boff, n, ret_slot):
        """Forward dataflow over the spliced region: the set of values the helper's return slot can hold at the end of
        each block; a value is ('int', c) for an integer/bool constant, ('var', adt, vi) for an enum variant, '?' otherwise."""
        region = list(range(boff, boff + n))
        def succs(bi):
            t_ = caller['blocks'][bi]['term']
            out = []
            for k in ('target', 'otherwise', 'resume'):
                if isinstance(t_.get(k), int) and not isinstance(t_.get(k), bool):
                    out.append(t_[k])
            out += [b2 for _, b2 in t_.get('targets', [])]
            return [x for x in out if boff <= x < boff + n]
        def transfer(bi, inv):
            val = inv
            for st in caller['blocks'][bi]['stmts']:
                if st['k'] == 'assign' and st['lhs']['l'] == ret_slot:
                    if st['lhs'].get('p'):
                        val = {'?'}
                        continue
                    rv = st['rv']
                    if rv['k'] == 'use' and rv['op'].get('c') is not None and isinstance(rv['op']['c'].get('v'), int):
                        val = {('int', rv['op']['c']['v'])}
                    elif rv['k'] == 'agg' and rv.get('agg') == 'adt' and isinstance(rv.get('vi'), int):
                        inner = None
                        if len(rv.get('fields') or []) == 1:
                            fl = _op_local(rv['fields'][0])
                            fc_ = rv['fields'][0].get('c')
                            if fc_ is not None and isinstance(fc_.get('v'), int):
                                inner = ('int', fc_['v'])      # Ok(true) / Some(0)
                            if fl is not None:
                                ds_ = [d_ for d_ in _defs_of(caller, fl) if boff <= d_[1] < boff + n]
                                if len(ds_) == 1 and ds_[0][0] == 'assign' and ds_[0][2]['rv']['k'] == 'agg' and ds_[0][2]['rv'].get('agg') == 'adt' and isinstance(ds_[0][2]['rv'].get('vi'), int):
                                    inner = ('var', ds_[0][2]['rv'].get('adt'), ds_[0][2]['rv']['vi'])
                                elif len(ds_) == 1 and ds_[0][0] == 'assign' and not ds_[0][2]['lhs'].get('p') and ds_[0][2]['rv']['k'] == 'use' and (ds_[0][2]['rv']['op'].get('c') or {}).get('v') is not None and isinstance(ds_[0][2]['rv']['op']['c']['v'], int):
                                    inner = ('int', ds_[0][2]['rv']['op']['c']['v'])
                        val = {('var', rv.get('adt'), rv['vi'], inner) if inner else ('var', rv.get('adt'), rv['vi'])}
                    else:
                        val = {'?'}
            t_ = caller['blocks'][bi]['term']
            if t_['k'] == 'call' and t_.get('dest') and t_['dest']['l'] == ret_slot:
                nm_ = _callee(t_)[0] or ''
                # `expr?` in the helper: the early return is always the failing variant
                if re.search(r'^<std::result::Result<.*> as std::ops::FromResidual<std::result::Result<std::convert::Infallible, .*>>>::from_residual$', nm_) and not t_['dest'].get('p'):
                    val = {('var', 'std::result::Result', 1)}
                elif re.search(r'^<std::option::Option<.*> as std::ops::FromResidual<std::option::Option<std::convert::Infallible>>>::from_residual$', nm_) and not t_['dest'].get('p'):
                    val = {('var', 'std::option::Option', 0)}
                else:
                    val = {'?'}
            return val
        inn = {bi: set() for bi in region}
        out = {bi: set() for bi in region}
        inn[boff] = {'unset'}
        work = [boff]
        it = 0
        while work and it < 20000:
            it += 1
            bi = work.pop()
            o = transfer(bi, inn[bi])
            if o != out[bi]:
                out[bi] = set(o)
                for sx in succs(bi):
                    if not out[bi] <= inn[sx]:
                        inn[sx] |= out[bi]
                        work.append(sx)
        return out

    def _return_sites(self, caller, boff, n, ret_slot, dest, cont):
        """[(return block, chain, pred or None, value set)]: the ways of reaching a return of the spliced helper with one
        known value. `chain` lists pass-through blocks (drops of temporaries shared by several returns) between `pred`
        and the return block; they are replicated for that way."""
        out = self.ret_values(caller, boff, n, ret_slot)
        region = range(boff, boff + n)
        def succ_list(bi):
            t_ = caller['blocks'][bi]['term']
            return [b2 for _, b2 in t_.get('targets', [])] + [t_.get(k) for k in ('target', 'otherwise', 'resume') if isinstance(t_.get(k), int) and not isinstance(t_.get(k), bool)]
        preds_of = {}
        for pi in region:
            for x in succ_list(pi):
                preds_of.setdefault(x, []).append(pi)
        def passthrough(bi):
            b_ = caller['blocks'][bi]
            return b_['term']['k'] in ('goto', 'drop') and not any(st['k'] == 'assign' and st['lhs']['l'] == ret_slot for st in b_['stmts'])
        sites = []
        for ri in region:
            rb = caller['blocks'][ri]
            if not (rb['term']['k'] == 'goto' and rb['term']['target'] == cont and rb['stmts'] and rb['stmts'][-1]['k'] == 'assign'
                    and rb['stmts'][-1]['lhs']['l'] == dest and not rb['term'].get('threaded')):
                continue
            own = any(st['k'] == 'assign' and st['lhs']['l'] == ret_slot for st in rb['stmts'][:-1])
            preds = [pi for pi in preds_of.get(ri, []) if pi != ri]
            if own or (len(out[ri]) == 1 and not preds):
                sites.append((ri, [], None, out[ri]))
                continue
            work = [(pi, []) for pi in sorted(set(preds))]
            steps = 0
            while work and steps < 64:
                steps += 1
                pi, chain = work.pop()
                if len(out[pi]) == 1:
                    sites.append((ri, chain, pi, out[pi]))
                elif passthrough(pi) and len(chain) < 8:
                    for q in sorted(set(preds_of.get(pi, []))):
                        if q != pi and q not in chain:
                            work.append((q, [pi] + chain))
        return sites

    def thread_payload(self, caller, start, branch_dest, inner):
        """From the Continue target of a `?`: follow straight-line blocks to the switch on the discriminant of the unwrapped
        value; returns a new block that replays those statements and jumps to the target of the known variant."""
        alias = set()
        neg = set()     # locals holding the negation of the (bool) payload
        stmts = []
        bi = start
        for _ in range(6):
            blk = caller['blocks'][bi]
            for st in blk['stmts']:
                stmts.append(st)
                if st['k'] != 'assign' or st['lhs'].get('p'):
                    continue
                rv = st['rv']
                if rv['k'] == 'un' and rv.get('op') == 'Not':
                    pl = rv['a'].get('mv') or rv['a'].get('cp') or {}
                    if not pl.get('p') and pl.get('l') in alias:
                        neg.add(st['lhs']['l'])
                    elif not pl.get('p') and pl.get('l') in neg:
                        alias.add(st['lhs']['l'])
                    continue
                if rv['k'] == 'use':
                    pl = rv['op'].get('mv') or rv['op'].get('cp')
                    if pl is None:
                        continue
                    proj = [e for e in (pl.get('p') or []) if e != '*']
                    if pl['l'] == branch_dest and any(isinstance(e, dict) and e.get('d') == 'Continue' for e in proj):
                        alias.add(st['lhs']['l'])
                    elif pl['l'] in alias and not proj:
                        alias.add(st['lhs']['l'])
                    elif pl['l'] in neg and not proj:
                        neg.add(st['lhs']['l'])
            t_ = blk['term']
            if t_['k'] == 'switch' and inner[0] == 'int':
                dl = _op_local(t_['discr'])
                if dl in alias or dl in neg:
                    val = inner[1] if dl in alias else (0 if inner[1] else 1)
                    tg = dict((v_, b_) for v_, b_ in t_['targets'])
                    nb = {'cleanup': False, 'stmts': copy.deepcopy(stmts), 'term': {'k': 'goto', 'target': tg.get(val, t_['otherwise']), 'threaded': True}}
                    caller['blocks'].append(nb)
                    return len(caller['blocks']) - 1
                return None
            if t_['k'] == 'switch':
                dl = _op_local(t_['discr'])
                ok = any(st['k'] == 'assign' and st['lhs']['l'] == dl and st['rv']['k'] == 'discr' and st['rv']['place']['l'] in alias and not [e for e in (st['rv']['place'].get('p') or []) if e != '*'] for st in blk['stmts'])
                if not ok or inner[0] != 'var':
                    return None
                tg = dict((v_, b_) for v_, b_ in t_['targets'])
                nb = {'cleanup': False, 'stmts': copy.deepcopy(stmts), 'term': {'k': 'goto', 'target': tg.get(inner[2], t_['otherwise']), 'threaded': True}}
                caller['blocks'].append(nb)
                return len(caller['blocks']) - 1
            if t_['k'] in ('goto', 'drop') and isinstance(t_.get('target'), int):
                if t_['k'] == 'drop':
                    return None  # keep it simple: do not replicate drops here
                bi = t_['target']
                continue
            return None
        return None

    def thread_returns(self, caller, boff, n, ret_slot, dest, cont, sites=None):
        """Jump threading for predicate helpers: when a spliced helper returns a constant (`true` / `false`, a known enum
        variant) on a branch and the caller immediately branches on the returned value (or applies `?` to it), that branch
        of the helper continues directly at the caller's corresponding target. Without this the caller's decision would
        hang on a materialised value and no edge of the original condition would dominate the guarded code any more."""
        # an empty pass-through block (the `goto` a spliced helper's return became) is not the continuation yet
        for _ in range(6):
            cb = caller['blocks'][cont]
            if cb['term']['k'] == 'goto' and not [st for st in cb['stmts'] if st['k'] == 'assign'] and isinstance(cb['term'].get('target'), int):
                cont = cb['term']['target']
            else:
                break
        cb = caller['blocks'][cont]
        tt = cb['term']
        if any(st['k'] == 'assign' and st['lhs']['l'] == dest for st in cb['stmts']):
            return
        mode = None
        if tt['k'] == 'call' and re.search(r'as std::ops::Try>::branch$', (_callee(tt)[0] or '')) and len(tt['args']) == 1 and _op_local(tt['args'][0]) == dest and isinstance(tt.get('target'), int):
            sw = caller['blocks'][tt['target']]
            st_ = sw['term']
            bl = tt['dest']['l']
            dl = _op_local(st_['discr']) if st_['k'] == 'switch' else None
            if dl is None or not any(x['k'] == 'assign' and x['lhs']['l'] == dl and x['rv']['k'] == 'discr' and x['rv']['place']['l'] == bl and not x['rv']['place'].get('p') for x in sw['stmts']):
                return
            mode = 'try'
            targets = dict((v, b) for v, b in st_['targets'])
            otherwise = st_['otherwise']
        elif tt['k'] == 'call' and re.search(r'^std::option::Option::<.*>::(unwrap|expect)$', (_callee(tt)[0] or '')) and tt['args'] and _op_local(tt['args'][0]) == dest:
            # `helper(..).unwrap()`: the branches of the helper that produce None end in the panic, they do not continue
            for ri, chain, last, vals in (sites if sites is not None else self._return_sites(caller, boff, n, ret_slot, dest, cont)):
                if len(vals) != 1:
                    continue
                v = next(iter(vals))
                if not (isinstance(v, tuple) and v[0] == 'var' and v[1] == 'std::option::Option' and v[2] == 0):
                    continue
                if last is None:
                    caller['blocks'][ri]['term'] = {'k': 'unreachable', 'threaded': True, 'why': 'unwrap() of None panics'}
                else:
                    caller['blocks'].append({'cleanup': False, 'stmts': [], 'term': {'k': 'unreachable', 'threaded': True, 'why': 'unwrap() of None panics'}})
                    nxt = len(caller['blocks']) - 1
                    first_old = chain[0] if chain else ri
                    lt = caller['blocks'][last]['term']
                    for k_ in ('target', 'otherwise', 'resume'):
                        if lt.get(k_) == first_old:
                            lt[k_] = nxt
                    if 'targets' in lt:
                        lt['targets'] = [[v_, (nxt if b_ == first_old else b_)] for v_, b_ in lt['targets']]
            return
        elif tt['k'] == 'switch':
            dl = _op_local(tt['discr'])
            if dl is None:
                return
            if dl == dest:
                mode = 'int'
            elif any(st['k'] == 'assign' and st['lhs']['l'] == dl and not st['lhs'].get('p') and st['rv']['k'] == 'discr' and st['rv']['place']['l'] == dest and not st['rv']['place'].get('p') for st in cb['stmts']):
                mode = 'discr'
            else:
                return
            targets = dict((v, b) for v, b in tt['targets'])
            otherwise = tt['otherwise']
        else:
            return
        for ri, chain, last, vals in (sites if sites is not None else self._return_sites(caller, boff, n, ret_slot, dest, cont)):
            if len(vals) != 1:
                continue
            v = next(iter(vals))
            if not isinstance(v, tuple):
                continue
            if mode == 'int' and v[0] == 'int':
                val = v[1]
            elif mode == 'discr' and v[0] == 'var':
                val = v[2]
            elif mode == 'try' and v[0] == 'var' and v[1] in ('std::result::Result', 'std::option::Option'):
                val = v[2] if v[1] == 'std::result::Result' else (0 if v[2] == 1 else 1)  # ControlFlow: Continue = 0, Break = 1
            else:
                continue
            tgt = targets.get(val, otherwise)
            rb = caller['blocks'][ri]
            if mode == 'try' and len(v) > 3 and v[3] and val == 0:
                # `let Some(x) = helper(..)? else {..}`: the payload's variant is known as well - continue past that test too
                t2 = self.thread_payload(caller, tgt, tt['dest']['l'], v[3])
                if t2 is not None:
                    tgt = t2
            if mode == 'try':
                n2 = {'cleanup': False, 'stmts': copy.deepcopy(sw['stmts']), 'term': {'k': 'goto', 'target': tgt, 'threaded': True}, 'inl': rb.get('inl')}
                caller['blocks'].append(n2)
                term = copy.deepcopy(tt)
                term['target'] = len(caller['blocks']) - 1
                term['threaded'] = True
            else:
                term = {'k': 'goto', 'target': tgt, 'threaded': True}
            if last is None:
                rb['stmts'] = rb['stmts'] + copy.deepcopy(cb['stmts'])
                rb['term'] = term
            else:
                n1 = {'cleanup': False, 'stmts': copy.deepcopy(rb['stmts']) + copy.deepcopy(cb['stmts']), 'term': term, 'inl': rb.get('inl')}
                caller['blocks'].append(n1)
                nxt = len(caller['blocks']) - 1
                first_old = ri
                # replicate the shared pass-through blocks for this way (last block of the chain first)
                for ci in reversed(chain):
                    cblk = copy.deepcopy(caller['blocks'][ci])
                    cblk['term'] = dict(cblk['term'], target=nxt)
                    caller['blocks'].append(cblk)
                    nxt = len(caller['blocks']) - 1
                    first_old = ci
                lb = caller['blocks'][last]
                lt = lb['term']
                for k_ in ('target', 'otherwise', 'resume'):
                    if lt.get(k_) == first_old:
                        lt[k_] = nxt
                if 'targets' in lt:
                    lt['targets'] = [[v_, (nxt if b_ == first_old else b_)] for v_, b_ in lt['targets']]


    def thread_poll_returns(self, caller, boff, n, ret_slot, ready_cont):
        """`helper(..).await?`: a branch of a spliced async helper that returns Err(..) (an early `return Err`, a `?` of its
        own) leaves through the caller's `?` as well, one that returns Ok(..) continues - the chain from the Ready edge of the
        await (unwrap the Poll, drop the awaitee, Try::branch, switch) is replicated for each return with a known variant."""
        chain = []
        x = ready_cont
        br = None
        for _ in range(8):
            blk = caller['blocks'][x]
            t_ = blk['term']
            if t_['k'] == 'call' and re.search(r'as std::ops::Try>::branch$', (_callee(t_)[0] or '')) and isinstance(t_.get('target'), int):
                br = x
                break
            if t_['k'] in ('goto', 'drop') and isinstance(t_.get('target'), int):
                chain.append(x)
                x = t_['target']
                continue
            return
        if br is None:
            return
        bt = caller['blocks'][br]['term']
        sw = caller['blocks'][bt['target']]
        st_ = sw['term']
        if st_['k'] != 'switch' or bt['dest'].get('p'):
            return
        dl = _op_local(st_['discr'])
        if dl is None or not any(q['k'] == 'assign' and q['lhs']['l'] == dl and q['rv']['k'] == 'discr' and q['rv']['place']['l'] == bt['dest']['l'] and not q['rv']['place'].get('p') for q in sw['stmts']):
            return
        targets = dict((v, b_) for v, b_ in st_['targets'])
        D = None
        for ri in range(boff, boff + n):
            rb = caller['blocks'][ri]
            if rb.get('poll_return') and rb['stmts'] and rb['stmts'][-1]['k'] == 'assign':
                D = rb['stmts'][-1]['lhs']['l']
        if D is None:
            return
        for ri, pchain, last, vs in self._return_sites(caller, boff, n, ret_slot, D, ready_cont):
            if len(vs) != 1:
                continue
            v = next(iter(vs))
            if not (isinstance(v, tuple) and v[0] == 'var' and v[1] in ('std::result::Result', 'std::option::Option')):
                continue
            val = v[2] if v[1] == 'std::result::Result' else (0 if v[2] == 1 else 1)
            tgt = targets.get(val, st_['otherwise'])
            caller['blocks'].append({'cleanup': False, 'stmts': copy.deepcopy(sw['stmts']), 'term': {'k': 'goto', 'target': tgt, 'threaded': True}})
            nxt = len(caller['blocks']) - 1
            cbr = copy.deepcopy(caller['blocks'][br])
            cbr['term']['target'] = nxt
            cbr['term']['threaded'] = True
            caller['blocks'].append(cbr)
            nxt = len(caller['blocks']) - 1
            for ci in reversed(chain):
                cblk = copy.deepcopy(caller['blocks'][ci])
                cblk['term'] = dict(cblk['term'], target=nxt)
                caller['blocks'].append(cblk)
                nxt = len(caller['blocks']) - 1
            rb = caller['blocks'][ri]
            if last is None:
                rb['term'] = dict(rb['term'], target=nxt, threaded=True)
                continue
            # the return block is shared by several ways: replicate it (and the pass-through blocks before it) for this way
            crb = copy.deepcopy(rb)
            crb['term'] = dict(crb['term'], target=nxt, threaded=True)
            caller['blocks'].append(crb)
            nxt = len(caller['blocks']) - 1
            first_old = ri
            for ci in reversed(pchain):
                cblk = copy.deepcopy(caller['blocks'][ci])
                cblk['term'] = dict(cblk['term'], target=nxt)
                caller['blocks'].append(cblk)
                nxt = len(caller['blocks']) - 1
                first_old = ci
            lt = caller['blocks'][last]['term']
            for k_ in ('target', 'otherwise', 'resume'):
                if lt.get(k_) == first_old:
                    lt[k_] = nxt
            if 'targets' in lt:
                lt['targets'] = [[v_, (nxt if b_ == first_old else b_)] for v_, b_ in lt['targets']]

    def _thread_new_blocks(self, body, base, dest, T):
        """After a combinator was expanded: branches that assign a known variant to the result continue directly on the
        matching side of a following `?` / `match` (same threading as for spliced helper returns)."""
        sites = []
        for bi in range(base, len(body['blocks'])):
            nb = body['blocks'][bi]
            if nb['term']['k'] == 'goto' and nb['term'].get('target') == T and nb['stmts'] and nb['stmts'][-1]['k'] == 'assign' and nb['stmts'][-1]['lhs']['l'] == dest:
                rv = nb['stmts'][-1]['rv']
                if rv['k'] == 'agg' and rv.get('agg') == 'adt' and isinstance(rv.get('vi'), int):
                    sites.append((bi, [], None, {('var', rv.get('adt'), rv['vi'])}))
                elif rv['k'] == 'use' and rv['op'].get('c') is not None and isinstance(rv['op']['c'].get('v'), int):
                    sites.append((bi, [], None, {('int', rv['op']['c']['v'])}))
        if sites:
            self.thread_returns(body, 0, 0, None, dest, T, sites=sites)

    # ------------------------------------------------------------------ std combinators over new closures
    def expand_combinators(self, body, known_fps):
        """`flag.then(|| ..)`, `opt.map(|x| ..)`, `res.map_err(|e| ..)`, ... whose closure does not exist on the pinned tree
        (fingerprint unknown: newly written, or edited) are rewritten into the explicit branch they stand for, with the
        closure called directly in the taken branch (it is then spliced like a helper). The if-let / match form and the
        combinator form of the same code become the same control flow for the rules. Closures that exist unchanged on the
        pinned tree stay as they are (the rules were written against them)."""
        n = 0
        for bi in range(len(body['blocks'])):
            blk = body['blocks'][bi]
            t = blk['term']
            if t['k'] != 'call' or t.get('target') is None or t['dest'].get('p'):
                continue
            c = (t.get('func') or {}).get('c') or {}
            m = COMBINATORS.match(c.get('fn') or '')
            if not m:
                continue
            kind = [g for g in m.groups() if g][0]
            recv = 'option' if 'option::Option' in c['fn'] else ('result' if 'result::Result' in c['fn'] else 'bool')
            args = t['args']
            # closure operands
            clos = []
            for a in args[1:]:
                v = _trace_value(body, a, 0, self.upvar_value)
                clos.append((a, v))
            fns = [(a, v) for a, v in clos if v and v[0] == 'closure' and v[1] in self.bodies]
            # a new helper function handed over by name (`.is_none_or(is_multi_wildcard)`) is treated like a new closure
            for a, v in clos:
                if v and v[0] == 'fn':
                    nm_ = v[1].get('res') or v[1].get('fn')
                    if nm_ in self.bodies and self.unknown(nm_) and not self.bodies[nm_].get('coroutine'):
                        fns.append((a, ('fnitem', nm_, v[1])))
                    elif nm_ and nm_ not in self.bodies and '::' in nm_:
                        # a tuple-variant constructor used as a function (`.map(Packet::PublishAck)`)
                        adt_, var_ = nm_.rsplit('::', 1)
                        for ad in self.raw.get('adts', []):
                            if ad['path'] == adt_:
                                for vi_, vv in enumerate(ad['variants']):
                                    if vv['name'] == var_ and len(vv['fields']) == 1 and ad.get('kind') == 'Enum':
                                        fns.append((a, ('ctor', adt_, var_, vi_)))
            if not fns or any(v[0] == 'closure' and closure_fp(self.bodies[v[1]]) in known_fps for a, v in fns):
                continue
            s_loc = _op_local(args[0])
            if s_loc is None:
                continue
            src = {k: t[k] for k in ('file', 'ln') if k in t}
            dest = t['dest']['l']
            T = t['target']
            base = len(body['blocks'])
            def newlocal(ty='?'):
                body['locals'].append({'ty': ty})
                return len(body['locals']) - 1
            def block(stmts, term):
                body['blocks'].append({'cleanup': False, 'stmts': stmts, 'term': dict(term, **src), 'inl_region': True})
                return len(body['blocks']) - 1
            def assign(l, rv):
                return dict({'k': 'assign', 'lhs': {'l': l}, 'rv': rv}, **src)
            def call_closure(fop, fv, argops, then_stmts_fn):
                """blocks: call X(fop, argops..) -> r ; then_stmts_fn(r) ; goto T. returns entry block index"""
                r = newlocal('?')
                after = block(then_stmts_fn(r), {'k': 'goto', 'target': T})
                if fv[0] == 'ctor':
                    return block([assign(r, {'k': 'agg', 'agg': 'adt', 'adt': fv[1], 'variant': fv[2], 'vi': fv[3], 'names': ['0'], 'fields': list(argops)})], {'k': 'goto', 'target': after})
                if fv[0] == 'fnitem':
                    return block([], {'k': 'call', 'func': {'c': copy.deepcopy(fv[2])}, 'args': list(argops), 'dest': {'l': r}, 'target': after})
                fc = {'ty': 'closure call', 'fn': fv[1], 'local': True, 'args': [], 'res': fv[1], 'res_local': True, 'res_kind': 'closure'}
                return block([], {'k': 'call', 'func': {'c': fc}, 'args': [fop] + argops, 'dest': {'l': r}, 'target': after, 'expanded': True})
            OPT, RES = 'std::option::Option', 'std::result::Result'
            entry_none = entry_some = None
            if recv == 'bool' and kind == 'then':
                fop, fv = fns[0]
                bn = block([assign(dest, _adt(OPT, 'None', 0, []))], {'k': 'goto', 'target': T})
                bs = call_closure(fop, fv, [], lambda r: [assign(dest, _adt(OPT, 'Some', 1, [{'mv': {'l': r}}]))])
                blk['term'] = dict({'k': 'switch', 'discr': args[0], 'targets': [[0, bn]], 'otherwise': bs}, **src)
                n += 1
                self._thread_new_blocks(body, base, dest, T)
                continue
            d = newlocal('isize')
            v = newlocal('?')
            if recv == 'option':
                some_v = {'mv': _down(s_loc, OPT, 'Some', 1)}
                take = [assign(v, {'k': 'use', 'op': some_v})]
                fop, fv = fns[-1]
                if kind == 'map':
                    bn = block([assign(dest, _adt(OPT, 'None', 0, []))], {'k': 'goto', 'target': T})
                    bs_call = call_closure(fop, fv, [{'mv': {'l': v}}], lambda r: [assign(dest, _adt(OPT, 'Some', 1, [{'mv': {'l': r}}]))])
                elif kind == 'and_then':
                    bn = block([assign(dest, _adt(OPT, 'None', 0, []))], {'k': 'goto', 'target': T})
                    bs_call = call_closure(fop, fv, [{'mv': {'l': v}}], lambda r: [assign(dest, {'k': 'use', 'op': {'mv': {'l': r}}})])
                elif kind == 'map_or' and len(args) == 3:
                    bn = block([assign(dest, {'k': 'use', 'op': args[1]})], {'k': 'goto', 'target': T})
                    bs_call = call_closure(fop, fv, [{'mv': {'l': v}}], lambda r: [assign(dest, {'k': 'use', 'op': {'mv': {'l': r}}})])
                elif kind == 'map_or_else' and len(fns) == 2:
                    bn = call_closure(fns[0][0], fns[0][1], [], lambda r: [assign(dest, {'k': 'use', 'op': {'mv': {'l': r}}})])
                    bs_call = call_closure(fop, fv, [{'mv': {'l': v}}], lambda r: [assign(dest, {'k': 'use', 'op': {'mv': {'l': r}}})])
                elif kind == 'unwrap_or_else':
                    bn = call_closure(fop, fv, [], lambda r: [assign(dest, {'k': 'use', 'op': {'mv': {'l': r}}})])
                    bs_call = block([assign(dest, {'k': 'use', 'op': {'mv': {'l': v}}})], {'k': 'goto', 'target': T})
                elif kind == 'ok_or_else':
                    bn = call_closure(fop, fv, [], lambda r: [assign(dest, _adt(RES, 'Err', 1, [{'mv': {'l': r}}]))])
                    bs_call = block([assign(dest, _adt(RES, 'Ok', 0, [{'mv': {'l': v}}]))], {'k': 'goto', 'target': T})
                elif kind == 'filter':
                    # Some(v) if f(&v) else None
                    rf = newlocal('?')
                    r = newlocal('bool')
                    take = take + [assign(rf, {'k': 'ref', 'mut': False, 'place': {'l': v}})]
                    bn = block([assign(dest, _adt(OPT, 'None', 0, []))], {'k': 'goto', 'target': T})
                    keep = block([assign(dest, _adt(OPT, 'Some', 1, [{'mv': {'l': v}}]))], {'k': 'goto', 'target': T})
                    drop_ = block([assign(dest, _adt(OPT, 'None', 0, []))], {'k': 'goto', 'target': T})
                    sw = block([], {'k': 'switch', 'discr': {'mv': {'l': r}}, 'targets': [[0, drop_]], 'otherwise': keep})
                    if fv[0] == 'fnitem':
                        bs_call = block([], {'k': 'call', 'func': {'c': copy.deepcopy(fv[2])}, 'args': [{'mv': {'l': rf}}], 'dest': {'l': r}, 'target': sw})
                    else:
                        fc = {'ty': 'closure call', 'fn': fv[1], 'local': True, 'args': [], 'res': fv[1], 'res_local': True, 'res_kind': 'closure'}
                        bs_call = block([], {'k': 'call', 'func': {'c': fc}, 'args': [fop, {'mv': {'l': rf}}], 'dest': {'l': r}, 'target': sw, 'expanded': True})
                elif kind in ('is_some_and', 'is_none_or'):
                    cst = {'c': {'ty': 'bool', 'v': 0 if kind == 'is_some_and' else 1}}
                    bn = block([assign(dest, {'k': 'use', 'op': cst})], {'k': 'goto', 'target': T})
                    bs_call = call_closure(fop, fv, [{'mv': {'l': v}}], lambda r: [assign(dest, {'k': 'use', 'op': {'mv': {'l': r}}})])
                else:
                    continue
                bs = block(take, {'k': 'goto', 'target': bs_call})
                blk['stmts'].append(assign(d, {'k': 'discr', 'place': {'l': s_loc}, 'ty': body['locals'][s_loc].get('ty') or OPT, 'adt': OPT}))
                blk['term'] = dict({'k': 'switch', 'discr': {'mv': {'l': d}}, 'targets': [[0, bn], [1, bs]], 'otherwise': block([], {'k': 'unreachable'})}, **src)
                n += 1
                self._thread_new_blocks(body, base, dest, T)
            else:
                ok_v = {'mv': _down(s_loc, RES, 'Ok', 0)}
                err_v = {'mv': _down(s_loc, RES, 'Err', 1)}
                fop, fv = fns[-1]
                if kind == 'map':
                    bok_call = call_closure(fop, fv, [{'mv': {'l': v}}], lambda r: [assign(dest, _adt(RES, 'Ok', 0, [{'mv': {'l': r}}]))])
                    bok = block([assign(v, {'k': 'use', 'op': ok_v})], {'k': 'goto', 'target': bok_call})
                    berr = block([assign(v, {'k': 'use', 'op': err_v}), assign(dest, _adt(RES, 'Err', 1, [{'mv': {'l': v}}]))], {'k': 'goto', 'target': T})
                elif kind == 'map_err':
                    berr_call = call_closure(fop, fv, [{'mv': {'l': v}}], lambda r: [assign(dest, _adt(RES, 'Err', 1, [{'mv': {'l': r}}]))])
                    berr = block([assign(v, {'k': 'use', 'op': err_v})], {'k': 'goto', 'target': berr_call})
                    bok = block([assign(v, {'k': 'use', 'op': ok_v}), assign(dest, _adt(RES, 'Ok', 0, [{'mv': {'l': v}}]))], {'k': 'goto', 'target': T})
                elif kind == 'and_then':
                    bok_call = call_closure(fop, fv, [{'mv': {'l': v}}], lambda r: [assign(dest, {'k': 'use', 'op': {'mv': {'l': r}}})])
                    bok = block([assign(v, {'k': 'use', 'op': ok_v})], {'k': 'goto', 'target': bok_call})
                    berr = block([assign(v, {'k': 'use', 'op': err_v}), assign(dest, _adt(RES, 'Err', 1, [{'mv': {'l': v}}]))], {'k': 'goto', 'target': T})
                elif kind == 'unwrap_or_else':
                    berr_call = call_closure(fop, fv, [{'mv': {'l': v}}], lambda r: [assign(dest, {'k': 'use', 'op': {'mv': {'l': r}}})])
                    berr = block([assign(v, {'k': 'use', 'op': err_v})], {'k': 'goto', 'target': berr_call})
                    bok = block([assign(dest, {'k': 'use', 'op': ok_v})], {'k': 'goto', 'target': T})
                elif kind == 'or_else':
                    berr_call = call_closure(fop, fv, [{'mv': {'l': v}}], lambda r: [assign(dest, {'k': 'use', 'op': {'mv': {'l': r}}})])
                    berr = block([assign(v, {'k': 'use', 'op': err_v})], {'k': 'goto', 'target': berr_call})
                    bok = block([assign(v, {'k': 'use', 'op': ok_v}), assign(dest, _adt(RES, 'Ok', 0, [{'mv': {'l': v}}]))], {'k': 'goto', 'target': T})
                else:
                    continue
                blk['stmts'].append(assign(d, {'k': 'discr', 'place': {'l': s_loc}, 'ty': body['locals'][s_loc].get('ty') or RES, 'adt': RES}))
                blk['term'] = dict({'k': 'switch', 'discr': {'mv': {'l': d}}, 'targets': [[0, bok], [1, berr]], 'otherwise': block([], {'k': 'unreachable'})}, **src)
                n += 1
                self._thread_new_blocks(body, base, dest, T)
        return n

    # ------------------------------------------------------------------ driver per caller
    def process(self, caller):
        n = 0
        region = set()  # blocks that came from a splice: devirtualise closure-parameter calls there
        if '::{inl#' in caller['path']:
            region = set(range(len(caller['blocks'])))
        depth = {}  # block -> splice depth
        changed = True
        while changed and n < MAX_SPLICES:
            changed = False
            for bi in range(len(caller['blocks'])):
                t = caller['blocks'][bi]['term']
                if t['k'] != 'call':
                    continue
                name, c = _callee(t)
                d = depth.get(bi, 0)
                if d >= MAX_DEPTH:
                    continue
                target = None
                kind = 'fn'
                force_args = None
                if t.get('expanded') and name in self.bodies and not self.bodies[name].get('coroutine'):
                    target = self.bodies[name]
                    kind = 'closure'
                    self.devirt[name] = self.devirt.get(name, 0) + 1
                elif name and self.unknown(name):
                    target = self.bodies[name]
                    if target.get('coroutine'):
                        kind = 'poll'
                        src = _trace_value(caller, t['args'][0], 0, self.upvar_value) if t['args'] else None
                        a0 = {'cp': _place(src[2])} if src and src[0] == 'coroutine' and src[2] is not None else t['args'][0]
                        force_args = [a0] + t['args'][1:]
                        # the coroutine value was built by a spliced `async fn`: its body was copied under the caller;
                        # splice that copy (it has this one creation site) and retire it
                        if src and src[0] == 'coroutine' and src[1] in self.bodies and '::{inl#' in src[1]:
                            target = self.bodies[src[1]]
                            self.consumed.add(src[1])
                    elif '{closure' in name[len(top_path(name)):]:
                        kind = 'closure'
                elif bi in region and c and re.search(r'^std::ops::(FnOnce::call_once|FnMut::call_mut|Fn::call)$', c.get('fn') or '') and not c.get('res') and len(t['args']) == 2:
                    v = _trace_value(caller, t['args'][0], 0, self.upvar_value)
                    tup = _op_local(t['args'][1])
                    fields = None
                    if tup is not None:
                        ds = _defs_of(caller, tup)
                        if len(ds) == 1 and ds[0][0] == 'assign' and ds[0][2]['rv']['k'] == 'agg' and ds[0][2]['rv'].get('agg') == 'tuple':
                            fields = ds[0][2]['rv']['fields']
                    elif t['args'][1].get('c') is not None:
                        fields = []
                    if v and fields is not None:
                        if v[0] == 'closure' and v[1] in self.bodies:
                            target = self.bodies[v[1]]
                            kind = 'closure'
                            force_args = [t['args'][0]] + list(fields)
                            self.devirt[v[1]] = self.devirt.get(v[1], 0) + 1
                        elif v[0] == 'fn':
                            fc = v[1]
                            nm = fc.get('res') or fc.get('fn')
                            # rewrite into a direct call; splice it if it is unknown
                            t['func'] = {'c': copy.deepcopy(fc)}
                            t['args'] = list(fields)
                            t['devirt'] = True
                            if nm and self.unknown(nm) and not self.bodies[nm].get('coroutine'):
                                target = self.bodies[nm]
                                force_args = None
                            else:
                                changed = True
                                continue
                if target is None:
                    continue
                if len(target['blocks']) > MAX_CALLEE_BLOCKS or target['path'] == caller['path'] or top_path(target['path']) == top_path(caller['path']) and kind == 'fn':
                    continue
                # recursion guard: do not splice a callee into a region that came from itself
                if caller['blocks'][bi].get('inl_stack') and target['path'] in caller['blocks'][bi]['inl_stack']:
                    continue
                stack = list(caller['blocks'][bi].get('inl_stack') or []) + [target['path']]
                rng = self.splice(caller, bi, target, kind, force_args)
                for x in rng:
                    region.add(x)
                    depth[x] = d + 1
                    caller['blocks'][x]['inl_stack'] = stack
                n += 1
                changed = True
                break
        return n

    def run(self):
        fps = set(self.known_fps or [])
        self.expanded = 0
        if self.known_fps is not None:
            for p, b in list(self.bodies.items()):
                self.expanded += self.expand_combinators(b, fps)
        if not self.unknown_tops and not self.expanded:
            return self
        callers = [b for p, b in list(self.bodies.items()) if not self.unknown(p)]
        total = 0
        for b in callers:
            total += self.process(b)
        # closures copied under known callers may themselves call unknown helpers
        more = [b for p, b in list(self.bodies.items()) if '::{inl#' in p]
        for b in more:
            total += self.process(b)
        # remove unknown functions whose every use was spliced
        refs = {}
        for p, b in self.bodies.items():
            if self.unknown(p):
                continue
            self._collect_refs(b, refs)
        drop = set()
        for topf in self.unknown_tops:
            b = self.bodies[topf]
            names = {topf} | {c['path'] for c in self.descendants(topf)}
            still = any(n in refs for n in names)
            if self.spliced.get(topf) and not still and not b.get('pub'):
                drop |= names
        # unknown functions only referenced from other unknown, dropped functions go too (iterate)
        changed = True
        while changed:
            changed = False
            refs2 = {}
            for p, b in self.bodies.items():
                if p in drop:
                    continue
                self._collect_refs(b, refs2)
            for topf in self.unknown_tops:
                if topf in drop:
                    continue
                b = self.bodies[topf]
                names = {topf} | {c['path'] for c in self.descendants(topf)}
                used_elsewhere = any(n in refs2 and (refs2[n] - names) for n in names)
                if self.spliced.get(topf) and not used_elsewhere and not b.get('pub'):
                    drop |= names
                    changed = True
        for c in sorted(self.consumed):
            drop |= {c} | {x['path'] for x in self.descendants(c)}
        # closures of known functions that were handed to spliced helpers and whose every invocation was spliced:
        # the stand-alone body is dead code now (its creation site stays), rules must not look at it twice
        for cdef in sorted(self.devirt):
            if cdef in drop or cdef not in self.bodies or self.unknown(cdef):
                continue
            root = top_path(cdef)
            fam = [b for p_, b in self.bodies.items() if top_path(p_) == root and p_ != cdef and not p_.startswith(cdef + '::') and p_ not in drop]
            escapes = False
            for b in fam:
                for blk in b['blocks']:
                    t = blk['term']
                    if t['k'] != 'call':
                        continue
                    ops = list(t['args'])
                    for a in ops:
                        v = _trace_value(b, a, 0, self.upvar_value)
                        if v and v[0] == 'closure' and v[1] == cdef:
                            escapes = True
            if not escapes:
                drop |= {cdef} | {c['path'] for c in self.descendants(cdef)}
        if drop:
            self.raw['bodies'] = [b for b in self.raw['bodies'] if not (b['kind'] != 'Promoted' and b['path'] in drop)]
        self.dropped = sorted(drop)
        self.total = total
        return self

    def _collect_refs(self, b, refs):
        def walk(x):
            if isinstance(x, dict):
                for k, v in x.items():
                    if k in ('fn', 'res', 'def') and isinstance(v, str) and 'promoted' not in x:
                        refs.setdefault(v, set()).add(b['path'])
                    else:
                        walk(v)
            elif isinstance(x, list):
                for v in x:
                    walk(v)
        for blk in b['blocks']:
            walk(blk['stmts'])
            walk(blk['term'])


def apply(raw):
    """Entry point used by Facts: splice unknown helpers; returns a short report dict (or None when inactive)."""
    known = load_known()
    if known is None:
        return None
    kj = json.load(open(KNOWN))
    fps = kj.get('closure_fps')
    import canon
    renamed = canon.apply(raw, kj)
    inl = Inliner(raw, known, fps).run()
    if not inl.unknown_tops and not getattr(inl, 'expanded', 0):
        return {'unknown': [], 'splices': 0, 'renamed': renamed}
    return {'renamed': renamed, 'unknown': inl.unknown_tops, 'expanded_combinators': getattr(inl, 'expanded', 0), 'splices': getattr(inl, 'total', 0), 'dropped': getattr(inl, 'dropped', []), 'log': inl.log[:200]}
