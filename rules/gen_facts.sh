#!/bin/bash
# Build MIR facts for /repo's current working tree -> $1 (facts.json). Fails closed.
set -u
OUT="$1"
VERIF=$(cd "$(dirname "$0")/.." && pwd)
REPO=${VERIF_REPO:-/repo}
DRV=$VERIF/mirfacts/target/debug/mirfacts
export CARGO_NET_OFFLINE=true
export CARGO_INCREMENTAL=0
if [ ! -x "$DRV" ]; then
  (cd $VERIF/mirfacts && cargo +nightly build --offline >/dev/null 2>$VERIF/build/driver_build.log) || { echo "driver build failed"; cat $VERIF/build/driver_build.log | tail -20; exit 2; }
fi
TD=${VERIF_TARGET_DIR:-$VERIF/build/target}
mkdir -p "$TD"
rm -rf "$TD"/debug/.fingerprint/ntex-mqtt-* "$OUT"
SYSROOT=$(rustc +nightly --print sysroot)
cd "$REPO" || exit 2
LD_LIBRARY_PATH=$SYSROOT/lib RUSTFLAGS="-Zmir-opt-level=0 -Awarnings" MIRFACTS_OUT="$OUT" \
 RUSTC_WORKSPACE_WRAPPER=$DRV CARGO_TARGET_DIR="$TD" \
 cargo +nightly check --offline --lib >"$OUT.log" 2>&1
rc=$?
if [ $rc -ne 0 ] || [ ! -s "$OUT" ]; then
  echo "facts build failed (rc=$rc)"; tail -30 "$OUT.log"; exit 2
fi
exit 0
