"""Symbolic size equivalence of the encoders (shared by C09 and C01).

For a pair (size function S, emitting function E) both are evaluated over the MIR facts by path
enumeration with constant folding (symex) into *linear forms* over symbolic atoms:

  len(P)          length of the string / byte / vector value at access path P
  val(P)          numeric value at P (e.g. payload_size)
  vil(L)          length of the variable byte integer encoding of the linear form L
  optprops(P,R)   bytes produced by encode_opt_props / counted by encoded_size_opt_props (limit dependent)
  ackprops(P,R)   ditto for ack_props::{encode, encoded_size}
  lsize(P)        EncodeLtd::encoded_size of the nested value at P
  esize(P)        Encode::encoded_size of a value of generic type
  sum(C, L)       sum over the items of collection C of the per-item form L (loops and folds)
  cases(...)      value depending on conditions over the packet's own fields

S: the returned value.  E: the sum of what every emitting call on the success path appends
(put_u8 = 1, X.encode(buf) = the paired encoded_size of X evaluated the same way, ...).
The two are compared in every *world* (consistent combination of the branch conditions of both
functions over the packet's fields).  Nothing is executed; no solver is involved: equality is
syntactic equality of normalised linear forms.
"""
from facts import *
from symex import SymEx, term_str_v, freeze, mk_field, mk_downcast

# ----------------------------------------------------------------------------- linear forms


class Lin:
    __slots__ = ('c', 't')

    def __init__(self, c=0, t=None):
        self.c = c
        self.t = dict(t) if t else {}

    @staticmethod
    def atom(a, k=1):
        return Lin(0, {a: k})

    def add(self, o, k=1):
        r = Lin(self.c + k * o.c, self.t)
        for a, v in o.t.items():
            nv = r.t.get(a, 0) + k * v
            if nv:
                r.t[a] = nv
            else:
                r.t.pop(a, None)
        return r

    def sub(self, o):
        return self.add(o, -1)

    def scale(self, k):
        return Lin(self.c * k, {a: v * k for a, v in self.t.items()} if k else {})

    def is_const(self):
        return not self.t

    def key(self):
        return (self.c, tuple(sorted(self.t.items(), key=lambda kv: repr(kv[0]))))

    def __eq__(self, o):
        return isinstance(o, Lin) and self.c == o.c and self.t == o.t

    def __hash__(self):
        return hash(self.key())

    def atoms(self):
        return list(self.t)

    def __repr__(self):
        return lin_str(self)


def thaw(k):
    return Lin(k[0], dict(k[1]))


def path_str(p, depth=0):
    if depth > 8 or not isinstance(p, tuple) or not p:
        return str(p)
    k = p[0]
    if k == 'arg':
        return 'arg%d' % p[1]
    if k == 'field':
        return '%s.%s' % (path_str(p[1], depth + 1), p[2])
    if k == 'downcast':
        return '(%s as %s)' % (path_str(p[1], depth + 1), p[2])
    if k == 'item':
        return 'item(%s)' % path_str(p[1], depth + 1)
    if k == 'const':
        return str(p[1])
    if k == 'call':
        return '%s(%s)' % (p[1], ','.join(path_str(x, depth + 1) for x in p[2]))
    if k == 'discr':
        return 'discr(%s)' % path_str(p[1], depth + 1)
    if k == 'eqc':
        return '(%s == %s)' % (path_str(p[1], depth + 1), path_str(p[2], depth + 1))
    if k == 'agg':
        return '%s::%s' % (p[1].split('::')[-1], p[2])
    return '%s(%s)' % (k, ','.join(path_str(x, depth + 1) if isinstance(x, tuple) else str(x) for x in p[1:]))


def atom_str(a, depth=0):
    k = a[0]
    if k in ('len', 'val', 'lsize', 'esize'):
        return '%s(%s)' % (k, path_str(a[1]))
    if k == 'vil':
        return 'vil(%s)' % lin_str(thaw(a[1]), depth + 1)
    if k in ('optprops', 'ackprops'):
        return '%s(%s,%s)' % (k, path_str(a[1]), path_str(a[2]))
    if k == 'sum':
        return 'sum(%s: %s)' % (path_str(a[1]), lin_str(thaw(a[2]), depth + 1))
    if k == 'cases':
        return 'cases{%s}' % '; '.join('%s => %s' % (cond_str(c), lin_str(thaw(l), depth + 1)) for c, l in a[1])
    if k == 'vilinv':
        return 'vilinv(%s)' % lin_str(thaw(a[1]), depth + 1)
    if k == 'SIZE':
        return 'SIZE'
    if k == 'B0':
        return 'B0'
    return path_str(a)


def cond_str(c):
    return ' & '.join('%s%s' % (path_str(t), ('=%s' % v[1]) if v[0] == 'eq' else ('!in%s' % sorted(v[1]))) for t, v in c) or 'true'


def lin_str(l, depth=0):
    if depth > 5:
        return '..'
    parts = []
    if l.c or not l.t:
        parts.append(str(l.c))
    for a, k in sorted(l.t.items(), key=lambda kv: repr(kv[0])):
        s = atom_str(a, depth)
        parts.append(s if k == 1 else '%d*%s' % (k, s))
    return ' + '.join(parts)


# ----------------------------------------------------------------------------- term normalisation

TRANSPARENT = re.compile(r'(^|::)(as_ref|as_mut|deref|deref_mut|as_bytes|as_slice|as_str|borrow|clone|into_iter|iter|into|from|get|collect|map|to_owned|as_deref|copied|cloned|unwrap_or_default)$')
PURE = re.compile(r'(^|::)(is_some|is_none|eq|ne|lt|le|gt|ge|contains|is_empty|len|cmp|partial_cmp)$')


def short(nm):
    return nm.split('::')[-1]


def norm(t):
    """Canonical access path / value term: references, casts and identity-like calls removed, call ids dropped."""
    if not isinstance(t, tuple) or not t:
        return t
    k = t[0]
    if k in ('ref', 'deref'):
        return norm(t[1])
    if k == 'cast':
        return norm(t[1])
    if k == 'field':
        b = norm(t[1])
        # payload of next(): item of the collection
        if b[0] == 'downcast' and b[2] in ('Some', 1) and isinstance(b[1], tuple) and b[1][0] == 'call' and short(b[1][1]) == 'next':
            return ('item', coll_of(b[1][2][0]))
        if b[0] == 'item' and False:
            return b
        return ('field', b, t[2])
    if k == 'downcast':
        return ('downcast', norm(t[1]), t[2])
    if k == 'call':
        nm = t[1]
        if TRANSPARENT.search(nm) and t[2]:
            return norm(t[2][0])
        return ('call', short(nm), tuple(norm(x) for x in t[2]))
    if k == 'const':
        return ('const', t[1])
    if k == 'agg':
        return ('agg', t[1], t[2], tuple(sorted((n, norm(v)) for n, v in t[3].items())))
    if k == 'tuple':
        return ('tuple', tuple(norm(x) for x in t[1]))
    if k == 'discr':
        return ('discr', norm(t[1]))
    if k == 'bin':
        return ('bin', t[1], norm(t[2]), norm(t[3]))
    if k == 'un':
        return ('un', t[1], norm(t[2]))
    if k == 'lin':
        return t
    if k == 'index':
        return ('item', norm(t[1]))
    return tuple(norm(x) if isinstance(x, tuple) else x for x in t)


def known_array(it):
    """Elements of the array an iterator term walks over when that array was built on the path (through iter / into_iter /
    refs / unsizing casts), else None."""
    x = it
    for _ in range(8):
        if not isinstance(x, tuple) or not x:
            return None
        if x[0] in ('ref', 'deref', 'cast'):
            x = x[1]
        elif x[0] == 'call' and re.search(r'(^|::)(iter|into_iter|as_ref|as_slice|deref|borrow)$', x[1]) and x[2]:
            x = x[2][0]
        elif x[0] == 'array':
            return list(x[1])
        elif x[0] == 'arrayiter':
            return list(x[1])
        else:
            return None
    return None


def coll_of(it):
    """Collection behind an iterator term."""
    return norm(it)


def has_call(t, pred):
    st = [t]
    while st:
        x = st.pop()
        if isinstance(x, tuple):
            if x and x[0] == 'call' and pred(x[1]):
                return True
            st.extend(y for y in x if isinstance(y, (tuple, frozenset)))
        elif isinstance(x, frozenset):
            st.extend(x)
    return False


def is_pure_term(t):
    """Built from arguments, fields and pure predicates only (a condition over the packet's own data)."""
    st = [t]
    while st:
        x = st.pop()
        if not isinstance(x, tuple) or not x:
            continue
        if x[0] == 'call':
            if not PURE.search(x[1]) and not TRANSPARENT.search(x[1]):
                return False
        if x[0] in ('undef', 'unknown', 'resume'):
            return False
        st.extend(y for y in x if isinstance(y, tuple))
    return True


def canon_cond(term, c, F=None, domains=None):
    """(normalised term, cond) with a few equivalences folded: eq(P, const) calls, x > 0 on unsigned, bool results."""
    t = norm(term)
    neg = False
    # unary not
    while isinstance(t, tuple) and t and t[0] == 'un' and t[1] == 'Not':
        t = t[2]
        neg = not neg
    boolish = False
    if t[0] == 'discr' and isinstance(t[1], tuple) and t[1] and t[1][0] == 'chk':
        # discriminant of a.checked_sub(b): None (0) iff a < b
        k_ = c[1] if c[0] == 'eq' else (1 - next(iter(c[1])) if c[0] == 'ne' and len(c[1]) == 1 and next(iter(c[1])) in (0, 1) else None)
        if k_ in (0, 1):
            return (('bin', 'Lt', t[1][1], t[1][2]), ('eq', 1 if k_ == 0 else 0))
    if t[0] == 'call' and t[1] in ('eq', 'ne') and len(t[2]) == 2:
        a, b = t[2]
        if t[1] == 'ne':
            neg = not neg
        if b[0] == 'agg' and not b[3]:
            # comparison with a field-less enum variant: a condition on the discriminant
            k = variant_index(F, b[1], b[2])
            if domains is not None and F is not None and b[1] in F.adts:
                domains[('discr', a)] = {v.get('discr', i) for i, v in enumerate(F.adts[b[1]]['variants'])}
            val = truth(c)
            if val is not None and k is not None:
                pos = (val == 1) != neg
                return (('discr', a), ('eq', k) if pos else ('ne', frozenset([k])))
        t = ('eqc', a, b)
        boolish = True
    elif t[0] == 'bin' and t[1] in ('Eq', 'Ne'):
        if t[1] == 'Ne':
            neg = not neg
        t = ('eqc', t[2], t[3])
        boolish = True
    elif t[0] == 'bin' and t[1] == 'Gt' and t[3] == ('const', 0):
        t = ('eqc', t[2], t[3])
        neg = not neg
        boolish = True
    elif t[0] == 'bin' and t[1] == 'Lt' and t[2] == ('const', 0):
        t = ('eqc', t[3], t[2])
        neg = not neg
        boolish = True
    elif t[0] == 'call' and PURE.search(t[1]) or t[0] == 'bin':
        boolish = True
    if boolish:
        val = truth(c)
        if val is not None:
            if neg:
                val = 1 - val
            return (t, ('eq', val))
    return (t, c)


def truth(c):
    if c[0] == 'eq' and c[1] in (0, 1):
        return c[1]
    if c[0] == 'ne' and set(c[1]) == {0}:
        return 1
    if c[0] == 'ne' and set(c[1]) == {1}:
        return 0
    return None


def variant_index(F, adt, name):
    a = F.adts.get(adt) if F else None
    if not a:
        return None
    for i, v in enumerate(a['variants']):
        if v['name'] == name:
            return v.get('discr', i)
    return None


def merge_conds(cs, F=None, domains=None):
    """Merge canonical condition lists; None if contradictory."""
    m = {}
    for t, c in cs:
        cur = m.get(t)
        if cur is None:
            m[t] = c
            continue
        if cur[0] == 'eq' and c[0] == 'eq':
            if cur[1] != c[1]:
                return None
        elif cur[0] == 'eq':
            if cur[1] in c[1]:
                return None
        elif c[0] == 'eq':
            if c[1] in cur[1]:
                return None
            m[t] = c
        else:
            m[t] = ('ne', frozenset(cur[1]) | frozenset(c[1]))
    # exhausted enum domains
    for t, c in m.items():
        if c[0] == 'ne' and domains is not None:
            d = domains.get(t)
            if d is not None and d <= set(c[1]):
                return None
    return m


# ----------------------------------------------------------------------------- evaluator

EMIT_FIXED = {'put_u8': 1, 'put_i8': 1, 'put_u16': 2, 'put_i16': 2, 'put_u32': 4, 'put_i32': 4, 'put_u64': 8}
OK_UNIT = ('agg', 'std::result::Result', 'Ok', {'0': ('tuple', ())})


class Unsupported(Exception):
    pass


class SizeFlow:
    """pairs: {emit fn path regex: (size fn path regex)} for limit-dependent helper pairs kept as atoms."""

    ATOM_PAIRS = [
        (r'^v5::codec::encode::encode_opt_props$', r'^v5::codec::encode::encoded_size_opt_props$', 'optprops'),
        (r'^v5::codec::packet::ack_props::encode$', r'^v5::codec::packet::ack_props::encoded_size$', 'ackprops'),
    ]
    HELPER_PAIRS = [
        (r'^v5::codec::encode::encode_property$', 'v5::codec::encode::encoded_property_size', (0,)),
        (r'^v5::codec::encode::encode_property_default$', 'v5::codec::encode::encoded_property_size_default', (0, 1)),
    ]

    def __init__(self, F):
        self.F = F
        self.memo = {}
        self.limit_args = []   # (owner fn, atom kind, limit term) for limit-arith rules
        self.obligs = []
        self.domains = {}      # discr term -> set of discriminant values
        self.depth = 0
        self.sentinels = []
        self.last_lims = {}
        self.zero_loop_exits_ok = False

    # ---- type environment helpers
    @staticmethod
    def generic_env(body, t):
        """{'T': concrete} for a call to a generic local function, from the callee const."""
        c = op_const(t['func']) if t.get('func') else None
        if not c:
            return {}
        return {'__args': c.get('args') or []}

    def impl_fn(self, ty, trait, method):
        p = '<%s as %s>::%s' % (ty, trait, method)
        if p in self.F.bodies:
            return p
        # impls on generic containers
        cands = []
        for q in self.F.bodies:
            m = re.match(r'^<(.*) as %s>::%s$' % (re.escape(trait), method), q)
            if m:
                cands.append((m.group(1), q))
            m = re.match(r'^.*<impl %s for (.*)>::%s$' % (re.escape(trait), method), q)
            if m:
                cands.append((m.group(1), q))
        for pat, q in cands:
            if pat == ty:
                return q
        for pat, q in cands:
            if generic_match(pat, ty) is not None:
                return q
        return None

    # ---- S side -------------------------------------------------------------------------
    def size_of_call(self, fn, args, tyargs=None):
        """Evaluate size function `fn` on argument terms -> Lin (possibly with a cases atom)."""
        key = ('S', fn, freeze(tuple(norm(a) for a in args)), freeze(tuple(tyargs or ())))
        if key in self.memo:
            return self.memo[key]
        b = self.F.bodies.get(fn)
        if b is None:
            raise Unsupported('no body for %s' % fn)
        if self.depth > 12:
            raise Unsupported('inlining too deep at %s' % fn)
        self.depth += 1
        try:
            res = self._eval_paths(b, args, tyargs or (), emit=False)
        finally:
            self.depth -= 1
        lin = self._as_value(res)
        self.memo[key] = lin
        return lin

    def _as_value(self, res):
        """[(conds, Lin)] -> single Lin (cases atom when it depends on conditions)."""
        if len(res) == 1 and not res[0][0]:
            return res[0][1]
        if all(l == res[0][1] for _, l in res):
            return res[0][1]
        cases = tuple(sorted(((tuple(sorted(c.items(), key=repr)), l.key()) for c, l in res), key=repr))
        return Lin.atom(('cases', cases))

    def emit_of_call(self, fn, args, tyargs=None):
        key = ('E', fn, freeze(tuple(norm(a) for a in args)), freeze(tuple(tyargs or ())))
        if key in self.memo:
            return self.memo[key]
        b = self.F.bodies.get(fn)
        if b is None:
            raise Unsupported('no body for %s' % fn)
        self.depth += 1
        try:
            res = self._eval_paths(b, args, tyargs or (), emit=True)
        finally:
            self.depth -= 1
        self.memo[key] = res
        return res

    # ---- core: enumerate paths of one body
    def _eval_paths(self, b, args, tyargs, emit):
        sf = self
        F = self.F
        argv = {i + 1: a for i, a in enumerate(args)}
        events_of = {}

        def emitted(path):
            return path_emitted(path)

        def path_emitted(path):
            tot = Lin()
            for (nm, a, bi), ev in zip(path.calls, path_events(path)):
                if ev is not None:
                    tot = tot.add(ev[1])
            return tot

        def path_events(path):
            # events are stored alongside calls through a parallel list kept in path.writes? keep in env slot
            return path.env.get('__ev', ())

        def record(path, ev):
            path.env['__ev'] = path.env.get('__ev', ()) + (ev,)

        def resolve_ty(ty):
            # substitute generic parameters of this body by the caller supplied type arguments
            if ty == 'T' and len(tyargs) >= 1:
                return tyargs[0]
            return ty

        def model(nm, cargs, t, path):
            base = short(nm)
            c = op_const(t['func']) if t.get('func') else None
            targs = [resolve_ty(x) for x in ((c or {}).get('args') or [])]
            trait = (c or {}).get('trait')
            ev = None
            val = None
            # ------------------------------------------------ pure value calls
            if base == 'len' and 'BytePages' in nm:
                return ('lin', Lin.atom(('B0',)).add(path_total(path)).key())
            if base == 'len' and len(cargs) == 1:
                val = ('lin', Lin.atom(('len', norm(cargs[0]))).key())
            elif nm.endswith('encode::var_int_len') or nm.endswith('encode::var_int_len_u32'):
                val = ('lin', vil(sf.lin(cargs[0])).key())
            elif nm.endswith('encode::var_int_len_from_size'):
                record(path, ('vilinv-arg', Lin(), 'var_int_len_from_size', None, sf.lin(cargs[0]), t.get('line')))
                val = ('lin', Lin.atom(('vilinv', sf.lin(cargs[0]).key())).key())
            elif base == 'map_or' and 'Option' in nm and len(cargs) == 3:
                opt = norm(cargs[0])
                payload = ('field', ('downcast', opt, 'Some'), '0')
                inner = sf.apply_fn(cargs[2], [payload], tyargs)
                dflt = sf.lin(cargs[1])
                dterm = ('discr', opt)
                sf.domains[dterm] = {0, 1}
                cases = tuple(sorted([(((dterm, ('eq', 0)),), dflt.key()), (((dterm, ('eq', 1)),), inner.key())], key=repr))
                val = ('lin', Lin.atom(('cases', cases)).key())
            elif base == 'checked_sub' and len(cargs) == 2 and re.search(r'<impl (u8|u16|u32|u64|usize)>::checked_sub$', nm):
                # None iff a < b, otherwise Some(a - b): kept as a term of its own, conditions on it are comparisons (canon_cond)
                val = ('chk', cargs[0], cargs[1])
            elif base == 'fold' and len(cargs) == 3:
                coll = coll_of(cargs[0])
                acc = ('ACC',)
                inner = sf.apply_fn(cargs[2], [('lin', Lin.atom(acc).key()), ('item', coll)], tyargs)
                if inner.t.get(acc) != 1:
                    raise Unsupported('fold closure is not acc + f(item) in %s' % b.path)
                per = inner.sub(Lin.atom(acc))
                val = ('lin', sf.lin(cargs[1]).add(mk_sum(coll, per)).key())
            elif base == 'sum' and len(cargs) == 1 and 'Iterator' in nm:
                x = cargs[0]
                while isinstance(x, tuple) and x and x[0] in ('ref', 'deref'):
                    x = x[1]
                if isinstance(x, tuple) and x and x[0] == 'call' and short(x[1]) == 'map' and len(x[2]) == 2:
                    arr = known_array(x[2][0])
                    if arr is not None:
                        # a table built in this body (`[(&self.a, ID_A), (&self.b, ID_B)].iter().map(f).sum()`): f of each entry
                        tot_ = Lin()
                        for el in arr:
                            tot_ = tot_.add(sf.apply_fn(x[2][1], [('ref', el)], tyargs))
                        val = ('lin', tot_.key())
                    else:
                        coll = coll_of(x[2][0])
                        per = sf.apply_fn(x[2][1], [('item', coll)], tyargs)
                        val = ('lin', mk_sum(coll, per).key())
                else:
                    raise Unsupported('sum() over an iterator that is not map(closure) in %s' % b.path)
            elif trait == 'utils::Encode' and base == 'encoded_size':
                val = ('lin', sf.esize(cargs[0], targs[0] if targs else None, t).key())
            elif nm.endswith('EncodeLtd::encoded_size') or re.search(r'EncodeLtd>::encoded_size$', nm):
                if len(cargs) > 1:
                    sf.limit_args.append((b.path, 'lsize', cargs[1]))
                val = ('lin', Lin.atom(('lsize', norm(cargs[0]))).key())
            elif base == 'reduce_limit' and 'codec::encode' in nm:
                val = ('reduce', cargs[0], sf.lin(cargs[1]).key())
            elif base == 'len' and False:
                pass
            else:
                for epat, spat, kind in sf.ATOM_PAIRS:
                    if re.search(spat, nm):
                        sf.limit_args.append((b.path, kind, cargs[2], (norm(cargs[0]), norm(cargs[1]))))
                        path.env['__lim'] = path.env.get('__lim', ()) + ((kind, cargs[2], (norm(cargs[0]), norm(cargs[1]))),)
                        val = ('lin', Lin.atom((kind, norm(cargs[0]), norm(cargs[1]))).key())
            if val is not None:
                return val
            # ------------------------------------------------ emitting calls (only meaningful in emit mode)
            if base in EMIT_FIXED and ('BufMut' in nm or 'BytePages' in nm):
                ev = ('put', Lin(EMIT_FIXED[base]), base, cargs[1] if len(cargs) > 1 else None)
            elif base in ('put_slice', 'extend_from_slice') and ('BufMut' in nm or 'BytePages' in nm):
                ev = ('slice', sf.len_of(cargs[1]), base, cargs[1])
            elif base == 'append' and 'BytePages' in nm:
                ev = ('append', sf.len_of(cargs[1]), base, cargs[1])
            elif nm.endswith('utils::write_variable_length'):
                ev = ('varint', vil(sf.lin(cargs[0])), 'write_variable_length', cargs[0])
            elif trait == 'utils::Encode' and base == 'encode':
                ev = ('encode', sf.esize(cargs[0], targs[0] if targs else None, t), 'Encode::encode', cargs[0], targs[0] if targs else None)
            elif nm.endswith('EncodeLtd::encode') or re.search(r'EncodeLtd>::encode$', nm):
                a = ('lsize', norm(cargs[0]))
                ev = ('nested', Lin.atom(a), 'EncodeLtd::encode', cargs[0], sf.lin(cargs[2]), a)
            else:
                for epat, spat, kind in sf.ATOM_PAIRS:
                    if re.search(epat, nm):
                        a = (kind, norm(cargs[0]), norm(cargs[1]))
                        ev = (kind, Lin.atom(a), short(nm), None, sf.lin(cargs[3]), a)
                for epat, sfn, idx in sf.HELPER_PAIRS:
                    if re.search(epat, nm):
                        l = sf.size_of_call(sfn, [cargs[i] for i in idx], targs)
                        ev = ('prop', l, short(nm), cargs[0], cargs[len(idx)])
            if ev is None and base in ('for_each', 'try_for_each') and len(cargs) == 2 and cargs[1][0] == 'closure' and 'Iterator' in nm:
                # `items.iter().try_for_each(|x| x.encode(buf))`: what the closure appends for one item, once per item
                src_ = cargs[0]
                per_item_map = None
                for _ in range(6):
                    while isinstance(src_, tuple) and src_ and src_[0] in ('ref', 'deref'):
                        src_ = src_[1]
                    if isinstance(src_, tuple) and src_ and src_[0] == 'call' and short(src_[1]) in ('copied', 'cloned', 'by_ref') and src_[2]:
                        src_ = src_[2][0]
                    elif isinstance(src_, tuple) and src_ and src_[0] == 'call' and short(src_[1]) == 'map' and len(src_[2]) == 2:
                        per_item_map = src_[2][1]       # the mapped value is what the closure receives; its size does not depend on it
                        src_ = src_[2][0]
                    else:
                        break
                coll = coll_of(src_)
                cl_body = sf.F.bodies.get(cargs[1][1])
                if cl_body is None:
                    raise Unsupported('closure body %s missing' % cargs[1][1])
                item = ('item', coll)
                res_ = sf.emit_of_call(cargs[1][1], [('tuple', tuple(cargs[1][2])), item], tyargs)
                lins = {r_[1].key() for r_ in res_}
                if len(lins) != 1:
                    raise Unsupported('the closure of %s appends different amounts on different paths in %s' % (base, b.path))
                per = res_[0][1]
                ev = ('loop', mk_sum(coll, per), base, coll, list(res_[0][2]) if len(res_[0]) > 2 else [])
            if ev is None and emit and base == 'len' and 'BytePages' in nm:
                pass
            if ev is not None:
                record(path, ev + (t.get('line'),) if False else ev)
                return OK_UNIT
            # ------------------------------------------------ buffer length idiom
            if base == 'len' and 'BytePages' in nm:
                return ('lin', Lin.atom(('B0',)).add(path_total(path)).key())
            # ------------------------------------------------ Try / control flow helpers on known results
            if base == 'branch' and cargs and cargs[0][0] == 'agg' and cargs[0][1] == 'std::result::Result':
                if cargs[0][2] == 'Ok':
                    return ('agg', 'std::ops::ControlFlow', 'Continue', {'0': cargs[0][3].get('0', ('tuple', ()))})
            if base == 'from_residual':
                return ('agg', 'std::result::Result', 'Err', {'0': ('residual',)})
            # ------------------------------------------------ local helpers: inline
            callee = nm if nm in F.bodies else None
            if callee and not emit_like(F.bodies[callee]) and returns_number(F.bodies[callee]):
                return ('lin', sf.size_of_call(callee, cargs, targs).key())
            if callee and emit and emit_like(F.bodies[callee]):
                res = sf.emit_of_call(callee, cargs, targs)
                lin = sf._as_value([(c, l) for c, l, _ in res])
                record(path, ('inline', lin, short(nm), None))
                return OK_UNIT
            return None

        def path_total(path):
            tot = Lin()
            for ev in path.env.get('__ev', ()):
                tot = tot.add(ev[1])
            return tot

        se = SymEx(b, F, max_paths=60000, loop_visits=1, call_model=model, arg_values=argv)
        paths = se.run()
        if se.truncated:
            raise Unsupported('path enumeration truncated in %s' % b.path)
        out = []
        groups = {}
        for p in paths:
            if p.end[0] != 'return':
                continue
            if emit and is_err(p.ret):
                continue
            conds = []
            loops = []
            ok = True
            for term, c in p.conds:
                if isinstance(term, tuple) and term and term[0] == 'assert':
                    continue
                if has_call(term, lambda n: short(n) == 'next') or has_leaf_kind(norm(term), 'item'):
                    loops.append((term, c))
                    continue
                if not is_pure_term(term):
                    continue
                conds.append(canon_cond(term, c, F, self.domains))
            m = merge_conds(conds, F, self.domains)
            if m is None:
                continue
            unrolled = set()
            for nm_, a_, bi_ in p.calls:
                if short(nm_) == 'next' and a_:
                    it_ = a_[0]
                    while isinstance(it_, tuple) and it_ and it_[0] in ('ref', 'deref'):
                        it_ = it_[1]
                    if isinstance(it_, tuple) and it_ and it_[0] == 'arrayiter':
                        unrolled.add(bi_[0] if isinstance(bi_, tuple) else bi_)
            iterated = tuple(sorted(bi for bi, n in p.visits.items() if n >= 2 and bi not in unrolled and b.blocks[bi]['term']['k'] == 'call' and short(callee_name(b.blocks[bi]['term']) or '') == 'next'))
            if emit:
                # unsigned subtractions on this path: value of a - b, to be shown non-negative in every world
                for bi in p.blocks:
                    tt = b.blocks[bi]['term']
                    if tt['k'] == 'assert' and tt.get('msg') == 'Overflow' and tt.get('op') == 'Sub':
                        la, lb_ = self.lin(se.operand(p, tt['a'])), self.lin(se.operand(p, tt['b']))
                        record(p, ('sub', Lin(), 'Sub', None, la.sub(lb_), b.loc(bi)))
            val = path_total(p) if emit else self.lin(p.ret)
            if not emit and val.is_const() and val.c >= (1 << 32):
                self.sentinels.append((b.path, val.c))
                continue  # over-size sentinel (usize::MAX): can never pass the codec's limit comparison
            ck = tuple(sorted(m.items(), key=repr))
            groups.setdefault(ck, {}).setdefault(iterated, []).append((val, p))
        for ck, g in groups.items():
            base = g.get(())
            if not base:
                continue
            vals = {v.key() for v, _ in base}
            if len(vals) != 1:
                raise Unsupported('paths with equal conditions disagree in %s: %s' % (b.path, ' | '.join(lin_str(thaw(v)) for v in list(vals)[:3])))
            tot = base[0][0]
            evs = base[0][1].env.get('__ev', ())
            for it, lst in g.items():
                if len(it) != 1:
                    continue
                vs = {v.key() for v, _ in lst}
                if len(vs) != 1 and self.zero_loop_exits_ok:
                    # an iteration that contributes nothing and leaves the function (checked separately by the caller)
                    lst = [(v, pp) for v, pp in lst if v != base[0][0]] or lst
                    vs = {v.key() for v, _ in lst}
                if len(vs) != 1:
                    raise Unsupported('loop paths disagree in %s' % b.path)
                coll = self._loop_coll(b, lst[0][1], it[0])
                gen = None if emit else loop_generalise(lst[0][0], base[0][0], coll)
                if gen is not None:
                    # the accumulated value also feeds a non-linear term (the length of its own length prefix)
                    tot = tot.add(gen.sub(base[0][0]))
                    continue
                per = lst[0][0].sub(base[0][0])
                tot = tot.add(mk_sum(coll, per))
                evs = evs + (('loop', mk_sum(coll, per), 'for', coll, [e for e in lst[0][1].env.get('__ev', ())]),)
            if emit:
                out.append((dict(ck), tot, evs))
            else:
                out.append((dict(ck), tot))
                self.last_lims[(b.path, ck)] = base[0][1].env.get('__lim', ())
        if not out:
            raise Unsupported('no %s path in %s' % ('successful' if emit else 'returning', b.path))
        return out

    def _loop_coll(self, b, path, next_block):
        for nm, a, bi in path.calls:
            if bi == next_block or (isinstance(bi, tuple) and bi[0] == next_block):
                return coll_of(a[0])
        return ('?',)

    # ---- helpers
    def lin(self, t):
        """Term -> linear form."""
        if not isinstance(t, tuple) or not t:
            return Lin.atom(('val', ('?', str(t))))
        k = t[0]
        if k == 'lin':
            return thaw(t[1])
        if k == 'field' and t[2] == '0' and isinstance(t[1], tuple) and t[1][0] == 'downcast' and t[1][2] == 'Some' and isinstance(t[1][1], tuple) and t[1][1][0] == 'chk':
            return self.lin(t[1][1][1]).sub(self.lin(t[1][1][2]))
        if k == 'const' and isinstance(t[1], int):
            return Lin(t[1])
        if k == 'cast':
            return self.lin(t[1])
        if k == 'bin':
            op = t[1]
            if op in ('Add', 'AddUnchecked'):
                return self.lin(t[2]).add(self.lin(t[3]))
            if op in ('Sub', 'SubUnchecked'):
                return self.lin(t[2]).sub(self.lin(t[3]))
            if op == 'Mul':
                a, c = self.lin(t[2]), self.lin(t[3])
                if a.is_const():
                    return c.scale(a.c)
                if c.is_const():
                    return a.scale(c.c)
        if k in ('ref', 'deref'):
            return self.lin(t[1])
        if k == 'call' and TRANSPARENT.search(t[1]) and t[2]:
            return self.lin(t[2][0])
        if k == 'ARGSIZE':
            return Lin.atom(('SIZE',))
        return Lin.atom(('val', norm(t)))

    def len_of(self, t):
        x = t
        while isinstance(x, tuple) and x and x[0] in ('ref', 'deref', 'cast'):
            x = x[1]
        if isinstance(x, tuple) and x and x[0] == 'array':
            return Lin(len(x[1]))
        if isinstance(x, tuple) and x and x[0] == 'call' and TRANSPARENT.search(x[1]) and x[2]:
            return self.len_of(x[2][0])
        if isinstance(x, tuple) and x and x[0] == 'constx':
            m = re.search(r'\[u8; (\d+)\]', str(x[2]))
            if m:
                return Lin(int(m.group(1)))
            cb = self.F.bodies.get(x[1]) if isinstance(x[1], str) else None
            if cb is not None and cb.argc == 0:
                ps = [p for p in SymEx(cb, self.F).run() if p.end[0] == 'return']
                if len(ps) == 1 and ps[0].ret != x:
                    return self.len_of(ps[0].ret)
        return Lin.atom(('len', norm(t)))

    def esize(self, x, ty, t):
        """Encode::encoded_size of value x of (possibly generic) type ty."""
        l = self._esize(x, ty, t)
        # len(<constant byte string>) folds to its length
        out = Lin(l.c)
        for a, k in l.t.items():
            if a[0] == 'len' and has_leaf_kind(a[1], 'constx'):
                out = out.add(self.len_of(x), k)
            else:
                out = out.add(Lin.atom(a), k)
        return out

    def _esize(self, x, ty, t):
        c = op_const(t['func']) if t.get('func') else {}
        res = (c or {}).get('res')
        fn = None
        if res and res in self.F.bodies and short(res) in ('encoded_size', 'encode') and res != 'utils::Encode::encoded_size':
            fn = re.sub(r'::encode$', '::encoded_size', res)
        if fn is None and ty:
            fn = self.impl_fn(ty, 'utils::Encode', 'encoded_size')
        if fn is None or fn not in self.F.bodies:
            return Lin.atom(('esize', norm(x)))
        inner = None
        m = re.match(r'^<(.*) as utils::Encode>::encoded_size$', fn)
        if ty and m:
            inner = generic_match(m.group(1), ty)
        return self.size_of_call(fn, [x], tuple(inner) if inner else ())

    def apply_fn(self, f, args, tyargs=()):
        """Apply a closure / function constant term to argument terms -> Lin."""
        if f[0] == 'closure':
            body = self.F.bodies.get(f[1])
            if body is None:
                raise Unsupported('closure body %s missing' % f[1])
            env = ('tuple', tuple(f[2]))
            return self.size_of_call(f[1], [env] + list(args), tyargs)
        if f[0] == 'fnconst':
            nm, res, targs = f[1], (f[2] if len(f) > 2 else None), (f[3] if len(f) > 3 else ())
            targs = tuple(tyargs[0] if (x == 'T' and tyargs) else x for x in targs)
            if res and res in self.F.bodies and res != nm:
                return self.size_of_call(res, list(args), targs)
            if nm == 'utils::Encode::encoded_size':
                fn = self.impl_fn(targs[0], 'utils::Encode', 'encoded_size') if targs else None
                if fn is None:
                    return Lin.atom(('esize', norm(args[0])))
                m = re.match(r'^<(.*) as utils::Encode>::encoded_size$', fn)
                inner = generic_match(m.group(1), targs[0]) if m else None
                return self.size_of_call(fn, list(args), tuple(inner) if inner else ())
            if nm in self.F.bodies:
                return self.size_of_call(nm, list(args), targs)
        if f[0] == 'fnres':
            return self.size_of_call(f[1], list(args), f[2])
        raise Unsupported('cannot apply %s' % (term_str_v(f),))


def mk_sum(coll, per):
    """sum over the items of coll of per; a constant per-item form is k * len(coll)."""
    if per.is_const():
        return Lin.atom(('len', coll), per.c) if per.c else Lin()
    return Lin.atom(('sum', coll, per.key()))


def loop_generalise(one, zero, coll):
    """Value of a function on the path with one loop iteration (`one`) and with none (`zero`), where the accumulated value
    also appears below vil(): vil(X + per(item)) against vil(X). -> the value for any number of iterations, vil(X + sum(coll,
    per)) + sum(coll, per'), or None when the difference is an ordinary linear one (handled by the caller)."""
    d = one.sub(zero)
    def has_item(t):
        st = [t]
        while st:
            x = st.pop()
            if isinstance(x, tuple) and x:
                if x[0] == 'item' and len(x) > 1 and x[1] == coll:
                    return True
                if x[0] == 'sum' and len(x) > 1 and x[1] == coll:
                    continue    # bound by the sum
                st.extend(y for y in x if isinstance(y, tuple))
        return False
    neg = [a for a, k in d.t.items() if a[0] == 'vil' and k == -1 and not has_item(a)]
    if len(neg) != 1:
        return None
    xz = thaw(neg[0][1])
    def item_only(l):
        return all(has_item(a) for a in l.t)
    pos = []
    for a, k in d.t.items():
        if a[0] == 'vil' and k == 1 and a != neg[0]:
            xi = thaw(a[1])
            inner = loop_generalise(xi, xz, coll)
            if inner is None and item_only(xi.sub(xz)) and xi.sub(xz) != Lin():
                inner = xz.add(mk_sum(coll, xi.sub(xz)))
            if inner is not None:
                pos.append((a, inner))
    if len(pos) != 1:
        return None
    rest = Lin(d.c, {a: k for a, k in d.t.items() if a not in (pos[0][0], neg[0])})
    if not item_only(rest):
        return None
    return zero.sub(Lin.atom(neg[0])).add(vil(pos[0][1])).add(mk_sum(coll, rest))


def has_leaf_kind(t, kind):
    st = [t]
    while st:
        x = st.pop()
        if isinstance(x, tuple) and x:
            if x[0] == kind:
                return True
            st.extend(y for y in x if isinstance(y, tuple))
    return False


def lower_bound(l):
    """A lower bound of a linear form whose atoms are non-negative (vil >= 1), or None."""
    lb = l.c
    for a, k in l.t.items():
        if k < 0:
            return None
        if a[0] == 'vil':
            lb += k
    return lb


def vil(l):
    if l.is_const():
        v = l.c
        return Lin(1 if v < 128 else 2 if v < 16384 else 3 if v < 2097152 else 4)
    return Lin.atom(('vil', l.key()))


def generic_match(pat, ty):
    """Match an impl self type pattern with one generic parameter T against a concrete type -> [T] or None."""
    if pat == ty:
        return []
    if 'T' not in re.findall(r'\bT\b', pat):
        return None
    rx = re.escape(pat)
    rx = re.sub(r'\bT\b', r'(.+)', rx, count=1)
    rx = re.sub(r'\bT\b', r'\\1', rx)
    rx = rx.replace(r',\ A', r'(?:,\ .*)?')
    m = re.match('^' + rx + '$', ty)
    if m:
        return [m.group(1)]
    return None


def is_err(ret):
    return isinstance(ret, tuple) and ret and ret[0] == 'agg' and ret[1] == 'std::result::Result' and ret[2] == 'Err'


def emit_like(body):
    """A function that receives the output buffer."""
    return any('BytePages' in (body.local_ty(i) or '') for i in range(1, body.argc + 1))


def returns_number(body):
    return (body.local_ty(0) or '') in ('usize', 'u32', 'u64')


# ----------------------------------------------------------------------------- worlds and comparison

def conds_items(c):
    return list(c.items()) if isinstance(c, dict) else list(c)


class World:
    def __init__(self, sf, conds):
        self.sf = sf
        self.conds = conds  # dict term -> cond
        self.size = None
        self.zero_atoms = set()

    def consistent_with(self, extra):
        return merge_conds(list(self.conds.items()) + list(extra), self.sf.F, self.sf.domains)

    def resolve(self, l):
        out = Lin(l.c)
        for a, k in l.t.items():
            out = out.add(self.resolve_atom(a), k)
        return out

    def resolve_atom(self, a):
        k = a[0]
        if a in self.zero_atoms:
            return Lin()
        if k == 'cases':
            vals = []
            for cc, lk in a[1]:
                m = self.consistent_with(cc)
                if m is None:
                    continue
                w = World(self.sf, m)
                w.size = self.size
                w.zero_atoms = self.zero_atoms
                vals.append(w.resolve(thaw(lk)))
            if vals and all(v == vals[0] for v in vals):
                return vals[0]
            return Lin.atom(a)
        if k == 'vil':
            return vil(self.resolve(thaw(a[1])))
        if k == 'vilinv':
            x = self.resolve(thaw(a[1]))
            for at, co in x.t.items():
                if at[0] == 'vil' and co == 1:
                    L = thaw(at[1])
                    if x.sub(Lin.atom(at)) == L:
                        return L
            if x.is_const():
                # constant total: invert numerically
                for L in range(max(0, x.c - 4), x.c + 1):
                    if L + vil(Lin(L)).c == x.c:
                        return Lin(L)
            return Lin.atom(('vilinv', x.key()))
        if k == 'sum':
            return mk_sum(a[1], self.resolve(thaw(a[2])))
        if k == 'SIZE':
            return self.size if self.size is not None else Lin.atom(a)
        if k == 'val' and a[1] == ('ARGSIZE',):
            return self.size if self.size is not None else Lin.atom(('SIZE',))
        return Lin.atom(a)


def size_conds(conds):
    """Conditions that talk about the size argument."""
    return [(t, c) for t, c in conds.items() if has_leaf(t, ('ARGSIZE',))]


def has_leaf(t, leaf):
    st = [t]
    while st:
        x = st.pop()
        if x == leaf:
            return True
        if isinstance(x, tuple):
            st.extend(y for y in x if isinstance(y, tuple))
    return False


def compare(sf, sfn, efn, relation, size_arg_index=2, payload_atom=None, tyargs=()):
    """Compare size function and emitter in every world. -> (worlds, mismatches, notes).
    mismatch = dict(kind, world, expected, got)."""
    F = sf.F
    sb, eb = F.bodies[sfn], F.bodies[efn]
    sargs = [('arg', i + 1) for i in range(sb.argc)]
    eargs = [('arg', i + 1) for i in range(eb.argc)]
    if size_arg_index is not None and size_arg_index < len(eargs):
        eargs[size_arg_index] = ('ARGSIZE',)
    S = sf._eval_paths(sb, sargs, tyargs, emit=False)
    E = sf.emit_of_call(efn, eargs, tyargs)
    worlds, bad, notes = 0, [], []
    for sc, sl in S:
        for ec, el, evs in E:
            plain = {t: c for t, c in ec.items() if not has_leaf(t, ('ARGSIZE',))}
            m = merge_conds(list(sc.items()) + list(plain.items()), F, sf.domains)
            if m is None:
                continue
            w = World(sf, m)
            SL = w.resolve(sl)
            w.size = SL
            # conditions on the size argument
            skip = False
            for t, c in size_conds(ec):
                r = eval_size_cond(w, t, c, SL)
                if r is False:
                    skip = True
                elif r is None:
                    notes.append('undecided condition on the size argument: %s' % path_str(t))
                    skip = True
            if skip:
                continue
            SL = w.resolve(sl)
            w.size = SL
            EL = w.resolve(el)
            worlds += 1
            if relation == 'content':
                exp = SL
            else:
                exp = Lin(1).add(vil(SL)).add(SL)
                if relation == 'frame-minus-payload':
                    exp = exp.sub(Lin.atom(payload_atom))
            if EL != exp:
                bad.append(dict(kind='size', world=cond_str(tuple(sorted(m.items(), key=repr))), expected=lin_str(exp), got=lin_str(EL), diff=lin_str(EL.sub(exp))))
            nsub = 0
            for ev in flatten_events(evs):
                if ev[0] == 'sub':
                    nsub += 1
                    v = w.resolve(ev[4])
                    lb = lower_bound(v)
                    if lb is None or lb < 0:
                        bad.append(dict(kind='sub-underflow#%d' % nsub, world=cond_str(tuple(sorted(m.items(), key=repr))), expected='>= 0', got=lin_str(v), diff=lin_str(v), loc=ev[5]))
                    continue
                if ev[0] == 'vilinv-arg':
                    v = w.resolve(ev[4])
                    lb = lower_bound(v)
                    if lb is None or lb < 1:
                        bad.append(dict(kind='var_int_len_from_size-arg>=1', world=cond_str(tuple(sorted(m.items(), key=repr))), expected='>= 1', got=lin_str(v), diff=lin_str(v)))
                    continue
                if len(ev) >= 6 and ev[0] in ('nested', 'optprops', 'ackprops'):
                    arg = w.resolve(ev[4])
                    want = w.resolve(Lin.atom(ev[5]))
                    if arg != want:
                        bad.append(dict(kind='size-arg:' + ev[2], world=cond_str(tuple(sorted(m.items(), key=repr))), expected=lin_str(want), got=lin_str(arg), diff=lin_str(arg.sub(want))))
    return worlds, bad, notes, S, E


def flatten_events(evs):
    for ev in evs:
        if ev[0] == 'loop':
            for x in ev[4]:
                yield x
        else:
            yield ev


def eval_size_cond(w, t, c, SL):
    """Truth of a condition over the size argument given SIZE == SL: True / False / None (unknown).
    May record 'atom = 0' in the world when SIZE == 1 forces it (vil(A) + A == 1 iff A == 0)."""
    val = truth(c)
    if t[0] == 'eqc' and val is not None:
        a, b = t[1], t[2]
        if b == ('ARGSIZE',):
            a, b = b, a
        if a == ('ARGSIZE',) and b[0] == 'const':
            k = b[1]
            if SL.is_const():
                return (SL.c == k) == bool(val)
            lb = lower_bound(SL)
            if lb is not None and lb > k:
                return not bool(val)
            if k == 1 and SL.c == 0 and len(SL.t) == 2:
                # SIZE = vil(A) + A
                for at, co in SL.t.items():
                    if at[0] == 'vil' and co == 1:
                        L = thaw(at[1])
                        if SL.sub(Lin.atom(at)) == L and L.c == 0 and len(L.t) == 1 and list(L.t.values()) == [1]:
                            if val:
                                w.zero_atoms = set(w.zero_atoms) | {list(L.t)[0]}
                                return True
                            return True  # SIZE != 1: A > 0, nothing to substitute
            return None
    return None
