"""Enumeration of panic-capable sites in MIR bodies (shared by C02, C07, C09, C16)."""
from facts import *

PANIC_CALL = re.compile(
    r'^(core|std)::panicking::|^std::rt::(begin_panic|panic_fmt)|::unwrap_failed$|::expect_failed$|'
    r'^std::option::Option::<T>::(unwrap|expect)$|^std::result::Result::<T, E>::(unwrap|expect|unwrap_err|expect_err)$|'
    r'^core::slice::index::|^core::str::slice_error_fail|^std::process::abort$|^core::result::unwrap_failed$|^core::option::(unwrap_failed|expect_failed)$')
INDEX_CALL = re.compile(r'as std::ops::Index(Mut)?<.*>>::index(_mut)?$')
BORROW_CALL = re.compile(r'^std::cell::RefCell::<T>::(borrow|borrow_mut)$')


def macro_of(t):
    m = t.get('mac', '')
    for name in ('unreachable', 'unimplemented', 'todo', 'assert_eq', 'assert_ne', 'debug_assert', 'assert', 'panic'):
        if re.search(r'(^|>|::)%s$' % name, m) or re.search(r'(^|>|::)%s>' % name, m):
            return name
    return None


def sites(body):
    """Yields dict(kind, what, block, loc, key) for each panic-capable site of a body.
    kind: assert | panic-call | unwrap | index | borrow"""
    for bi in sorted(body.live):
        t = body.blocks[bi]['term']
        if t['k'] == 'assert':
            msg = t.get('msg')
            if msg in ('ResumedAfterReturn', 'ResumedAfterPanic', 'ResumedAfterDrop'):
                continue
            what = msg + (':' + t['op'] if msg == 'Overflow' else '')
            yield dict(kind='assert', what=what, block=bi, loc=body.loc(bi), term=t)
        elif t['k'] == 'call':
            d, r, c = callee_of(t)
            nm = r or d or ''
            if PANIC_CALL.search(nm) or (d and PANIC_CALL.search(d)):
                mac = macro_of(t)
                base = nm.split('::')[-1]
                if base in ('unwrap', 'expect', 'unwrap_err', 'expect_err'):
                    recv = apath(body, t['args'][0]) if t['args'] else None
                    yield dict(kind='unwrap', what='%s(%s)' % (base, short_ap(recv)), block=bi, loc=body.loc(bi), term=t, recv=recv)
                else:
                    yield dict(kind='panic-call', what=(mac or base) + '!', block=bi, loc=body.loc(bi), term=t, mac=mac)
            elif INDEX_CALL.search(nm) or (d and INDEX_CALL.search(d)):
                recv = apath(body, t['args'][0]) if t['args'] else None
                yield dict(kind='index', what='index(%s)' % short_ap(recv), block=bi, loc=body.loc(bi), term=t, recv=recv)
            elif BORROW_CALL.search(nm):
                recv = apath(body, t['args'][0]) if t['args'] else None
                yield dict(kind='borrow', what='%s(%s)' % (nm.split('::')[-1], short_ap(recv)), block=bi, loc=body.loc(bi), term=t, recv=recv)


def short_ap(ap):
    if not ap:
        return '?'
    out = []
    for x in ap:
        if x.startswith('call:'):
            nm = x[5:]
            nm = re.sub(r'<[^<>]*>', '', nm)
            nm = re.sub(r'<[^<>]*>', '', nm)
            out.append(nm.split('::')[-1] + '()')
        else:
            out.append(x)
    return '.'.join(out)


def borrows_across_yield(body):
    """RefCell guards (Ref/RefMut locals produced by borrow()/borrow_mut()) that may still be alive
    at a Yield: returns list of (borrow_block, yield_block, receiver path)."""
    out = []
    ys = set(body.yields())
    if not ys:
        return out
    for bi, t in body.calls_to(BORROW_CALL):
        if place_proj(t['dest']) or t.get('target') is None:
            continue
        hit = set()
        _guard_reach(body, t['dest']['l'], [t['target']], ys, hit, set())
        for y in sorted(hit):
            out.append((bi, y, apath(body, t['args'][0])))
    return out


def _guard_reach(body, l, starts, ys, hit, seen_locals):
    """Blocks reachable while guard local `l` is alive. A whole-local move transfers the guard."""
    if l in seen_locals:
        return
    seen_locals.add(l)
    seen = set()
    st = list(starts)
    while st:
        b = st.pop()
        if b in seen or b not in body.live:
            continue
        seen.add(b)
        blk = body.blocks[b]
        dead = False
        for s in blk['stmts']:
            if s['k'] == 'dead' and s['l'] == l:
                dead = True
                break
            if s['k'] == 'assign' and s['rv']['k'] == 'use' and 'mv' in s['rv']['op'] and s['rv']['op']['mv']['l'] == l and not place_proj(s['rv']['op']['mv']):
                # guard moved into another local (e.g. the argument temp of drop())
                if not place_proj(s['lhs']):
                    _guard_reach(body, s['lhs']['l'], [b], ys, hit, seen_locals)
                dead = True
                break
        if dead:
            continue
        tt = blk['term']
        if tt['k'] == 'drop' and tt['place']['l'] == l and not place_proj(tt['place']):
            continue
        if tt['k'] == 'call' and any('mv' in a and a['mv']['l'] == l and not place_proj(a['mv']) for a in tt['args']):
            continue
        if tt['k'] == 'yield':
            hit.add(b)
        for n in body.succ[b]:
            st.append(n)


def guard_blocks(body, l, starts, seen_locals=None, out=None):
    """Blocks whose terminator executes while the RefCell guard held in local `l` is alive (a whole-local move hands the
    guard on to the destination; passing it by value to a call ends it after that call)."""
    seen_locals = set() if seen_locals is None else seen_locals
    out = set() if out is None else out
    if l in seen_locals:
        return out
    seen_locals.add(l)
    seen = set()
    st = list(starts)
    while st:
        b = st.pop()
        if b in seen or b not in body.live:
            continue
        seen.add(b)
        blk = body.blocks[b]
        dead = False
        for s in blk['stmts']:
            if s['k'] == 'dead' and s['l'] == l:
                dead = True
                break
            if s['k'] == 'assign' and s['rv']['k'] == 'use' and 'mv' in s['rv']['op'] and s['rv']['op']['mv']['l'] == l and not place_proj(s['rv']['op']['mv']):
                if not place_proj(s['lhs']):
                    guard_blocks(body, s['lhs']['l'], [b], seen_locals, out)
                dead = True
                break
        if dead:
            continue
        tt = blk['term']
        if tt['k'] == 'drop' and tt['place']['l'] == l and not place_proj(tt['place']):
            continue
        out.add(b)
        if tt['k'] == 'call' and any('mv' in a and a['mv']['l'] == l and not place_proj(a['mv']) for a in tt['args']):
            # handed to the callee by value; a guard-typed result (Ref::map ..) carries it on
            if tt.get('target') is not None and not place_proj(tt['dest']) and re.search(r'cell::Ref(Mut)?<', body.local_ty(tt['dest']['l']) or ''):
                guard_blocks(body, tt['dest']['l'], [tt['target']], seen_locals, out)
            continue
        for n in body.succ[b]:
            st.append(n)
    return out
