"""C01 (structural part: the tables and schemas both directions of the codec are built from).
consts: packet type bytes, MQTT 5 property identifiers and every reason-code / return-code enum equal
the OASIS tables transcribed in spec/*.json (both directions: nothing missing, nothing extra).
first-byte: for every packet variant the byte the encoder writes is the spec's type+flags byte and the
decoder maps that byte back to the same variant; the PUBLISH first-byte expression and the decoder's
dup/qos/retain expressions are extracted and evaluated for all 12 flag combinations (round trip).
decode-schema: every property loop accepts exactly the identifiers the specification allows in that
packet, with the specified wire type and repeatability. encode-schema: every property the encoders emit
(helpers, hand written put_u8+value, User Properties, Reason String) has an identifier allowed in that
packet and a field of the specified wire type. id-field: the field an identifier is decoded into is the
field it is encoded from (decoder's struct literal vs encoder's emission), for every packet type.
wire-order: for 18 packet types the longest success path of the encoder and of the decoder are reduced to sequences of wire tokens (u8/u16/u32/str/bin/varint/PROPS/loops) with the struct field at each position, and must be equal (same types in the same order, same field where both sides name one) and equal to the layout transcribed from the specification (spec/mqtt_layouts.json). connect-flags: the CONNECT flag bits equal the specification, the encoder only accumulates bits into one flags value (never re-assigns it) and sets each bit for the field the decoder reads under that bit. layout-size: the symbolic size/emission equivalence of C09 (every encode writes exactly the fields its
size function counts) and frame exhaustion of C02 (decoders accept a frame only when all of its bytes
were read) are imported. Equality of concrete values after a round trip is not decided. decode-schema (continued): the arm of a property that may appear several times contains no refusal decided by how many values were already collected. decode-schema (continued): the decoders of DISCONNECT and of the PUBACK family read the reason code and the property block only on a has_remaining() edge with nothing consumed in between (the short forms of MQTT 5 stay decodable). decode-schema (continued): no arm of a property loop tests the slot of another property (decoding does not depend on property order). encode-schema (continued): no MQTT 5 packet encoder reports Ok without having written into the buffer.
"""
import os, json
from facts import *
from disp import agg_sites
import propschema, sizeflow
from sizeflow import SizeFlow, Unsupported, flatten_events, norm, path_str
from symex import SymEx, term_str_v

BASE = os.path.dirname(os.path.dirname(os.path.abspath(__file__)))

VARIANT_TO_SPEC = {
    'Connect': 'CONNECT', 'ConnectAck': 'CONNACK', 'PublishAck': 'PUBACK', 'PublishReceived': 'PUBREC', 'PublishRelease': 'PUBREL',
    'PublishComplete': 'PUBCOMP', 'Subscribe': 'SUBSCRIBE', 'SubscribeAck': 'SUBACK', 'Unsubscribe': 'UNSUBSCRIBE', 'UnsubscribeAck': 'UNSUBACK',
    'PingRequest': 'PINGREQ', 'PingResponse': 'PINGRESP', 'Disconnect': 'DISCONNECT', 'Auth': 'AUTH',
}
REASON_ENUMS = {
    'connack': 'v5::codec::packet::connack::ConnectAckReason', 'puback_pubrec': 'v5::codec::packet::pubacks::PublishAckReason',
    'pubrel_pubcomp': 'v5::codec::packet::pubacks::PublishAck2Reason', 'suback': 'v5::codec::packet::subscribe::SubscribeAckReason',
    'unsuback': 'v5::codec::packet::subscribe::UnsubscribeAckReason', 'disconnect': 'v5::codec::packet::disconnect::DisconnectReasonCode',
    'auth': 'v5::codec::packet::auth::AuthReasonCode',
}
# Table 2-6 of the specification lists these for the packet although the packet's own section omits them
TABLE_2_6_EXTRA = {'disconnect': {0x8C}}

WIRE_OF_TY = [
    (r'^bool$|^u8$|^types::QoS$', 'Byte'), (r'^u16$|^std::num::NonZero<u16>$', 'TwoByte'), (r'^u32$|^std::num::NonZero<u32>$', 'FourByte'),
    (r'^ntex_bytes::ByteString$', 'UTF8'), (r'^ntex_bytes::Bytes$', 'Binary'),
]
ENC_PACKET = [
    (r'connect::Connect as', 'CONNECT'), (r'connack::ConnectAck as', 'CONNACK'), (r'publish::PublishProperties as', 'PUBLISH'), (r'subscribe::Subscribe as', 'SUBSCRIBE'),
    (r'subscribe::Unsubscribe as', 'UNSUBSCRIBE'), (r'disconnect::Disconnect as', 'DISCONNECT'), (r'auth::Auth as', 'AUTH'),
    (r'pubacks::PublishAck as', 'ACKS'), (r'pubacks::PublishAck2 as', 'ACKS'), (r'subscribe::SubscribeAck as', 'ACKS'), (r'subscribe::UnsubscribeAck as', 'ACKS'),
]
DEC_STRUCT = {
    'CONNECT': ('v5::codec::packet::connect::Connect::decode', r'connect::Connect$'), 'CONNACK': ('v5::codec::packet::connack::ConnectAck::decode', r'connack::ConnectAck$'),
    'Will': ('v5::codec::packet::connect::decode_last_will', r'connect::LastWill$'), 'PUBLISH': ('v5::codec::packet::publish::parse_publish_properties', r'publish::PublishProperties$'),
    'SUBSCRIBE': ('v5::codec::packet::subscribe::Subscribe::decode', r'subscribe::Subscribe$'), 'UNSUBSCRIBE': ('v5::codec::packet::subscribe::Unsubscribe::decode', r'subscribe::Unsubscribe$'),
    'DISCONNECT': ('v5::codec::packet::disconnect::Disconnect::decode', r'disconnect::Disconnect$'), 'AUTH': ('v5::codec::packet::auth::Auth::decode', r'auth::Auth$'),
}


def wire_of(ty):
    ty = re.sub(r'^std::option::Option<(.*)>$', r'\1', ty or '')
    for pat, w in WIRE_OF_TY:
        if re.search(pat, ty):
            return w
    return None


def load(name):
    return json.load(open(os.path.join(BASE, 'spec', name)))


def spec_ids_for(spec, pk):
    out = {}
    for k, v in spec['properties'].items():
        pks = v['packets']
        if pk in pks or (pk == 'ACKS' and 'ACKS' in pks) or (pk == 'ACKS' and 'PUBACK' in pks):
            out[int(k)] = v
    return out


# ----------------------------------------------------------------------------- constants

def consts(F, R):
    s5, s3 = load('mqtt5_tables.json'), load('mqtt311_tables.json')
    got = {k.split('::')[-1]: v['v'] for k, v in F.consts.items() if k.startswith('types::packet_type::') and isinstance(v.get('v'), int)}
    for name, val in sorted(s5['packet_types'].items()):
        if name == 'PUBLISH':
            g = got.get('PUBLISH_START')
        else:
            g = got.get(name)
        R.ob('C01.consts', 'packet_type::%s' % name, g == val, 'constant is %s, the specification says 0x%02X' % (('0x%02X' % g) if g is not None else 'missing', val))
    R.floor('C01.consts', 'packet type constants', len(got), 15)
    pts = {k.split('::')[-1]: v['v'] for k, v in F.consts.items() if '::property_type::' in k and isinstance(v.get('v'), int)}
    spec_ids = {int(k) for k in s5['properties']}
    R.ob('C01.consts', 'property_type|identifiers==Table-2-4', set(pts.values()) == spec_ids and len(pts) == len(spec_ids),
         'missing %s, not in the specification %s' % (sorted(hex(x) for x in spec_ids - set(pts.values())), sorted(hex(x) for x in set(pts.values()) - spec_ids)))
    R.floor('C01.consts', 'property identifier constants', len(pts), 27)
    for key, adt in sorted(REASON_ENUMS.items()):
        a = F.adts.get(adt)
        if a is None:
            raise AnchorLost(adt)
        vals = {v.get('discr', i) for i, v in enumerate(a['variants'])}
        sp = {int(x) for x in s5['reason_codes'][key]}
        extra = vals - sp - TABLE_2_6_EXTRA.get(key, set())
        R.ob('C01.consts', '%s|reason-codes==specification' % adt.split('::')[-1], sp <= vals and not extra,
             'not representable: %s; not in the specification: %s' % (sorted(hex(x) for x in sp - vals), sorted(hex(x) for x in extra)))
    for adt, key in (('types::QoS', 'qos'), ('v5::codec::packet::subscribe::RetainHandling', 'retain_handling')):
        a = F.adts.get(adt)
        vals = {v.get('discr', i) for i, v in enumerate(a['variants'])} if a else set()
        R.ob('C01.consts', '%s|values' % adt.split('::')[-1], vals == {int(x) for x in s5[key]}, 'values %s' % sorted(vals))
    a = F.adts.get('v3::codec::packet::ConnectAckReason')
    vals = {v.get('discr', i) for i, v in enumerate(a['variants'])} if a else set()
    sp = {int(x) for x in s3['connect_return_codes']}
    R.ob('C01.consts', 'v3::ConnectAckReason|return-codes', sp <= vals, 'missing return codes %s' % sorted(sp - vals))
    # the conversions enum <-> u8 generated by prim_enum! are identity on the discriminant: From<Enum> for u8 is `as u8`
    n = 0
    for b in F.find(r'<impl std::convert::From<(types::QoS|v[35]::codec::packet::.*(Reason|ReasonCode|RetainHandling))> for u8>::from$'):
        n += 1
        casts = [s for bi, j, s in b.assigns() if s['rv']['k'] == 'cast']
        discr = [s for bi, j, s in b.assigns() if s['rv']['k'] == 'discr']
        calls = [t for _, t in b.calls()]
        tm = [t for t in calls if (callee_name(t) or '').endswith('intrinsics::transmute') and op_place(t['args'][0]) is not None]
        plain = (bool(discr) and not calls) or (len(calls) == 1 and len(tm) == 1 and 1 in {a for a, _ in leaves_args(Origin(b).of_operand(tm[0]['args'][0]))})
        R.ob('C01.consts', '%s|u8-conversion-is-the-discriminant' % re.search(r'From<([^>]*)>', b.path).group(1).split('::')[-1], plain and len(b.blocks) <= 3,
             'the conversion to u8 is not a plain discriminant cast', b.loc(0))
    R.floor('C01.consts', 'enum to u8 conversions', n, 8)


# ----------------------------------------------------------------------------- first byte

def eval_byte(t, env):
    """Evaluate an extracted u8 expression; env maps normalised field paths to ints."""
    k = t[0]
    if k == 'const':
        return t[1]
    if k == 'cast':
        return eval_byte(t[1], env)
    if k in ('ref', 'deref'):
        return eval_byte(t[1], env)
    if k == 'bin':
        a, b = eval_byte(t[2], env), eval_byte(t[3], env)
        if a is None or b is None:
            return None
        op = t[1].replace('WithOverflow', '')
        return {'BitOr': a | b, 'BitAnd': a & b, 'Shl': (a << b) & 0xFF, 'Shr': a >> b, 'Add': a + b, 'Eq': int(a == b), 'Ne': int(a != b), 'Sub': a - b}.get(op)
    if k == 'call':
        base = t[1].split('::')[-1]
        if base in ('from', 'into') and t[2]:
            return eval_byte(t[2][0], env)
        if base in ('try_from', 'try_into', 'branch') and t[2]:
            return eval_byte(t[2][0], env)
        if '__variant' in env and len(t[2]) == 1:
            # `self.packet_type()`: a function of the crate that maps the packet (whose variant is known on this path) to a
            # constant - evaluated on the paths of its body that agree with the variant
            F_, argi, d = env['__variant']
            a = t[2][0]
            while isinstance(a, tuple) and a and a[0] in ('ref', 'deref'):
                a = a[1]
            cb = F_.bodies.get(t[1])
            if a == ('arg', argi) and cb is not None and not cb.is_coroutine and len(cb.blocks) <= 120:
                vals = set()
                for p_ in SymEx(cb, F_, max_paths=400).run():
                    if p_.end[0] != 'return':
                        continue
                    ok = True
                    for tm, c in p_.conds:
                        x = tm
                        if x[0] == 'discr':
                            y = x[1]
                            while isinstance(y, tuple) and y and y[0] in ('ref', 'deref'):
                                y = y[1]
                            if y == ('arg', 1):
                                if (c[0] == 'eq' and c[1] != d) or (c[0] == 'ne' and d in c[1]):
                                    ok = False
                                continue
                        ok = ok and tm[0] == 'assert'
                        if tm[0] != 'assert':
                            vals.add(None)
                    if ok:
                        vals.add(p_.ret[1] if p_.ret and p_.ret[0] == 'const' else None)
                if len(vals) == 1:
                    return vals.pop()
        return None
    if k == 'field':
        if isinstance(t[1], tuple) and t[1] and t[1][0] == 'downcast':
            return eval_byte(t[1][1], env)
        return env.get(norm(t))
    if k == 'agg' and t[2] in ('Some', 'Ok') and '0' in t[3]:
        return eval_byte(t[3]['0'], env)
    if k == 'arg':
        return env.get(('arg', t[1]))
    if k == 'tuple':
        return eval_byte(t[1][0], env)
    return None


def first_byte(F, R, sf):
    s5 = load('mqtt5_tables.json')
    for ver, efn, adt, decfn in (('v5', '<v5::codec::packet::Packet as v5::codec::encode::EncodeLtd>::encode', 'v5::codec::packet::Packet', 'v5::codec::decode::decode_packet'),
                                 ('v3', 'v3::codec::encode::encode', 'v3::codec::packet::Packet', 'v3::codec::decode::decode_packet')):
        eb = F.bodies.get(efn)
        if eb is None:
            raise AnchorLost(efn)
        a = F.adts[adt]
        names = {v.get('discr', i): v['name'] for i, v in enumerate(a['variants'])}
        E = sf.emit_of_call(efn, [('arg', 1), ('arg', 2), ('ARGSIZE',)])
        enc = {}
        for c, l, evs in E:
            d = [cv[1] for t, cv in c.items() if t == ('discr', ('arg', 1)) and cv[0] == 'eq']
            evl = [e for e in flatten_events(evs) if e[0] in ('put', 'slice')]
            if not d or not evl:
                continue
            e0 = evl[0]
            val = None
            env0 = {'__variant': (F, 1, d[0])}
            if e0[0] == 'put':
                val = eval_byte(e0[3], env0)
            else:
                arr = e0[3]
                while arr[0] in ('ref', 'deref', 'cast'):
                    arr = arr[1]
                if arr[0] == 'array':
                    val = eval_byte(arr[1][0], env0)
            enc[names[d[0]]] = val
        # decoder: first byte -> variant
        db = F.bodies[decfn]
        sw = [sb for sb in sorted(db.live) if db.blocks[sb]['term']['k'] == 'switch' and len(db.blocks[sb]['term']['targets']) >= 10]
        if len(sw) != 1:
            raise AnchorLost('%s: switch on the first byte' % decfn)
        t = db.blocks[sw[0]]['term']
        targets = {tb for _, tb in t['targets']} | {t['otherwise']}
        dec = {}
        for v, tb in t['targets']:
            reg = db.reachable(tb, avoid=targets - {tb})
            vs = {s['rv']['variant'] for bi, j, s in agg_sites(db, '^' + re.escape(adt) + '$', None) if bi in reg}
            # v3: variants are built inside the helper the arm tail-calls
            for bi, ct in db.calls():
                if bi in reg:
                    for q in F.call_targets(ct):
                        qb = F.bodies.get(q)
                        if qb is not None and qb.file == db.file:
                            vs |= {s['rv']['variant'] for _, _, s in agg_sites(qb, '^' + re.escape(adt) + '$', None)}
                            for _, ct2 in qb.calls():
                                tg2 = list(F.call_targets(ct2))
                                c2 = op_const(ct2['func']) if ct2.get('func') else None
                                if c2 and (c2.get('fn') or '').endswith('Into::into') and len(c2.get('args') or []) == 2:
                                    tg2.append('<%s as std::convert::From<%s>>::from' % (c2['args'][1], c2['args'][0]))
                                for q2 in tg2:
                                    if re.search(r'^<%s as std::convert::From<' % re.escape(adt), q2) and q2 in F.bodies:
                                        vs |= {s['rv']['variant'] for _, _, s in agg_sites(F.bodies[q2], '^' + re.escape(adt) + '$', None)}
                            # closures passed to decode_ack build the variant
                    for aop in ct['args']:
                        pa = op_place(aop)
                        if pa is not None and 'closure' in (db.local_ty(pa['l']) or ''):
                            for cp, cb in F.bodies.items():
                                if cp.startswith(decfn + '::{closure') and cb.loc(0).split(':')[-1] == db.loc(bi).split(':')[-1]:
                                    vs |= {s['rv']['variant'] for _, _, s in agg_sites(cb, '^' + re.escape(adt) + '$', None)}
            dec[v] = vs
        n = 0
        for var in sorted(names.values()):
            specname = VARIANT_TO_SPEC.get(var)
            if specname is None:
                continue
            n += 1
            want = s5['packet_types'].get(specname) if ver == 'v5' else load('mqtt311_tables.json')['packet_types'].get(specname)
            R.ob('C01.first-byte', '%s|%s|encoder-writes-the-specified-type-and-flags' % (ver, var), enc.get(var) == want,
                 'encoder writes %s, the specification says 0x%02X' % (('0x%02X' % enc[var]) if enc.get(var) is not None else 'an unevaluable byte', want), eb.loc(0))
            back = dec.get(want, set())
            R.ob('C01.first-byte', '%s|%s|decoder-maps-the-byte-back' % (ver, var), var in back and len(back) == 1,
                 'first byte 0x%02X decodes to %s' % (want, sorted(back) or 'nothing'), db.loc(sw[0]))
        R.floor('C01.first-byte', '%s packet variants' % ver, n, 13)
    publish_flags(F, R, sf)


def publish_flags(F, R, sf):
    """PUBLISH: first byte = 0x30 | dup<<3 | qos<<1 | retain, and the decoder's expressions invert it."""
    for ver, efn, dfn, adt in (('v5', '<v5::codec::packet::publish::Publish as v5::codec::encode::EncodeLtd>::encode', 'v5::codec::packet::publish::Publish::decode', r'publish::Publish$'),
                               ('v3', 'v3::codec::encode::encode_publish', 'v3::codec::decode::decode_publish_packet', r'packet::Publish$')):
        eb, db = F.bodies.get(efn), F.bodies.get(dfn)
        if eb is None or db is None:
            raise AnchorLost('%s / %s' % (efn, dfn))
        E = sf.emit_of_call(efn, [('arg', 1), ('arg', 2), ('ARGSIZE',)])
        first = None
        for c, l, evs in E:
            evl = [e for e in flatten_events(evs) if e[0] == 'put']
            if evl:
                first = evl[0][3]
        # decoder expressions for dup / retain / qos from the struct literal
        ps = [p for p in SymEx(db, F, max_paths=4000).run() if p.end[0] == 'return' and p.ret and p.ret[0] == 'agg' and p.ret[2] == 'Ok']
        fields = None
        for p in ps:
            v = p.ret[3].get('0')
            if v and v[0] == 'agg' and re.search(adt, v[1]):
                fields = v[3]
        bad = []
        if first is None or fields is None:
            R.ob('C01.first-byte', '%s|PUBLISH|extractable' % ver, False, 'cannot extract the first-byte expression / the decoder struct literal', eb.loc(0))
            continue
        fb_arg = None
        for i in range(1, db.argc + 1):
            if db.local_ty(i) == 'u8':
                fb_arg = i
        for qos in (0, 1, 2):
            for dup in (0, 1):
                for retain in (0, 1):
                    env = {('field', ('arg', 1), 'qos'): qos, ('field', ('arg', 1), 'dup'): dup, ('field', ('arg', 1), 'retain'): retain}
                    byte = eval_byte(first, env)
                    want = 0x30 | (dup << 3) | (qos << 1) | retain
                    if byte != want:
                        bad.append('qos=%d dup=%d retain=%d: encoder writes %s, the specification says 0x%02X' % (qos, dup, retain, byte, want))
                        continue
                    denv = {('arg', fb_arg): byte}
                    got = (eval_byte(fields.get('qos'), denv), eval_byte(fields.get('dup'), denv), eval_byte(fields.get('retain'), denv))
                    if got != (qos, dup, retain):
                        bad.append('first byte 0x%02X decodes to qos/dup/retain %s, expected %s' % (byte, got, (qos, dup, retain)))
        R.ob('C01.first-byte', '%s|PUBLISH|flags-round-trip(12 combinations)' % ver, not bad, '; '.join(bad[:3]), eb.loc(0))


# ----------------------------------------------------------------------------- schemas

def decode_schema(F, R):
    spec = load('mqtt5_tables.json')
    loops = propschema.property_loops(F)
    R.floor('C01.decode-schema', 'property loops', len(loops), 9)
    tables = {}
    for b, sb, table, oth in loops:
        pk = propschema.packet_of(b.path)
        want = spec_ids_for(spec, pk)
        tables[pk] = (b, sb, table)
        # properties may come in any order: an arm never looks at the slot of another property ("data requires method" inside
        # the loop refuses the same packet when an independent encoder writes the two the other way round)
        t_sw = b.blocks[sb]['term']
        targets_ = {tb for _, tb in t_sw['targets']} | {t_sw['otherwise']}
        above_ = set(b.dom.get(sb, ())) - {sb}
        regs_, slots_ = {}, {}
        for v_, tb_ in t_sw['targets']:
            regs_[v_] = b.reachable(tb_, avoid=(targets_ - {tb_}) | above_)
            for bi_, ct_ in b.calls():
                if bi_ in regs_[v_] and ((callee_name(ct_) or '').endswith('Property>::read_value') or re.search(r'Vec::<T, A>::push$', callee_name(ct_) or '')):
                    l_ = root_local(b, ct_['args'][0])
                    if l_ is not None:
                        slots_.setdefault(v_, set()).add(l_)
        allslots_ = {l_: v_ for v_, ls_ in slots_.items() for l_ in ls_}
        foreign = []
        for v_, reg_ in regs_.items():
            for bi_, ct_ in b.calls():
                if bi_ in reg_ and re.search(r'Option::<T>::is_(some|none)$|Vec::<T, A>::(is_empty|len)$', callee_name(ct_) or '') and ct_['args']:
                    l_ = root_local(b, ct_['args'][0])
                    if l_ in allslots_ and allslots_[l_] != v_ and l_ not in slots_.get(v_, ()):
                        foreign.append((v_, allslots_[l_], bi_))
        R.ob('C01.decode-schema', '%s|arms-independent-of-property-order' % pk, not foreign,
             'the arm of identifier %s tests whether property %s was already read: the packet is decoded or refused depending on the order the peer wrote its properties in'
             % (hex(foreign[0][0]) if foreign else '', hex(foreign[0][1]) if foreign else ''), b.loc(foreign[0][2]) if foreign else b.loc(sb))
        R.ob('C01.decode-schema', '%s|accepted-identifiers==specification' % pk, set(table) == set(want),
             'legal but rejected: %s; accepted but not allowed in this packet: %s' % (sorted(hex(x) for x in set(want) - set(table)), sorted(hex(x) for x in set(table) - set(want))), b.loc(sb))
        for pid, info in sorted(table.items()):
            sp = want.get(pid) or spec['properties'].get(str(pid))
            if sp is None:
                continue
            R.ob('C01.decode-schema', '%s|0x%02X|wire-type' % (pk, pid), info['wire'] == sp['type'], 'decoded as %s (%s), the specification says %s' % (info['wire'], info.get('ty'), sp['type']), b.loc(sb))
            may_repeat = sp.get('repeat_in') == 'all' or pk in (sp.get('repeat_in') or [])
            if may_repeat:
                R.ob('C01.decode-schema', '%s|0x%02X|may-repeat' % (pk, pid), info['repeat'] or not info['once'], 'a property that may appear several times is decoded through the once-only path', b.loc(sb))
                R.ob('C01.decode-schema', '%s|0x%02X|second-occurrence-accepted' % (pk, pid), not info.get('counted_refusal'),
                     'the arm of a property that may appear several times refuses the packet depending on how many values it has already collected: what the encoder writes for a list of them is not decoded', b.loc(sb))
    return tables


def field_of_term(t):
    """Field path (relative to self) of an emitted value term, e.g. 'receive_max' or 'last_will.topic'."""
    n = norm(t)
    out = []
    while isinstance(n, tuple) and n:
        if n[0] == 'field':
            if not (isinstance(n[1], tuple) and n[1][0] == 'downcast' and (n[1][2] in ('Some', 'Ok', 'Continue') or str(n[2]).isdigit())):
                out.append(n[2])
            n = n[1]
        elif n[0] == 'downcast':
            n = n[1]
        elif n[0] == 'item':
            out.append('item')
            n = n[1]
        elif n[0] == 'call' and n[2]:
            n = n[2][0]
        else:
            break
    return '.'.join(reversed(out))


def struct_field_ty(F, adt_pat, field):
    for p, a in F.adts.items():
        if re.search(adt_pat, p) and a['kind'] == 'Struct':
            for f in a['variants'][0]['fields']:
                if f['name'] == field:
                    return f['ty']
    return None


def plain_field(f):
    return '.'.join(x for x in (f or '').split('.') if x != 'item')


def encode_props(F, sf, fn):
    """{id: set(field)} emitted by one encoder, with the kind of emission."""
    eb = F.bodies[fn]
    args = [('arg', i + 1) for i in range(eb.argc)]
    for i in range(1, eb.argc + 1):
        if eb.local_ty(i) == 'u32':
            args[i - 1] = ('ARGSIZE',)
    E = sf.emit_of_call(fn, args)
    out = {}
    for c, l, evs in E:
        evl = [e for e in flatten_events(evs) if e[0] not in ('sub', 'vilinv-arg')]
        in_props = False
        for k, ev in enumerate(evl):
            if ev[0] == 'varint' and ev[3] != ('ARGSIZE',):
                in_props = True
            if ev[0] in ('put', 'slice') and not in_props:
                continue
            if ev[0] == 'prop':
                pid = ev[4][1] if ev[4][0] == 'const' else None
                out.setdefault(pid, set()).add(plain_field(field_of_term(ev[3])))
            elif ev[0] in ('optprops', 'ackprops'):
                a = ev[5]
                out.setdefault(0x26, set()).add(plain_field(field_of_term(a[1])))
                out.setdefault(0x1F, set()).add(plain_field(field_of_term(a[2])))
            elif ev[0] == 'encode' and 'Vec' in str(ev[2]) + type_hint(ev):
                pass
            elif ev[0] == 'put' and ev[2] == 'put_u8' and ev[3] and ev[3][0] == 'const' and k + 1 < len(evl) and k > 0:
                nxt = evl[k + 1]
                if nxt[0] in ('encode', 'varint') and nxt[3] is not None:
                    out.setdefault(ev[3][1], set()).add(plain_field(field_of_term(nxt[3])))
            elif ev[0] == 'slice' and k > 0:
                arr = ev[3]
                while arr[0] in ('ref', 'deref', 'cast'):
                    arr = arr[1]
                if arr[0] == 'array' and len(arr[1]) == 2 and arr[1][0][0] == 'const':
                    out.setdefault(arr[1][0][1], set()).add(plain_field(field_of_term(arr[1][1])))
    return out, E


def type_hint(ev):
    return ''


def user_props_fields(F, sf, fn):
    """Fields emitted through <UserProperties as Encode>::encode (id 0x26 inside that impl)."""
    b = F.bodies[fn]
    out = set()
    for bi, t in b.calls():
        nm = callee_name(t) or ''
        if re.search(r'impl utils::Encode for std::vec::Vec<\(ntex_bytes::ByteString, ntex_bytes::ByteString\)>>::encode$', nm):
            ap = apath(b, t['args'][0])
            if ap:
                out.add('.'.join(x for x in ap[1:] if not x.startswith('call:') and not x.startswith('as ')))
    return out


def decode_fields(F, pk, table_entry):
    """{id: field} from the decoder: which struct field receives the local an identifier is decoded into."""
    fn, adt_pat = DEC_STRUCT[pk]
    b = F.bodies.get(fn)
    if b is None:
        raise AnchorLost(fn)
    db, sb, table = table_entry
    t = db.blocks[sb]['term']
    targets = {tb for _, tb in t['targets']} | {t['otherwise']}
    above = set(db.dom.get(sb, ())) - {sb}
    local_of = {}
    for v, tb in t['targets']:
        reg = db.reachable(tb, avoid=(targets - {tb}) | above)
        for bi, ct in db.calls():
            if bi not in reg:
                continue
            nm = callee_name(ct) or ''
            if nm.endswith('Property>::read_value') or re.search(r'Vec::<T, A>::push$', nm):
                l = root_local(db, ct['args'][0])
                if l is not None:
                    local_of.setdefault(v, set()).add(l)
        # direct assignment idiom: `x = Some(..)` guarded by is_none (possibly through a temporary)
        for bi, j, s in db.assigns():
            if bi not in reg:
                continue
            tl = s['lhs']['l'] if not place_proj(s['lhs']) else None
            if place_proj(s['lhs']) == ['*']:
                tl = root_local(db, {'cp': {'l': s['lhs']['l'], 'p': []}})  # `*slot = Some(..)` in a (spliced) helper handed `&mut local`
            elif place_proj(s['lhs']):
                q_ = norm_place(db, s['lhs'])   # `*env.k = Some(..)` in a (spliced) closure that captured the local
                tl = q_['l'] if not place_proj(q_) else None
            if tl is not None and db.local_name(tl) and 'Option<' in (db.local_ty(tl) or ''):
                if s['rv']['k'] == 'agg' and s['rv'].get('variant') == 'Some':
                    local_of.setdefault(v, set()).add(tl)
                elif s['rv']['k'] == 'use' and op_place(s['rv']['op']) is not None:
                    src_l = op_place(s['rv']['op'])['l']
                    if any(d[2] == 'assign' and d[3]['rv']['k'] == 'agg' and d[3]['rv'].get('variant') == 'Some' for d in db.whole_defs(src_l)):
                        local_of.setdefault(v, set()).add(tl)
    # struct literal
    fields = {}
    lits = [(bi, s) for bi, j, s in agg_sites(b, adt_pat, None)]
    if not lits:
        raise AnchorLost('%s: struct literal' % fn)
    for bi, s in lits:
        for name, op in zip(s['rv']['names'], s['rv']['fields']):
            fields.setdefault(name, set()).update(root_locals_through_calls(b, op))
    out = {}
    for pid, ls in local_of.items():
        for name, fl in fields.items():
            if ls & fl:
                out.setdefault(pid, set()).add(name)
    return out


def root_local(b, op, depth=0):
    """Local whose address is passed (through reborrows)."""
    p = op_place(op)
    while p is not None and depth < 10:
        depth += 1
        if place_proj(p) and place_proj(p) != ['*']:
            q_ = norm_place(b, p)   # `(*env.0)` of a (spliced) closure is the local the closure captured
            if q_ != p and not place_proj(q_):
                return q_['l']
            return None
        ds = [d for d in b.whole_defs(p['l']) if d[0] in b.live]
        if len(ds) == 1 and ds[0][2] == 'assign' and ds[0][3]['rv']['k'] in ('ref', 'rawptr'):
            q = ds[0][3]['rv']['place']
            if not place_proj(q):
                return q['l']
            if place_proj(q) == ['*']:
                p = {'l': q['l'], 'p': []}
                continue
            q_ = norm_place(b, q)   # `&mut *(*env).0` of a (spliced) closure: the local the closure captured
            if not place_proj(q_):
                return q_['l']
            return None
        if len(ds) == 1 and ds[0][2] == 'assign' and ds[0][3]['rv']['k'] == 'use':
            p = op_place(ds[0][3]['rv']['op'])
            continue
        return p['l'] if not place_proj(p) else None
    return None


def root_locals_through_calls(b, op, depth=0, seen=None):
    """Named locals a struct field value comes from (through moves and value-preserving calls like unwrap_or)."""
    seen = seen if seen is not None else set()
    p = op_place(op)
    if p is None or depth > 10:
        return set()
    l = p['l']
    if l in seen:
        return set()
    seen.add(l)
    out = set()
    if b.local_name(l) or depth > 0:
        out.add(l)  # (intermediate values count too: `flag.then(..).transpose()?` has no named local for the Option)
    for d in b.whole_defs(l):
        if d[0] not in b.live:
            continue
        if d[2] == 'assign':
            rv = d[3]['rv']
            if rv['k'] in ('use', 'cast'):
                out |= root_locals_through_calls(b, rv['op'], depth + 1, seen)
            elif rv['k'] == 'agg' and rv.get('variant') in ('Ok', 'Some') and len(rv.get('fields') or []) == 1 and op_place(rv['fields'][0]) is not None:
                # `Ok(Some(v))` handed back by a (spliced) helper and unwrapped again by `?`
                out |= root_locals_through_calls(b, rv['fields'][0], depth + 1, seen)
        elif d[2] == 'call':
            nm = callee_name(d[3]) or ''
            if re.search(r'::(unwrap_or|unwrap_or_default|unwrap_or_else|take|map|into|from|clone|transpose|branch|ok|flatten)$', nm) and d[3]['args']:
                out |= root_locals_through_calls(b, d[3]['args'][0], depth + 1, seen)
    return out


def encode_schema(F, R, sf, tables):
    spec = load('mqtt5_tables.json')
    n = 0
    enc_by_pk = {}
    for fn in sorted(F.bodies):
        if not re.search(r'EncodeLtd>::encode$', fn):
            continue
        pk = None
        for pat, name in ENC_PACKET:
            if re.search(pat, fn):
                pk = name
        if pk is None:
            continue
        n += 1
        try:
            props, E = encode_props(F, sf, fn)
        except Unsupported as ex:
            R.ob('C01.encode-schema', '%s|evaluable' % c09name(fn), False, str(ex)[:200])
            continue
        for f in user_props_fields(F, sf, fn):
            props.setdefault(0x26, set()).add(f)
        want = spec_ids_for(spec, pk)
        name = c09name(fn)
        if pk == 'CONNECT':
            # the will's properties are written by the same function: they are checked against the Will table below
            will_only = {pid for pid, fs in props.items() if fs and all(f.startswith('last_will.') for f in fs)}
            enc_by_pk.setdefault(pk, {})
            for pid in will_only:
                enc_by_pk[pk].setdefault(pid, set()).update(props[pid])
            props = {pid: fs for pid, fs in props.items() if pid not in will_only}
        extra = {p for p in props if p not in want and p is not None}
        R.ob('C01.encode-schema', '%s|emitted-identifiers-allowed-in-%s' % (name, pk), not extra and None not in props,
             'emits property identifiers the specification does not allow in this packet: %s' % sorted(hex(x) for x in extra), F.bodies[fn].loc(0))
        missing = set(want) - set(props)
        R.ob('C01.encode-schema', '%s|every-%s-property-can-be-emitted' % (name, pk), not missing,
             'no emission for %s: values of these properties cannot be sent' % sorted(hex(x) for x in missing), F.bodies[fn].loc(0))
        adt_pat = re.sub(r' as$', '$', [p for p, nme in ENC_PACKET if re.search(p, fn)][0])
        for pid, fs in sorted(props.items()):
            if pid not in want:
                continue
            for f in fs:
                base_adt = adt_pat
                fld = f
                if f.startswith('last_will.'):
                    continue
                ty = struct_field_ty(F, adt_pat, fld.split('.')[-1]) if fld else None
                w = wire_of(ty) if ty else None
                sptype = want[pid]['type']
                ok = (w == sptype) or (sptype == 'StringPair' and ty and 'Vec<(ntex_bytes::ByteString, ntex_bytes::ByteString)>' in ty) or (sptype == 'VarInt' and ty and re.search(r'NonZero<u32>', ty))
                R.ob('C01.encode-schema', '%s|0x%02X<-%s|wire-type' % (name, pid, fld), ok, 'field type %s is written for a property of type %s' % (ty, sptype), F.bodies[fn].loc(0))
        enc_by_pk.setdefault(pk, {})
        for pid, fs in props.items():
            enc_by_pk[pk].setdefault(pid, set()).update(fs)
    R.floor('C01.encode-schema', 'limited encoders with properties', n, 11)
    # will properties live inside Connect::encode
    cw = {pid: {f[len('last_will.'):] for f in fs if f.startswith('last_will.')} for pid, fs in enc_by_pk.get('CONNECT', {}).items()}
    cw = {k: v for k, v in cw.items() if v}
    if cw:
        enc_by_pk['Will'] = cw
        for pid in list(enc_by_pk['CONNECT']):
            enc_by_pk['CONNECT'][pid] = {f for f in enc_by_pk['CONNECT'][pid] if not f.startswith('last_will.')}
            if not enc_by_pk['CONNECT'][pid]:
                del enc_by_pk['CONNECT'][pid]
        want = spec_ids_for(spec, 'Will')
        R.ob('C01.encode-schema', 'Connect::encode|will-properties==specification', set(cw) == set(want),
             'will properties emitted %s, specification %s' % (sorted(hex(x) for x in cw), sorted(hex(x) for x in want)))
    # id <-> field agreement with the decoders
    m = 0
    for pk in sorted(DEC_STRUCT):
        if pk not in tables or pk not in enc_by_pk:
            R.ob('C01.id-field', '%s|both-directions-found' % pk, False, 'decoder table %s, encoder table %s' % (pk in tables, pk in enc_by_pk))
            continue
        dec = decode_fields(F, pk, tables[pk])
        enc = enc_by_pk[pk]
        for pid in sorted(set(dec) | set(enc)):
            m += 1
            df = dec.get(pid, set())
            ef = {f.split('.')[-1] for f in enc.get(pid, set())}
            R.ob('C01.id-field', '%s|0x%02X|decoded-into==encoded-from' % (pk, pid), df == ef and len(df) == 1,
                 'identifier 0x%02X is decoded into %s but encoded from %s' % (pid, sorted(df) or 'nothing', sorted(ef) or 'nothing'))
    R.floor('C01.id-field', 'identifier/field pairs', m, 50)
    R.table('encode_properties', {pk: {hex(k): sorted(v) for k, v in d.items() if k is not None} for pk, d in enc_by_pk.items()})


def c09name(fn):
    import c09
    return c09.short_fn(fn)


def opt_props_ids(F, R):
    """The two shared helpers write the identifiers they are accounted for: USER for every item of the first
    argument, REASON_STRING for the second; UserProperties::encode writes USER."""
    b = F.bodies.get('v5::codec::encode::encode_opt_props')
    if b is None:
        raise AnchorLost('encode_opt_props')
    puts = []
    for bi, t in b.calls():
        if (callee_name(t) or '').endswith('put_u8'):
            puts.append((bi, const_val(t['args'][1])))
    nexts = [bi for bi, t in b.calls() if (callee_name(t) or '').endswith('::next')]
    loop = {x for x in b.reachable(nexts[0]) if nexts[0] in b.reachable(x)} if nexts else set()
    in_loop = sorted(v for bi, v in puts if bi in loop)
    after = sorted(v for bi, v in puts if bi not in loop)
    R.ob('C01.encode-schema', 'encode_opt_props|identifiers', in_loop == [0x26] and after == [0x1F], 'user-property loop writes %s, reason string part writes %s' % (in_loop, after), b.loc(0))
    ub = F.one(r'impl utils::Encode for std::vec::Vec<\(ntex_bytes::ByteString, ntex_bytes::ByteString\)>>::encode$')
    ids = sorted(const_val(t['args'][1]) for bi, t, cl in F.sites_in_family(ub, r'put_u8$'))   # (the loop body may be a closure: `iter().try_for_each(|p| ..)`)
    R.ob('C01.encode-schema', 'UserProperties::encode|identifier', ids == [0x26], 'writes %s' % ids, ub.loc(0))
    ab = F.bodies.get('v5::codec::packet::ack_props::encode')
    calls = [callee_name(t) or '' for _, t in ab.calls()]
    R.ob('C01.encode-schema', 'ack_props::encode|delegates-to-encode_opt_props', any(c.endswith('encode_opt_props') for c in calls), 'calls %s' % [c.split('::')[-1] for c in calls], ab.loc(0))


def imported(F, R):
    import c09, exhaust, runner
    rep = runner.Report('C09', 'quick')
    sf = SizeFlow(F)
    c09.size_terms(F, rep, sf)
    c09.frame_header(F, rep, sf)
    rep2 = runner.Report('C09', 'quick')
    c09.varint_len(F, rep2)
    bad2 = [i for i in rep2.items if not i['ok']]
    R.ob('C01.layout-size', 'length-prefixes-are-variable-byte-integers-of-the-right-size (C09.varint-len, %d instances)' % len(rep2.items), not bad2 and len(rep2.items) >= 4,
         '; '.join('%s: %s' % (i['key'], i['msg'][:160]) for i in bad2[:3]))
    bad = [i for i in rep.items if not i['ok'] and i['rule'] in ('C09.size-terms', 'C09.frame-header')]
    R.ob('C01.layout-size', 'every-encoder-writes-exactly-the-fields-its-size-counts (C09.size-terms, %d instances)' % len(rep.items), not bad,
         '; '.join('%s: %s' % (i['key'], i['msg'][:160]) for i in bad[:3]))
    n = 0
    badarms = []
    for ver, specf in (('v5', 'mqtt5_tables.json'), ('v3', 'mqtt311_tables.json')):
        names = {v: k for k, v in load(specf)['packet_types'].items()}
        for name, ok, loc, oks in exhaust.per_arm(F, ver, names):
            n += 1
            if not ok:
                badarms.append('%s %s @ %s' % (ver, name, loc))
    R.ob('C01.layout-size', 'decoders-consume-exactly-the-frame (C02.frame-exhausted, %d arms)' % n, not badarms and n >= 27, 'accepted with bytes left over: %s' % badarms[:4])


def no_silent_encode(F, R):
    """A packet body is never "encoded" by writing nothing: every Ok exit of the MQTT 5 packet encoders (`EncodeLtd::encode` of
    the packet structs) lies behind at least one write into the buffer. (A short form that drops the whole body when a
    computed size is 0 loses whatever that size did not account for.)"""
    n = 0
    for fn in sorted(F.bodies):
        if not re.search(r'EncodeLtd>::encode$', fn) or not any(re.search(pat, fn) for pat, name in ENC_PACKET if name != 'PUBLISH'):
            continue
        b = F.bodies[fn]
        n += 1
        writes = {bi for bi, t in b.calls() if any(any(l[0] == 'arg' and l[1] == 2 for l in Origin(b).of_operand(a)) for a in t.get('args') or [] if op_place(a) is not None)}
        oks = [bi for bi, j, s in agg_sites(b, r'^std::result::Result$', 'Ok') if s['lhs']['l'] in b.ret_locals]
        bad = [o for o in oks if not b.must_pass(writes, o)]
        R.ob('C01.encode-schema', '%s|no-Ok-without-writing' % c09name(fn), not bad,
             'the encoder can report success without having written anything of the packet body: fields that are set are silently left out', b.loc(bad[0]) if bad else b.loc(0))
    R.floor('C01.encode-schema', 'packet encoders checked for silent success', n, 9)


def optional_tails(F, R):
    """MQTT 5 lets DISCONNECT and the four publish acknowledgements end early: after the packet id (Remaining Length 2), or
    after the reason code (no Property Length). The decoders therefore read the reason code, and later the property block,
    only on the `has_remaining()` edge, with nothing consumed in between; a decoder that reads the property length
    unconditionally refuses the short forms a correct peer may send."""
    CONSUME = r'::(get_u8|get_u16|get_u32|split_to|advance|take_properties|read_properties|decode|read_value|decode_variable_length_cursor)$'
    n = 0
    for pat, name in ((r'^v5::codec::packet::disconnect::Disconnect::decode$', 'Disconnect::decode'),
                      (r'^v5::codec::packet::pubacks::PublishAck::decode$', 'PublishAck::decode'),
                      (r'^v5::codec::packet::pubacks::PublishAck2::decode$', 'PublishAck2::decode')):
        b = F.one(pat)
        guards = nonempty_edges(b, lambda t_: (apath(b, t_['args'][0]) or ('',)) == ('arg1',))
        cons = [(bi, t) for bi, t in b.calls_to(CONSUME) if t['args'] and (apath(b, t['args'][0]) or ('',)) == ('arg1',)]
        cons_blocks = {bi for bi, t in cons}
        def guarded(site):
            for sb, tt in guards:
                if not edge_dominates(b, sb, tt, site):
                    continue
                between = {c for c in cons_blocks if c != site and c in b.reachable(tt, avoid=[site]) and site in b.reachable_after(c)}
                if not between:
                    return True
            return False
        props = [bi for bi, t in cons if re.search(r'::(take_properties|read_properties)$|ack_props::decode$', callee_name(t) or '')]
        codes = [bi for bi, t in cons if (callee_name(t) or '').endswith('::get_u8')]
        if name == 'Disconnect::decode':
            first = codes[:]
        else:
            # the packet id comes first (always present); the reason code is the get_u8 that follows
            first = codes[:]
        n += len(props)
        R.ob('C01.decode-schema', '%s|property-block-read-only-when-bytes-remain' % name, bool(props) and all(guarded(x) for x in props),
             'the property length is read without a preceding has_remaining() test (nothing consumed in between): the short form without properties is refused as malformed', b.loc(props[0]) if props else b.loc(0))
        R.ob('C01.decode-schema', '%s|reason-code-read-only-when-bytes-remain' % name, bool(first) and all(guarded(x) for x in first),
             'the reason code is read without a preceding has_remaining() test: the shortest form of the packet is refused', b.loc(first[0]) if first else b.loc(0))
    R.floor('C01.decode-schema', 'optional property blocks of DISCONNECT / PUBACK-family decoders', n, 3)


def run(F, R):
    sf = SizeFlow(F)
    consts(F, R)
    first_byte(F, R, sf)
    tables = decode_schema(F, R)
    opt_props_ids(F, R)
    optional_tails(F, R)
    no_silent_encode(F, R)
    encode_schema(F, R, sf, tables)
    wire_order(F, R, sf)
    connect_flags(F, R)
    imported(F, R)
    R.assume('spec/*.json are faithful transcriptions of the OASIS tables (hand-checked twice; the only library value outside the per-packet tables is DISCONNECT 0x8C, listed in Table 2-6)')


# ----------------------------------------------------------------------------- wire order (encoder vs decoder)

TOK_OF_TY = [
    (r'^bool$|^u8$|SubscriptionOptions$|QoS$', ['u8']), (r'^u16$|^std::num::NonZero<u16>$', ['u16']), (r'^u32$|^std::num::NonZero<u32>$', ['u32']),
    (r'^ntex_bytes::ByteString$', ['str']), (r'^ntex_bytes::Bytes$', ['bin']), (r'^&\[u8\]$|^&\'?\w* ?\[u8\]$', ['str']),
    (r'^\(ntex_bytes::ByteString, ntex_bytes::ByteString\)$', ['str', 'str']),
]
PROP_IDS = None


def toks_of_ty(ty):
    ty = re.sub(r'^std::option::Option<(.*)>$', r'\1', ty or '')
    for pat, tk in TOK_OF_TY:
        if re.search(pat, ty):
            return list(tk)
    return None


def encode_tokens(F, sf, fn, variant=None):
    """Longest success path of an emitter as [(token, field)], properties collapsed to 'PROPS'.
    variant = discriminant of the first argument to restrict to one arm of a packet enum."""
    global PROP_IDS
    if PROP_IDS is None:
        PROP_IDS = {int(k) for k in load('mqtt5_tables.json')['properties']}
    eb = F.bodies[fn]
    args = [('arg', i + 1) for i in range(eb.argc)]
    for i in range(1, eb.argc + 1):
        if eb.local_ty(i) == 'u32':
            args[i - 1] = ('ARGSIZE',)
    best = None
    for c, l, evs in sf.emit_of_call(fn, args):
        if variant is not None and c.get(('discr', ('arg', 1))) != ('eq', variant):
            continue
        seq = events_to_tokens(F, sf, [e for e in evs if e[0] not in ('sub', 'vilinv-arg')])
        if best is None or len(seq) > len(best):
            best = seq
    return best or []


def events_to_tokens(F, sf, evl):
    out = []
    in_props = False
    k = 0
    while k < len(evl):
        ev = evl[k]
        kind = ev[0]
        if kind == 'loop':
            inner = events_to_tokens(F, sf, [e for e in ev[4] if e[0] not in ('sub', 'vilinv-arg')])
            # the one-iteration path contains the events before and after the loop as well: keep the ones about the item
            item = [t for t in inner if t[1] and 'item' in t[1].split('.')]
            if in_props and all(t[0] in ('u8', 'varint', 'str') for t in item) and item and item[0][0] == 'u8' and False:
                pass
            out.append(('(', None))
            out.extend(item if item else [])
            out.append(')*', ) if False else out.append((')*', None))
            k += 1
            continue
        if kind == 'varint':
            if ev[3] == ('ARGSIZE',):
                out.append(('remaining-length', None))
            else:
                f = field_of_term(ev[3]) if isinstance(ev[3], tuple) else ''
                if in_props and out and out[-1][0] == 'PROPS':
                    pass  # value of a hand-written varint property
                elif f:
                    out.append(('varint', f))
                else:
                    out.append(('PROPS', None))
                    in_props = True
            k += 1
            continue
        if kind in ('prop', 'optprops', 'ackprops'):
            if not (out and out[-1][0] == 'PROPS'):
                out.append(('PROPS', None))
            in_props = True
            k += 1
            continue
        if kind == 'put':
            v = ev[3]
            if in_props and v and v[0] == 'const' and v[1] in PROP_IDS and k + 1 < len(evl) and evl[k + 1][0] in ('encode', 'varint'):
                k += 2  # identifier + value of a hand-written property
                continue
            out.append(({'put_u8': 'u8', 'put_u16': 'u16', 'put_u32': 'u32'}.get(ev[2], 'u8'), field_of_term(v) if isinstance(v, tuple) else None))
            in_props = False
            k += 1
            continue
        if kind == 'slice':
            arr = ev[3]
            while isinstance(arr, tuple) and arr and arr[0] in ('ref', 'deref', 'cast'):
                arr = arr[1]
            if isinstance(arr, tuple) and arr and arr[0] == 'array':
                if in_props and len(arr[1]) == 2 and arr[1][0][0] == 'const' and arr[1][0][1] in PROP_IDS:
                    k += 1
                    continue
                for x in arr[1]:
                    out.append(('u8', field_of_term(x) if isinstance(x, tuple) else None))
            else:
                out.append(('bytes', field_of_term(ev[3])))
            in_props = False
            k += 1
            continue
        if kind == 'encode':
            ty = ev[4] if len(ev) > 4 else None
            if ty and 'Vec<(ntex_bytes::ByteString, ntex_bytes::ByteString)>' in ty:
                if not (out and out[-1][0] == 'PROPS'):
                    out.append(('PROPS', None))
                in_props = True
                k += 1
                continue
            tk = toks_of_ty(ty) or ['?%s' % ty]
            f = field_of_term(ev[3])
            for x in tk:
                out.append((x, f))
            in_props = False
            k += 1
            continue
        if kind == 'nested':
            out.append(('nested', field_of_term(ev[3])))
            in_props = False
            k += 1
            continue
        if kind == 'inline':
            out.append(('inline', None))
            k += 1
            continue
        if kind == 'append':
            out.append(('bytes', field_of_term(ev[3])))
            k += 1
            continue
        k += 1
    return out


DEC_TOK = [
    (r'::get_u8$', ['u8']), (r'::get_u16$', ['u16']), (r'::get_u32$', ['u32']),
    (r'^<u16 as utils::Decode>::decode$|^<std::num::NonZero<u16> as utils::Decode>::decode$', ['u16']),
    (r'^<u32 as utils::Decode>::decode$|^<std::num::NonZero<u32> as utils::Decode>::decode$', ['u32']),
    (r'^<bool as utils::Decode>::decode$|^<u8 as utils::Decode>::decode$|SubscriptionOptions as utils::Decode>::decode$', ['u8']),
    (r'^<ntex_bytes::ByteString as utils::Decode>::decode$', ['str']), (r'^<ntex_bytes::Bytes as utils::Decode>::decode$', ['bin']),
    (r'utils::take_properties$|ack_props::decode$', ['PROPS']), (r'decode_variable_length_cursor$', ['varint']),
    (r'UserProperty as utils::Decode>::decode$|\(ntex_bytes::ByteString, ntex_bytes::ByteString\) as utils::Decode>::decode$', ['str', 'str']),
]


def decode_tokens(F, fn, adt_pat, depth=0):
    """Longest Ok path of a packet decoder as [(token, field)]; only reads on the frame buffer parameter count."""
    b = F.bodies.get(fn)
    if b is None:
        raise AnchorLost(fn)
    bufs = [i for i in range(1, b.argc + 1) if re.match(r'^(&mut )?ntex_bytes::Bytes$', b.local_ty(i) or '')]
    if not bufs:
        return []
    buf = bufs[0]
    # struct fields <- decode call blocks
    tr = re.compile(TRANSPARENT_CALLS.pattern[:-2] + r'|branch|try_into|try_from|ok_or|map|from_bits|contains|bits|is_some|new|then|then_some|unwrap_or_else)$')
    field_of_block = {}
    for bi, j, s in agg_sites(b, adt_pat, None):
        for name, op in zip(s['rv'].get('names') or [], s['rv']['fields']):
            for l in Origin(b, transparent=tr).of_operand(op):
                if l[0] == 'call':
                    field_of_block.setdefault(l[2], set()).add(name)
    se = SymEx(b, F, max_paths=30000, loop_visits=1)
    best = None
    for p in se.run():
        if p.end[0] != 'return' or not (p.ret and p.ret[0] == 'agg' and p.ret[2] == 'Ok') and not (p.ret and p.ret[0] == 'call'):
            continue
        seq = []
        seen_blocks = set()
        loop_open = False
        for nm, a, bi in p.calls:
            base_bi = bi[0] if isinstance(bi, tuple) else bi
            if not a:
                continue
            first = a[0]
            while isinstance(first, tuple) and first and first[0] in ('ref', 'deref'):
                first = first[1]
            if (nm.endswith('::next') or re.search(r'::(collect|sum|count|for_each|fold|last)$', nm)) and base_bi not in seen_blocks:
                # `for x in src.as_ref()` / `src.iter().map(..).collect()`: one byte per item
                it = first
                hops = 0
                while isinstance(it, tuple) and it and hops < 12:
                    hops += 1
                    if it[0] in ('ref', 'deref'):
                        it = it[1]
                    elif it[0] == 'call' and re.search(r'(^|::)(as_ref|deref|iter|into_iter|copied|cloned|borrow|as_slice|map|enumerate|inspect|by_ref)$', it[1]) and it[2]:
                        it = it[2][0]
                    else:
                        break
                if it == ('arg', buf):
                    seen_blocks.add(base_bi)
                    seq.append(('u8', None, True))
                continue
            if first != ('arg', buf):
                continue
            if base_bi in seen_blocks:
                continue  # second iteration of a loop
            toks = None
            for pat, tk in DEC_TOK:
                if re.search(pat, nm):
                    toks = tk
            if toks is None and nm in F.bodies and depth < 3 and F.bodies[nm].file.startswith('src/') and '/codec/' in F.bodies[nm].file:
                sub = decode_tokens(F, nm, r'.', depth + 1)
                toks = None
                for t_, f_ in sub:
                    seq.append((t_, f_))
                seen_blocks.add(base_bi)
                continue
            if toks is None:
                if re.search(r'::(advance|split_to)$', nm):
                    toks = ['skip']
                else:
                    continue
            seen_blocks.add(base_bi)
            fs = field_of_block.get(base_bi, set())
            in_loop = base_bi in b.reachable_after(base_bi)
            for t_ in toks:
                seq.append((('%s' % t_), (sorted(fs)[0] if len(fs) == 1 else None), in_loop))
        norm_seq = []
        for x in seq:
            if len(x) == 3:
                t_, f_, lp = x
            else:
                t_, f_ = x
                lp = False
            norm_seq.append((t_, f_, lp))
        if best is None or len(norm_seq) > len(best):
            best = norm_seq
    if se.truncated and best is None:
        raise AnchorLost('%s: path enumeration truncated' % fn)
    # collapse loops into ( .. )*
    out = []
    for t_, f_, lp in best or []:
        if lp and not (out and out[-1][0] == ')*' ):
            if not any(x[0] == '(' and x[2] for x in out[-1:]):
                pass
        out.append((t_, f_, lp))
    res = []
    k = 0
    while k < len(out):
        t_, f_, lp = out[k]
        if lp:
            res.append(('(', None))
            while k < len(out) and out[k][2]:
                res.append((out[k][0], out[k][1]))
                k += 1
            res.append((')*', None))
            continue
        res.append((t_, f_))
        k += 1
    # protocol name: u16 + skip(4) == str
    res2 = []
    for x in res:
        if x[0] == 'skip' and res2 and res2[-1][0] == 'u16':
            res2[-1] = ('str', None)
        elif x[0] == 'skip':
            continue
        else:
            res2.append(x)
    return res2


WIRE_PAIRS = [
    ('v5 CONNECT', '<v5::codec::packet::connect::Connect as v5::codec::encode::EncodeLtd>::encode', 'v5::codec::packet::connect::Connect::decode', r'connect::Connect$|connect::LastWill$'),
    ('v5 CONNACK', '<v5::codec::packet::connack::ConnectAck as v5::codec::encode::EncodeLtd>::encode', 'v5::codec::packet::connack::ConnectAck::decode', r'connack::ConnectAck$'),
    ('v5 PUBACK', '<v5::codec::packet::pubacks::PublishAck as v5::codec::encode::EncodeLtd>::encode', 'v5::codec::packet::pubacks::PublishAck::decode', r'pubacks::PublishAck$'),
    ('v5 PUBREL', '<v5::codec::packet::pubacks::PublishAck2 as v5::codec::encode::EncodeLtd>::encode', 'v5::codec::packet::pubacks::PublishAck2::decode', r'pubacks::PublishAck2$'),
    ('v5 SUBSCRIBE', '<v5::codec::packet::subscribe::Subscribe as v5::codec::encode::EncodeLtd>::encode', 'v5::codec::packet::subscribe::Subscribe::decode', r'subscribe::Subscribe$'),
    ('v5 SUBACK', '<v5::codec::packet::subscribe::SubscribeAck as v5::codec::encode::EncodeLtd>::encode', 'v5::codec::packet::subscribe::SubscribeAck::decode', r'subscribe::SubscribeAck$'),
    ('v5 UNSUBSCRIBE', '<v5::codec::packet::subscribe::Unsubscribe as v5::codec::encode::EncodeLtd>::encode', 'v5::codec::packet::subscribe::Unsubscribe::decode', r'subscribe::Unsubscribe$'),
    ('v5 UNSUBACK', '<v5::codec::packet::subscribe::UnsubscribeAck as v5::codec::encode::EncodeLtd>::encode', 'v5::codec::packet::subscribe::UnsubscribeAck::decode', r'subscribe::UnsubscribeAck$'),
    ('v5 DISCONNECT', '<v5::codec::packet::disconnect::Disconnect as v5::codec::encode::EncodeLtd>::encode', 'v5::codec::packet::disconnect::Disconnect::decode', r'disconnect::Disconnect$'),
    ('v5 AUTH', '<v5::codec::packet::auth::Auth as v5::codec::encode::EncodeLtd>::encode', 'v5::codec::packet::auth::Auth::decode', r'auth::Auth$'),
]


V3_PAIRS = [
    ('v3 CONNECT', 'Connect', 'v3::codec::decode::decode_connect_packet', r'packet::Connect$|packet::LastWill$'),
    ('v3 CONNACK', 'ConnectAck', 'v3::codec::decode::decode_connect_ack_packet', r'packet::ConnectAck$'),
    ('v3 PUBACK', 'PublishAck', 'v3::codec::decode::decode_ack', r'packet::Packet$'),
    ('v3 SUBSCRIBE', 'Subscribe', 'v3::codec::decode::decode_subscribe_packet', r'packet::Packet$'),
    ('v3 SUBACK', 'SubscribeAck', 'v3::codec::decode::decode_subscribe_ack_packet', r'packet::Packet$'),
    ('v3 UNSUBSCRIBE', 'Unsubscribe', 'v3::codec::decode::decode_unsubscribe_packet', r'packet::Packet$'),
]


def wire_order(F, R, sf):
    n = 0
    table = {}
    layouts = load('mqtt_layouts.json')
    pairs = [(nm, efn, None, dfn, adt) for nm, efn, dfn, adt in WIRE_PAIRS]
    v3adt = F.adts['v3::codec::packet::Packet']
    v3idx = {v['name']: v.get('discr', i) for i, v in enumerate(v3adt['variants'])}
    for nm, var, dfn, adt in V3_PAIRS:
        if var == 'Connect':
            pairs.append((nm, 'v3::codec::encode::encode_connect', None, dfn, adt))
        else:
            pairs.append((nm, 'v3::codec::encode::encode', v3idx[var], dfn, adt))
    pairs.append(('v5 PUBLISH', '<v5::codec::packet::publish::Publish as v5::codec::encode::EncodeLtd>::encode', None, 'v5::codec::packet::publish::Publish::decode', r'publish::Publish$'))
    pairs.append(('v3 PUBLISH', 'v3::codec::encode::encode_publish', None, 'v3::codec::decode::decode_publish_packet', r'packet::Publish$'))
    for name, efn, variant, dfn, adt in pairs:
        if efn not in F.bodies or dfn not in F.bodies:
            raise AnchorLost('%s / %s' % (efn, dfn))
        try:
            enc = encode_tokens(F, sf, efn, variant)
            if enc[:2] and [t for t, f in enc[:2]] == ['u8', 'remaining-length']:
                enc = enc[2:]   # fixed header is written by frame-level emitters and read by Codec::decode
        except Unsupported as ex:
            R.ob('C01.wire-order', '%s|evaluable' % name, False, str(ex)[:200])
            continue
        dec = decode_tokens(F, dfn, adt)
        n += 1
        # equivalent spellings: a slice of collected bytes == a loop of single bytes; the nested property block == PROPS
        enc2 = []
        for t, f in enc:
            if t == 'bytes':
                enc2 += [('(', None), ('u8', (f + '.item') if f else None), (')*', None)]
            elif t == 'nested':
                enc2.append(('PROPS', None))
            else:
                enc2.append((t, f))
        enc = enc2
        et = [t for t, f in enc]
        dt = [t for t, f in dec]
        table[name] = dict(encoder=['%s%s' % (t, (':' + f) if f else '') for t, f in enc], decoder=['%s%s' % (t, (':' + f) if f else '') for t, f in dec])
        want = layouts.get(name)
        if want is not None:
            R.ob('C01.wire-order', '%s|encoder-follows-the-specified-layout' % name, et == want.split(), 'encoder writes %s, the specification lays the packet out as %s' % (' '.join(et), want), F.bodies[efn].loc(0))
        R.ob('C01.wire-order', '%s|same-sequence-of-wire-types' % name, et == dt, 'encoder writes %s, decoder reads %s' % (' '.join(et), ' '.join(dt)), F.bodies[efn].loc(0))
        if et == dt:
            bad = []
            for (t1, f1), (t2, f2) in zip(enc, dec):
                if f1 and f2 and 'item' not in f1.split('.') and f1.split('.')[-1] != f2:
                    bad.append('%s written from %s but read into %s' % (t1, f1, f2))
            R.ob('C01.wire-order', '%s|same-field-at-every-position' % name, not bad, '; '.join(bad[:3]), F.bodies[efn].loc(0))
    R.floor('C01.wire-order', 'packet types compared', n, 18)
    R.table('wire_order', table)


# ----------------------------------------------------------------------------- CONNECT flags

SPEC_CONNECT_FLAGS = {0x80: 'User Name Flag', 0x40: 'Password Flag', 0x20: 'Will Retain', 0x18: 'Will QoS', 0x04: 'Will Flag', 0x02: 'Clean Start / Clean Session'}


def flag_const_values(F, owner):
    """{const name: value} for the associated constants of a bitflags type (evaluated from their bodies)."""
    out = {}
    for p, b in F.bodies.items():
        if p.startswith(owner + '::') and b.kind.startswith('AssocConst'):
            ps = [x for x in SymEx(b, F).run() if x.end[0] == 'return']
            if len(ps) == 1 and ps[0].ret and ps[0].ret[0] == 'call' and ps[0].ret[1].endswith('from_bits_retain') and ps[0].ret[2] and ps[0].ret[2][0][0] == 'const':
                out[p.split('::')[-1]] = ps[0].ret[2][0][1]
    return out


def const_name(op):
    c = op_const(op)
    if c and (c.get('def') or c.get('s')):
        return str(c.get('def') or c.get('s')).split('::')[-1]
    return None


def guard_fields(b, bi):
    """Names of the packet fields whose presence / truth decides whether block bi runs."""
    out = set()
    for sb in b.dom.get(bi, ()):
        t = b.blocks[sb]['term']
        if t['k'] != 'switch' or sb == bi:
            continue
        # is bi confined to one edge of this switch?
        succs = [tb for _, tb in t['targets']] + [t['otherwise']]
        if sum(1 for x in set(succs) if bi in b.reachable(x)) == len(set(succs)):
            continue
        for l in Origin(b, transparent=re.compile(TRANSPARENT_CALLS.pattern[:-2] + r'|is_some|is_none)$')).of_operand(t['discr']):
            if l[0] == 'arg' and l[2]:
                out.add([x for x in l[2] if not str(x).isdigit()][-1] if [x for x in l[2] if not str(x).isdigit()] else None)
        ap = apath(b, t['discr'])
        if ap:
            fs = [x for x in ap if not x.startswith('call:') and not x.startswith('as ') and not x.startswith('arg') and not x.isdigit()]
            if fs:
                out.add(fs[-1])
    out.discard(None)
    return out


def connect_flags(F, R):
    vals = flag_const_values(F, 'types::ConnectFlags')
    R.ob('C01.connect-flags', 'types::ConnectFlags|bits==specification', set(vals.values()) == set(SPEC_CONNECT_FLAGS), 'flag constants %s, specification %s' % ({k: hex(v) for k, v in vals.items()}, sorted(hex(x) for x in SPEC_CONNECT_FLAGS)))
    av = flag_const_values(F, 'types::ConnectAckFlags')
    R.ob('C01.connect-flags', 'types::ConnectAckFlags|SESSION_PRESENT==0x01', sorted(av.values()) == [1], 'flag constants %s' % av)
    n = 0
    for ver, efn, dfn in (('v3', 'v3::codec::encode::encode_connect', 'v3::codec::decode::decode_connect_packet'),
                          ('v5', '<v5::codec::packet::connect::Connect as v5::codec::encode::EncodeLtd>::encode', 'v5::codec::packet::connect::Connect::decode')):
        eb, db = F.bodies.get(efn), F.bodies.get(dfn)
        if eb is None or db is None:
            raise AnchorLost('%s / %s' % (efn, dfn))
        ors = [(bi, t) for bi, t in eb.calls() if re.search(r'BitOrAssign for types::ConnectFlags>::bitor_assign$|ConnectFlags>::(insert|set)$', callee_name(t) or '')]
        R.floor('C01.connect-flags', '%s flag accumulations in the CONNECT encoder' % ver, len(ors), 5)
        # the accumulator: local whose address is passed
        accs = {root_local(eb, t['args'][0]) for bi, t in ors}
        accs.discard(None)
        ok_acc = len(accs) == 1
        R.ob('C01.connect-flags', '%s|CONNECT encoder|one-flag-accumulator' % ver, ok_acc, 'flag bits are accumulated into %d different locals' % len(accs), eb.loc(ors[0][0]) if ors else None)
        if ok_acc:
            acc = list(accs)[0]
            defs = [d for d in eb.whole_defs(acc) if d[0] in eb.live]
            plain = [d for d in defs if not (d[2] == 'call' and (callee_name(d[3]) or '').endswith('::empty'))]
            R.ob('C01.connect-flags', '%s|CONNECT encoder|flags-only-accumulate' % ver, len(defs) == 1 and not plain,
                 'the flags value is re-assigned after bits were set (%d assignments): bits set earlier (user name / password / will) are lost while the fields are still written' % len(defs), eb.loc(plain[0][0]) if plain else None)
        enc = {}
        for bi, t in ors:
            cn = const_name(t['args'][1]) if len(t['args']) > 1 else None
            if cn:
                enc.setdefault(cn, set()).update(guard_fields(eb, bi))
        dec = {}
        dbs = [db] + [F.bodies[q] for q in ('v5::codec::packet::connect::decode_last_will',) if ver == 'v5' and q in F.bodies]
        for xb in dbs:
            lits = [(bi, s) for bi, j, s in agg_sites(xb, r'packet::(connect::)?(Connect|LastWill)$', None)]
            contains = [(bi, t) for bi, t in xb.calls() if (callee_name(t) or '').endswith('ConnectFlags>::contains')]
            for bi, t in contains:
                cn = const_name(t['args'][1])
                if not cn:
                    continue
                r = call_bool_branch(xb, bi)
                # (1) the bool itself becomes a field
                for lb, s in lits:
                    for name, op in zip(s['rv'].get('names') or [], s['rv']['fields']):
                        if any(l[0] == 'call' and l[2] == bi for l in Origin(xb).of_operand(op)):
                            dec.setdefault(cn, set()).add(name)
                # (2) a field is given a value exactly on the true edge
                if r and r[0] != 'discr':
                    sw, tt, ft = r
                    for lb, s in lits:
                        for name, op in zip(s['rv'].get('names') or [], s['rv']['fields']):
                            for l in root_locals_through_calls(xb, op):
                                for d_ in xb.whole_defs(l):
                                    if d_[2] == 'assign' and d_[3]['rv']['k'] == 'agg' and d_[3]['rv'].get('variant') == 'Some' and edge_dominates(xb, sw, tt, d_[0]):
                                        dec.setdefault(cn, set()).add(name)
        for cn in sorted(set(enc) | set(dec)):
            n += 1
            e, d_ = enc.get(cn, set()), dec.get(cn, set())
            # the encoder's guard may mention the enclosing option as well (will.retain under last_will)
            ok = bool(d_) and d_ <= e | {x for x in e} and (e - {'last_will'} <= d_ | {'retain', 'qos'} or e <= d_ | {'last_will'})
            R.ob('C01.connect-flags', '%s|%s|set-for-the-field-it-is-read-for' % (ver, cn), ok, 'encoder sets the bit when %s is present/true, decoder uses it for %s' % (sorted(e) or '?', sorted(d_) or '?'), eb.loc(0))
    R.floor('C01.connect-flags', 'flag constants compared between CONNECT encoder and decoder', n, 8)
