"""C01 (structural part: the tables and schemas both directions of the codec are built from).
consts: packet type bytes, MQTT 5 property identifiers and every reason-code / return-code enum equal
the OASIS tables transcribed in spec/*.json (both directions: nothing missing, nothing extra).
first-byte: for every packet variant the byte the encoder writes is the spec's type+flags byte and the
decoder maps that byte back to the same variant; the PUBLISH first-byte expression and the decoder's
dup/qos/retain expressions are extracted and evaluated for all 12 flag combinations (round trip).
decode-schema: every property loop accepts exactly the identifiers the specification allows in that
packet, with the specified wire type and repeatability. encode-schema: every property the encoders emit
(helpers, hand written put_u8+value, User Properties, Reason String) has an identifier allowed in that
packet and a field of the specified wire type. id-field: the field an identifier is decoded into is the
field it is encoded from (decoder's struct literal vs encoder's emission), for every packet type.
layout-size: the symbolic size/emission equivalence of C09 (every encode writes exactly the fields its
size function counts) and frame exhaustion of C02 (decoders accept a frame only when all of its bytes
were read) are imported. Equality of concrete values after a round trip is not decided."""
import os, json
from facts import *
from disp import agg_sites
import propschema, sizeflow
from sizeflow import SizeFlow, Unsupported, flatten_events, norm, path_str
from symex import SymEx, term_str_v

BASE = os.path.dirname(os.path.dirname(os.path.abspath(__file__)))

VARIANT_TO_SPEC = {
    'Connect': 'CONNECT', 'ConnectAck': 'CONNACK', 'PublishAck': 'PUBACK', 'PublishReceived': 'PUBREC', 'PublishRelease': 'PUBREL',
    'PublishComplete': 'PUBCOMP', 'Subscribe': 'SUBSCRIBE', 'SubscribeAck': 'SUBACK', 'Unsubscribe': 'UNSUBSCRIBE', 'UnsubscribeAck': 'UNSUBACK',
    'PingRequest': 'PINGREQ', 'PingResponse': 'PINGRESP', 'Disconnect': 'DISCONNECT', 'Auth': 'AUTH',
}
REASON_ENUMS = {
    'connack': 'v5::codec::packet::connack::ConnectAckReason', 'puback_pubrec': 'v5::codec::packet::pubacks::PublishAckReason',
    'pubrel_pubcomp': 'v5::codec::packet::pubacks::PublishAck2Reason', 'suback': 'v5::codec::packet::subscribe::SubscribeAckReason',
    'unsuback': 'v5::codec::packet::subscribe::UnsubscribeAckReason', 'disconnect': 'v5::codec::packet::disconnect::DisconnectReasonCode',
    'auth': 'v5::codec::packet::auth::AuthReasonCode',
}
# Table 2-6 of the specification lists these for the packet although the packet's own section omits them
TABLE_2_6_EXTRA = {'disconnect': {0x8C}}

WIRE_OF_TY = [
    (r'^bool$|^u8$|^types::QoS$', 'Byte'), (r'^u16$|^std::num::NonZero<u16>$', 'TwoByte'), (r'^u32$|^std::num::NonZero<u32>$', 'FourByte'),
    (r'^ntex_bytes::ByteString$', 'UTF8'), (r'^ntex_bytes::Bytes$', 'Binary'),
]
ENC_PACKET = [
    (r'connect::Connect as', 'CONNECT'), (r'connack::ConnectAck as', 'CONNACK'), (r'publish::PublishProperties as', 'PUBLISH'), (r'subscribe::Subscribe as', 'SUBSCRIBE'),
    (r'subscribe::Unsubscribe as', 'UNSUBSCRIBE'), (r'disconnect::Disconnect as', 'DISCONNECT'), (r'auth::Auth as', 'AUTH'),
    (r'pubacks::PublishAck as', 'ACKS'), (r'pubacks::PublishAck2 as', 'ACKS'), (r'subscribe::SubscribeAck as', 'ACKS'), (r'subscribe::UnsubscribeAck as', 'ACKS'),
]
DEC_STRUCT = {
    'CONNECT': ('v5::codec::packet::connect::Connect::decode', r'connect::Connect$'), 'CONNACK': ('v5::codec::packet::connack::ConnectAck::decode', r'connack::ConnectAck$'),
    'Will': ('v5::codec::packet::connect::decode_last_will', r'connect::LastWill$'), 'PUBLISH': ('v5::codec::packet::publish::parse_publish_properties', r'publish::PublishProperties$'),
    'SUBSCRIBE': ('v5::codec::packet::subscribe::Subscribe::decode', r'subscribe::Subscribe$'), 'UNSUBSCRIBE': ('v5::codec::packet::subscribe::Unsubscribe::decode', r'subscribe::Unsubscribe$'),
    'DISCONNECT': ('v5::codec::packet::disconnect::Disconnect::decode', r'disconnect::Disconnect$'), 'AUTH': ('v5::codec::packet::auth::Auth::decode', r'auth::Auth$'),
}


def wire_of(ty):
    ty = re.sub(r'^std::option::Option<(.*)>$', r'\1', ty or '')
    for pat, w in WIRE_OF_TY:
        if re.search(pat, ty):
            return w
    return None


def load(name):
    return json.load(open(os.path.join(BASE, 'spec', name)))


def spec_ids_for(spec, pk):
    out = {}
    for k, v in spec['properties'].items():
        pks = v['packets']
        if pk in pks or (pk == 'ACKS' and 'ACKS' in pks) or (pk == 'ACKS' and 'PUBACK' in pks):
            out[int(k)] = v
    return out


# ----------------------------------------------------------------------------- constants

def consts(F, R):
    s5, s3 = load('mqtt5_tables.json'), load('mqtt311_tables.json')
    got = {k.split('::')[-1]: v['v'] for k, v in F.consts.items() if k.startswith('types::packet_type::') and isinstance(v.get('v'), int)}
    for name, val in sorted(s5['packet_types'].items()):
        if name == 'PUBLISH':
            g = got.get('PUBLISH_START')
        else:
            g = got.get(name)
        R.ob('C01.consts', 'packet_type::%s' % name, g == val, 'constant is %s, the specification says 0x%02X' % (('0x%02X' % g) if g is not None else 'missing', val))
    R.floor('C01.consts', 'packet type constants', len(got), 15)
    pts = {k.split('::')[-1]: v['v'] for k, v in F.consts.items() if '::property_type::' in k and isinstance(v.get('v'), int)}
    spec_ids = {int(k) for k in s5['properties']}
    R.ob('C01.consts', 'property_type|identifiers==Table-2-4', set(pts.values()) == spec_ids and len(pts) == len(spec_ids),
         'missing %s, not in the specification %s' % (sorted(hex(x) for x in spec_ids - set(pts.values())), sorted(hex(x) for x in set(pts.values()) - spec_ids)))
    R.floor('C01.consts', 'property identifier constants', len(pts), 27)
    for key, adt in sorted(REASON_ENUMS.items()):
        a = F.adts.get(adt)
        if a is None:
            raise AnchorLost(adt)
        vals = {v.get('discr', i) for i, v in enumerate(a['variants'])}
        sp = {int(x) for x in s5['reason_codes'][key]}
        extra = vals - sp - TABLE_2_6_EXTRA.get(key, set())
        R.ob('C01.consts', '%s|reason-codes==specification' % adt.split('::')[-1], sp <= vals and not extra,
             'not representable: %s; not in the specification: %s' % (sorted(hex(x) for x in sp - vals), sorted(hex(x) for x in extra)))
    for adt, key in (('types::QoS', 'qos'), ('v5::codec::packet::subscribe::RetainHandling', 'retain_handling')):
        a = F.adts.get(adt)
        vals = {v.get('discr', i) for i, v in enumerate(a['variants'])} if a else set()
        R.ob('C01.consts', '%s|values' % adt.split('::')[-1], vals == {int(x) for x in s5[key]}, 'values %s' % sorted(vals))
    a = F.adts.get('v3::codec::packet::ConnectAckReason')
    vals = {v.get('discr', i) for i, v in enumerate(a['variants'])} if a else set()
    sp = {int(x) for x in s3['connect_return_codes']}
    R.ob('C01.consts', 'v3::ConnectAckReason|return-codes', sp <= vals, 'missing return codes %s' % sorted(sp - vals))
    # the conversions enum <-> u8 generated by prim_enum! are identity on the discriminant: From<Enum> for u8 is `as u8`
    n = 0
    for b in F.find(r'<impl std::convert::From<(types::QoS|v[35]::codec::packet::.*(Reason|ReasonCode|RetainHandling))> for u8>::from$'):
        n += 1
        casts = [s for bi, j, s in b.assigns() if s['rv']['k'] == 'cast']
        discr = [s for bi, j, s in b.assigns() if s['rv']['k'] == 'discr']
        calls = [t for _, t in b.calls()]
        tm = [t for t in calls if (callee_name(t) or '').endswith('intrinsics::transmute') and op_place(t['args'][0]) is not None]
        plain = (bool(discr) and not calls) or (len(calls) == 1 and len(tm) == 1 and 1 in {a for a, _ in leaves_args(Origin(b).of_operand(tm[0]['args'][0]))})
        R.ob('C01.consts', '%s|u8-conversion-is-the-discriminant' % re.search(r'From<([^>]*)>', b.path).group(1).split('::')[-1], plain and len(b.blocks) <= 3,
             'the conversion to u8 is not a plain discriminant cast', b.loc(0))
    R.floor('C01.consts', 'enum to u8 conversions', n, 8)


# ----------------------------------------------------------------------------- first byte

def eval_byte(t, env):
    """Evaluate an extracted u8 expression; env maps normalised field paths to ints."""
    k = t[0]
    if k == 'const':
        return t[1]
    if k == 'cast':
        return eval_byte(t[1], env)
    if k in ('ref', 'deref'):
        return eval_byte(t[1], env)
    if k == 'bin':
        a, b = eval_byte(t[2], env), eval_byte(t[3], env)
        if a is None or b is None:
            return None
        op = t[1].replace('WithOverflow', '')
        return {'BitOr': a | b, 'BitAnd': a & b, 'Shl': (a << b) & 0xFF, 'Shr': a >> b, 'Add': a + b, 'Eq': int(a == b), 'Ne': int(a != b), 'Sub': a - b}.get(op)
    if k == 'call':
        base = t[1].split('::')[-1]
        if base in ('from', 'into') and t[2]:
            return eval_byte(t[2][0], env)
        if base in ('try_from', 'try_into', 'branch') and t[2]:
            return eval_byte(t[2][0], env)
        return None
    if k == 'field':
        if isinstance(t[1], tuple) and t[1] and t[1][0] == 'downcast':
            return eval_byte(t[1][1], env)
        return env.get(norm(t))
    if k == 'agg' and t[2] in ('Some', 'Ok') and '0' in t[3]:
        return eval_byte(t[3]['0'], env)
    if k == 'arg':
        return env.get(('arg', t[1]))
    if k == 'tuple':
        return eval_byte(t[1][0], env)
    return None


def first_byte(F, R, sf):
    s5 = load('mqtt5_tables.json')
    for ver, efn, adt, decfn in (('v5', '<v5::codec::packet::Packet as v5::codec::encode::EncodeLtd>::encode', 'v5::codec::packet::Packet', 'v5::codec::decode::decode_packet'),
                                 ('v3', 'v3::codec::encode::encode', 'v3::codec::packet::Packet', 'v3::codec::decode::decode_packet')):
        eb = F.bodies.get(efn)
        if eb is None:
            raise AnchorLost(efn)
        a = F.adts[adt]
        names = {v.get('discr', i): v['name'] for i, v in enumerate(a['variants'])}
        E = sf.emit_of_call(efn, [('arg', 1), ('arg', 2), ('ARGSIZE',)])
        enc = {}
        for c, l, evs in E:
            d = [cv[1] for t, cv in c.items() if t == ('discr', ('arg', 1)) and cv[0] == 'eq']
            evl = [e for e in flatten_events(evs) if e[0] in ('put', 'slice')]
            if not d or not evl:
                continue
            e0 = evl[0]
            val = None
            if e0[0] == 'put':
                val = eval_byte(e0[3], {})
            else:
                arr = e0[3]
                while arr[0] in ('ref', 'deref', 'cast'):
                    arr = arr[1]
                if arr[0] == 'array':
                    val = eval_byte(arr[1][0], {})
            enc[names[d[0]]] = val
        # decoder: first byte -> variant
        db = F.bodies[decfn]
        sw = [sb for sb in sorted(db.live) if db.blocks[sb]['term']['k'] == 'switch' and len(db.blocks[sb]['term']['targets']) >= 10]
        if len(sw) != 1:
            raise AnchorLost('%s: switch on the first byte' % decfn)
        t = db.blocks[sw[0]]['term']
        targets = {tb for _, tb in t['targets']} | {t['otherwise']}
        dec = {}
        for v, tb in t['targets']:
            reg = db.reachable(tb, avoid=targets - {tb})
            vs = {s['rv']['variant'] for bi, j, s in agg_sites(db, '^' + re.escape(adt) + '$', None) if bi in reg}
            # v3: variants are built inside the helper the arm tail-calls
            for bi, ct in db.calls():
                if bi in reg:
                    for q in F.call_targets(ct):
                        qb = F.bodies.get(q)
                        if qb is not None and qb.file == db.file:
                            vs |= {s['rv']['variant'] for _, _, s in agg_sites(qb, '^' + re.escape(adt) + '$', None)}
                            for _, ct2 in qb.calls():
                                tg2 = list(F.call_targets(ct2))
                                c2 = op_const(ct2['func']) if ct2.get('func') else None
                                if c2 and (c2.get('fn') or '').endswith('Into::into') and len(c2.get('args') or []) == 2:
                                    tg2.append('<%s as std::convert::From<%s>>::from' % (c2['args'][1], c2['args'][0]))
                                for q2 in tg2:
                                    if re.search(r'^<%s as std::convert::From<' % re.escape(adt), q2) and q2 in F.bodies:
                                        vs |= {s['rv']['variant'] for _, _, s in agg_sites(F.bodies[q2], '^' + re.escape(adt) + '$', None)}
                            # closures passed to decode_ack build the variant
                    for aop in ct['args']:
                        pa = op_place(aop)
                        if pa is not None and 'closure' in (db.local_ty(pa['l']) or ''):
                            for cp, cb in F.bodies.items():
                                if cp.startswith(decfn + '::{closure') and cb.loc(0).split(':')[-1] == db.loc(bi).split(':')[-1]:
                                    vs |= {s['rv']['variant'] for _, _, s in agg_sites(cb, '^' + re.escape(adt) + '$', None)}
            dec[v] = vs
        n = 0
        for var in sorted(names.values()):
            specname = VARIANT_TO_SPEC.get(var)
            if specname is None:
                continue
            n += 1
            want = s5['packet_types'].get(specname) if ver == 'v5' else load('mqtt311_tables.json')['packet_types'].get(specname)
            R.ob('C01.first-byte', '%s|%s|encoder-writes-the-specified-type-and-flags' % (ver, var), enc.get(var) == want,
                 'encoder writes %s, the specification says 0x%02X' % (('0x%02X' % enc[var]) if enc.get(var) is not None else 'an unevaluable byte', want), eb.loc(0))
            back = dec.get(want, set())
            R.ob('C01.first-byte', '%s|%s|decoder-maps-the-byte-back' % (ver, var), var in back and len(back) == 1,
                 'first byte 0x%02X decodes to %s' % (want, sorted(back) or 'nothing'), db.loc(sw[0]))
        R.floor('C01.first-byte', '%s packet variants' % ver, n, 13)
    publish_flags(F, R, sf)


def publish_flags(F, R, sf):
    """PUBLISH: first byte = 0x30 | dup<<3 | qos<<1 | retain, and the decoder's expressions invert it."""
    for ver, efn, dfn, adt in (('v5', '<v5::codec::packet::publish::Publish as v5::codec::encode::EncodeLtd>::encode', 'v5::codec::packet::publish::Publish::decode', r'publish::Publish$'),
                               ('v3', 'v3::codec::encode::encode_publish', 'v3::codec::decode::decode_publish_packet', r'packet::Publish$')):
        eb, db = F.bodies.get(efn), F.bodies.get(dfn)
        if eb is None or db is None:
            raise AnchorLost('%s / %s' % (efn, dfn))
        E = sf.emit_of_call(efn, [('arg', 1), ('arg', 2), ('ARGSIZE',)])
        first = None
        for c, l, evs in E:
            evl = [e for e in flatten_events(evs) if e[0] == 'put']
            if evl:
                first = evl[0][3]
        # decoder expressions for dup / retain / qos from the struct literal
        ps = [p for p in SymEx(db, F, max_paths=4000).run() if p.end[0] == 'return' and p.ret and p.ret[0] == 'agg' and p.ret[2] == 'Ok']
        fields = None
        for p in ps:
            v = p.ret[3].get('0')
            if v and v[0] == 'agg' and re.search(adt, v[1]):
                fields = v[3]
        bad = []
        if first is None or fields is None:
            R.ob('C01.first-byte', '%s|PUBLISH|extractable' % ver, False, 'cannot extract the first-byte expression / the decoder struct literal', eb.loc(0))
            continue
        fb_arg = None
        for i in range(1, db.argc + 1):
            if db.local_ty(i) == 'u8':
                fb_arg = i
        for qos in (0, 1, 2):
            for dup in (0, 1):
                for retain in (0, 1):
                    env = {('field', ('arg', 1), 'qos'): qos, ('field', ('arg', 1), 'dup'): dup, ('field', ('arg', 1), 'retain'): retain}
                    byte = eval_byte(first, env)
                    want = 0x30 | (dup << 3) | (qos << 1) | retain
                    if byte != want:
                        bad.append('qos=%d dup=%d retain=%d: encoder writes %s, the specification says 0x%02X' % (qos, dup, retain, byte, want))
                        continue
                    denv = {('arg', fb_arg): byte}
                    got = (eval_byte(fields.get('qos'), denv), eval_byte(fields.get('dup'), denv), eval_byte(fields.get('retain'), denv))
                    if got != (qos, dup, retain):
                        bad.append('first byte 0x%02X decodes to qos/dup/retain %s, expected %s' % (byte, got, (qos, dup, retain)))
        R.ob('C01.first-byte', '%s|PUBLISH|flags-round-trip(12 combinations)' % ver, not bad, '; '.join(bad[:3]), eb.loc(0))


# ----------------------------------------------------------------------------- schemas

def decode_schema(F, R):
    spec = load('mqtt5_tables.json')
    loops = propschema.property_loops(F)
    R.floor('C01.decode-schema', 'property loops', len(loops), 9)
    tables = {}
    for b, sb, table, oth in loops:
        pk = propschema.packet_of(b.path)
        want = spec_ids_for(spec, pk)
        tables[pk] = (b, sb, table)
        R.ob('C01.decode-schema', '%s|accepted-identifiers==specification' % pk, set(table) == set(want),
             'legal but rejected: %s; accepted but not allowed in this packet: %s' % (sorted(hex(x) for x in set(want) - set(table)), sorted(hex(x) for x in set(table) - set(want))), b.loc(sb))
        for pid, info in sorted(table.items()):
            sp = want.get(pid) or spec['properties'].get(str(pid))
            if sp is None:
                continue
            R.ob('C01.decode-schema', '%s|0x%02X|wire-type' % (pk, pid), info['wire'] == sp['type'], 'decoded as %s (%s), the specification says %s' % (info['wire'], info.get('ty'), sp['type']), b.loc(sb))
            may_repeat = sp.get('repeat_in') == 'all' or pk in (sp.get('repeat_in') or [])
            if may_repeat:
                R.ob('C01.decode-schema', '%s|0x%02X|may-repeat' % (pk, pid), info['repeat'] or not info['once'], 'a property that may appear several times is decoded through the once-only path', b.loc(sb))
    return tables


def field_of_term(t):
    """Field path (relative to self) of an emitted value term, e.g. 'receive_max' or 'last_will.topic'."""
    n = norm(t)
    out = []
    while isinstance(n, tuple) and n:
        if n[0] == 'field':
            if not (isinstance(n[1], tuple) and n[1][0] == 'downcast'):
                out.append(n[2])
            n = n[1]
        elif n[0] == 'downcast':
            n = n[1]
        elif n[0] == 'item':
            n = n[1]
        elif n[0] == 'call' and n[2]:
            n = n[2][0]
        else:
            break
    return '.'.join(reversed(out))


def struct_field_ty(F, adt_pat, field):
    for p, a in F.adts.items():
        if re.search(adt_pat, p) and a['kind'] == 'Struct':
            for f in a['variants'][0]['fields']:
                if f['name'] == field:
                    return f['ty']
    return None


def encode_props(F, sf, fn):
    """{id: set(field)} emitted by one encoder, with the kind of emission."""
    eb = F.bodies[fn]
    args = [('arg', i + 1) for i in range(eb.argc)]
    for i in range(1, eb.argc + 1):
        if eb.local_ty(i) == 'u32':
            args[i - 1] = ('ARGSIZE',)
    E = sf.emit_of_call(fn, args)
    out = {}
    for c, l, evs in E:
        evl = [e for e in flatten_events(evs) if e[0] not in ('sub', 'vilinv-arg')]
        in_props = False
        for k, ev in enumerate(evl):
            if ev[0] == 'varint' and ev[3] != ('ARGSIZE',):
                in_props = True
            if ev[0] in ('put', 'slice') and not in_props:
                continue
            if ev[0] == 'prop':
                pid = ev[4][1] if ev[4][0] == 'const' else None
                out.setdefault(pid, set()).add(field_of_term(ev[3]))
            elif ev[0] in ('optprops', 'ackprops'):
                a = ev[5]
                out.setdefault(0x26, set()).add(field_of_term(a[1]))
                out.setdefault(0x1F, set()).add(field_of_term(a[2]))
            elif ev[0] == 'encode' and 'Vec' in str(ev[2]) + type_hint(ev):
                pass
            elif ev[0] == 'put' and ev[2] == 'put_u8' and ev[3] and ev[3][0] == 'const' and k + 1 < len(evl) and k > 0:
                nxt = evl[k + 1]
                if nxt[0] in ('encode', 'varint') and nxt[3] is not None:
                    out.setdefault(ev[3][1], set()).add(field_of_term(nxt[3]))
            elif ev[0] == 'slice' and k > 0:
                arr = ev[3]
                while arr[0] in ('ref', 'deref', 'cast'):
                    arr = arr[1]
                if arr[0] == 'array' and len(arr[1]) == 2 and arr[1][0][0] == 'const':
                    out.setdefault(arr[1][0][1], set()).add(field_of_term(arr[1][1]))
    return out, E


def type_hint(ev):
    return ''


def user_props_fields(F, sf, fn):
    """Fields emitted through <UserProperties as Encode>::encode (id 0x26 inside that impl)."""
    b = F.bodies[fn]
    out = set()
    for bi, t in b.calls():
        nm = callee_name(t) or ''
        if re.search(r'impl utils::Encode for std::vec::Vec<\(ntex_bytes::ByteString, ntex_bytes::ByteString\)>>::encode$', nm):
            ap = apath(b, t['args'][0])
            if ap:
                out.add('.'.join(x for x in ap[1:] if not x.startswith('call:') and not x.startswith('as ')))
    return out


def decode_fields(F, pk, table_entry):
    """{id: field} from the decoder: which struct field receives the local an identifier is decoded into."""
    fn, adt_pat = DEC_STRUCT[pk]
    b = F.bodies.get(fn)
    if b is None:
        raise AnchorLost(fn)
    db, sb, table = table_entry
    t = db.blocks[sb]['term']
    targets = {tb for _, tb in t['targets']} | {t['otherwise']}
    above = set(db.dom.get(sb, ())) - {sb}
    local_of = {}
    for v, tb in t['targets']:
        reg = db.reachable(tb, avoid=(targets - {tb}) | above)
        for bi, ct in db.calls():
            if bi not in reg:
                continue
            nm = callee_name(ct) or ''
            if nm.endswith('Property>::read_value') or re.search(r'Vec::<T, A>::push$', nm):
                l = root_local(db, ct['args'][0])
                if l is not None:
                    local_of.setdefault(v, set()).add(l)
        # direct assignment idiom: `x = Some(..)` guarded by is_none (possibly through a temporary)
        for bi, j, s in db.assigns():
            if bi in reg and not place_proj(s['lhs']) and db.local_name(s['lhs']['l']) and 'Option<' in (db.local_ty(s['lhs']['l']) or ''):
                if s['rv']['k'] == 'agg' and s['rv'].get('variant') == 'Some':
                    local_of.setdefault(v, set()).add(s['lhs']['l'])
                elif s['rv']['k'] == 'use' and op_place(s['rv']['op']) is not None:
                    src_l = op_place(s['rv']['op'])['l']
                    if any(d[2] == 'assign' and d[3]['rv']['k'] == 'agg' and d[3]['rv'].get('variant') == 'Some' for d in db.whole_defs(src_l)):
                        local_of.setdefault(v, set()).add(s['lhs']['l'])
    # struct literal
    fields = {}
    lits = [(bi, s) for bi, j, s in agg_sites(b, adt_pat, None)]
    if not lits:
        raise AnchorLost('%s: struct literal' % fn)
    for bi, s in lits:
        for name, op in zip(s['rv']['names'], s['rv']['fields']):
            fields.setdefault(name, set()).update(root_locals_through_calls(b, op))
    out = {}
    for pid, ls in local_of.items():
        for name, fl in fields.items():
            if ls & fl:
                out.setdefault(pid, set()).add(name)
    return out


def root_local(b, op, depth=0):
    """Local whose address is passed (through reborrows)."""
    p = op_place(op)
    while p is not None and depth < 10:
        depth += 1
        if place_proj(p) and place_proj(p) != ['*']:
            return None
        ds = [d for d in b.whole_defs(p['l']) if d[0] in b.live]
        if len(ds) == 1 and ds[0][2] == 'assign' and ds[0][3]['rv']['k'] in ('ref', 'rawptr'):
            q = ds[0][3]['rv']['place']
            if not place_proj(q):
                return q['l']
            if place_proj(q) == ['*']:
                p = {'l': q['l'], 'p': []}
                continue
            return None
        if len(ds) == 1 and ds[0][2] == 'assign' and ds[0][3]['rv']['k'] == 'use':
            p = op_place(ds[0][3]['rv']['op'])
            continue
        return p['l'] if not place_proj(p) else None
    return None


def root_locals_through_calls(b, op, depth=0, seen=None):
    """Named locals a struct field value comes from (through moves and value-preserving calls like unwrap_or)."""
    seen = seen if seen is not None else set()
    p = op_place(op)
    if p is None or depth > 10:
        return set()
    l = p['l']
    if l in seen:
        return set()
    seen.add(l)
    out = set()
    if b.local_name(l):
        out.add(l)
    for d in b.whole_defs(l):
        if d[0] not in b.live:
            continue
        if d[2] == 'assign':
            rv = d[3]['rv']
            if rv['k'] in ('use', 'cast'):
                out |= root_locals_through_calls(b, rv['op'], depth + 1, seen)
        elif d[2] == 'call':
            nm = callee_name(d[3]) or ''
            if re.search(r'::(unwrap_or|unwrap_or_default|unwrap_or_else|take|map|into|from|clone)$', nm) and d[3]['args']:
                out |= root_locals_through_calls(b, d[3]['args'][0], depth + 1, seen)
    return out


def encode_schema(F, R, sf, tables):
    spec = load('mqtt5_tables.json')
    n = 0
    enc_by_pk = {}
    for fn in sorted(F.bodies):
        if not re.search(r'EncodeLtd>::encode$', fn):
            continue
        pk = None
        for pat, name in ENC_PACKET:
            if re.search(pat, fn):
                pk = name
        if pk is None:
            continue
        n += 1
        try:
            props, E = encode_props(F, sf, fn)
        except Unsupported as ex:
            R.ob('C01.encode-schema', '%s|evaluable' % c09name(fn), False, str(ex)[:200])
            continue
        for f in user_props_fields(F, sf, fn):
            props.setdefault(0x26, set()).add(f)
        want = spec_ids_for(spec, pk)
        name = c09name(fn)
        if pk == 'CONNECT':
            # the will's properties are written by the same function: they are checked against the Will table below
            will_only = {pid for pid, fs in props.items() if fs and all(f.startswith('last_will.') for f in fs)}
            enc_by_pk.setdefault(pk, {})
            for pid in will_only:
                enc_by_pk[pk].setdefault(pid, set()).update(props[pid])
            props = {pid: fs for pid, fs in props.items() if pid not in will_only}
        extra = {p for p in props if p not in want and p is not None}
        R.ob('C01.encode-schema', '%s|emitted-identifiers-allowed-in-%s' % (name, pk), not extra and None not in props,
             'emits property identifiers the specification does not allow in this packet: %s' % sorted(hex(x) for x in extra), F.bodies[fn].loc(0))
        missing = set(want) - set(props)
        R.ob('C01.encode-schema', '%s|every-%s-property-can-be-emitted' % (name, pk), not missing,
             'no emission for %s: values of these properties cannot be sent' % sorted(hex(x) for x in missing), F.bodies[fn].loc(0))
        adt_pat = re.sub(r' as$', '$', [p for p, nme in ENC_PACKET if re.search(p, fn)][0])
        for pid, fs in sorted(props.items()):
            if pid not in want:
                continue
            for f in fs:
                base_adt = adt_pat
                fld = f
                if f.startswith('last_will.'):
                    continue
                ty = struct_field_ty(F, adt_pat, fld.split('.')[-1]) if fld else None
                w = wire_of(ty) if ty else None
                sptype = want[pid]['type']
                ok = (w == sptype) or (sptype == 'StringPair' and ty and 'Vec<(ntex_bytes::ByteString, ntex_bytes::ByteString)>' in ty) or (sptype == 'VarInt' and ty and re.search(r'NonZero<u32>', ty))
                R.ob('C01.encode-schema', '%s|0x%02X<-%s|wire-type' % (name, pid, fld), ok, 'field type %s is written for a property of type %s' % (ty, sptype), F.bodies[fn].loc(0))
        enc_by_pk.setdefault(pk, {})
        for pid, fs in props.items():
            enc_by_pk[pk].setdefault(pid, set()).update(fs)
    R.floor('C01.encode-schema', 'limited encoders with properties', n, 11)
    # will properties live inside Connect::encode
    cw = {pid: {f[len('last_will.'):] for f in fs if f.startswith('last_will.')} for pid, fs in enc_by_pk.get('CONNECT', {}).items()}
    cw = {k: v for k, v in cw.items() if v}
    if cw:
        enc_by_pk['Will'] = cw
        for pid in list(enc_by_pk['CONNECT']):
            enc_by_pk['CONNECT'][pid] = {f for f in enc_by_pk['CONNECT'][pid] if not f.startswith('last_will.')}
            if not enc_by_pk['CONNECT'][pid]:
                del enc_by_pk['CONNECT'][pid]
        want = spec_ids_for(spec, 'Will')
        R.ob('C01.encode-schema', 'Connect::encode|will-properties==specification', set(cw) == set(want),
             'will properties emitted %s, specification %s' % (sorted(hex(x) for x in cw), sorted(hex(x) for x in want)))
    # id <-> field agreement with the decoders
    m = 0
    for pk in sorted(DEC_STRUCT):
        if pk not in tables or pk not in enc_by_pk:
            R.ob('C01.id-field', '%s|both-directions-found' % pk, False, 'decoder table %s, encoder table %s' % (pk in tables, pk in enc_by_pk))
            continue
        dec = decode_fields(F, pk, tables[pk])
        enc = enc_by_pk[pk]
        for pid in sorted(set(dec) | set(enc)):
            m += 1
            df = dec.get(pid, set())
            ef = {f.split('.')[-1] for f in enc.get(pid, set())}
            R.ob('C01.id-field', '%s|0x%02X|decoded-into==encoded-from' % (pk, pid), df == ef and len(df) == 1,
                 'identifier 0x%02X is decoded into %s but encoded from %s' % (pid, sorted(df) or 'nothing', sorted(ef) or 'nothing'))
    R.floor('C01.id-field', 'identifier/field pairs', m, 50)
    R.table('encode_properties', {pk: {hex(k): sorted(v) for k, v in d.items() if k is not None} for pk, d in enc_by_pk.items()})


def c09name(fn):
    import c09
    return c09.short_fn(fn)


def opt_props_ids(F, R):
    """The two shared helpers write the identifiers they are accounted for: USER for every item of the first
    argument, REASON_STRING for the second; UserProperties::encode writes USER."""
    b = F.bodies.get('v5::codec::encode::encode_opt_props')
    if b is None:
        raise AnchorLost('encode_opt_props')
    puts = []
    for bi, t in b.calls():
        if (callee_name(t) or '').endswith('put_u8'):
            puts.append((bi, const_val(t['args'][1])))
    nexts = [bi for bi, t in b.calls() if (callee_name(t) or '').endswith('::next')]
    loop = {x for x in b.reachable(nexts[0]) if nexts[0] in b.reachable(x)} if nexts else set()
    in_loop = sorted(v for bi, v in puts if bi in loop)
    after = sorted(v for bi, v in puts if bi not in loop)
    R.ob('C01.encode-schema', 'encode_opt_props|identifiers', in_loop == [0x26] and after == [0x1F], 'user-property loop writes %s, reason string part writes %s' % (in_loop, after), b.loc(0))
    ub = F.one(r'impl utils::Encode for std::vec::Vec<\(ntex_bytes::ByteString, ntex_bytes::ByteString\)>>::encode$')
    ids = sorted(const_val(t['args'][1]) for bi, t in ub.calls() if (callee_name(t) or '').endswith('put_u8'))
    R.ob('C01.encode-schema', 'UserProperties::encode|identifier', ids == [0x26], 'writes %s' % ids, ub.loc(0))
    ab = F.bodies.get('v5::codec::packet::ack_props::encode')
    calls = [callee_name(t) or '' for _, t in ab.calls()]
    R.ob('C01.encode-schema', 'ack_props::encode|delegates-to-encode_opt_props', any(c.endswith('encode_opt_props') for c in calls), 'calls %s' % [c.split('::')[-1] for c in calls], ab.loc(0))


def imported(F, R):
    import c09, exhaust, runner
    rep = runner.Report('C09', 'quick')
    sf = SizeFlow(F)
    c09.size_terms(F, rep, sf)
    c09.frame_header(F, rep, sf)
    rep2 = runner.Report('C09', 'quick')
    c09.varint_len(F, rep2)
    bad2 = [i for i in rep2.items if not i['ok']]
    R.ob('C01.layout-size', 'length-prefixes-are-variable-byte-integers-of-the-right-size (C09.varint-len, %d instances)' % len(rep2.items), not bad2 and len(rep2.items) >= 4,
         '; '.join('%s: %s' % (i['key'], i['msg'][:160]) for i in bad2[:3]))
    bad = [i for i in rep.items if not i['ok'] and i['rule'] in ('C09.size-terms', 'C09.frame-header')]
    R.ob('C01.layout-size', 'every-encoder-writes-exactly-the-fields-its-size-counts (C09.size-terms, %d instances)' % len(rep.items), not bad,
         '; '.join('%s: %s' % (i['key'], i['msg'][:160]) for i in bad[:3]))
    n = 0
    badarms = []
    for ver, specf in (('v5', 'mqtt5_tables.json'), ('v3', 'mqtt311_tables.json')):
        names = {v: k for k, v in load(specf)['packet_types'].items()}
        for name, ok, loc, oks in exhaust.per_arm(F, ver, names):
            n += 1
            if not ok:
                badarms.append('%s %s @ %s' % (ver, name, loc))
    R.ob('C01.layout-size', 'decoders-consume-exactly-the-frame (C02.frame-exhausted, %d arms)' % n, not badarms and n >= 27, 'accepted with bytes left over: %s' % badarms[:4])


def run(F, R):
    sf = SizeFlow(F)
    consts(F, R)
    first_byte(F, R, sf)
    tables = decode_schema(F, R)
    opt_props_ids(F, R)
    encode_schema(F, R, sf, tables)
    imported(F, R)
    R.assume('spec/*.json are faithful transcriptions of the OASIS tables (hand-checked twice; the only library value outside the per-packet tables is DISCONNECT 0x8C, listed in Table 2-6)')
