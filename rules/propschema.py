"""Extraction of the MQTT 5 property loops of the decoders from MIR: for every function with a
`match <cursor>.get_u8()` over several constant ids, the table id -> (how it is decoded, wire type,
may repeat) and what the fall-through arm does."""
from facts import *
from disp import agg_sites

WIRE = [
    (r'^bool$|^u8$', 'Byte'),
    (r'^u16$|^std::num::NonZero<u16>$', 'TwoByte'),
    (r'^u32$|^std::num::NonZero<u32>$', 'FourByte'),
    (r'^ntex_bytes::ByteString$', 'UTF8'),
    (r'^ntex_bytes::Bytes$', 'Binary'),
    (r'^\(ntex_bytes::ByteString, ntex_bytes::ByteString\)$', 'StringPair'),
]


def wire_type(ty):
    for pat, w in WIRE:
        if re.search(pat, ty):
            return w
    return None


def property_loops(F):
    """[(body, switch_block, {id: info}, otherwise_info)]"""
    out = []
    for b in F.bodies.values():
        if '/codec/' not in b.file or not (b.path.startswith('v5::') or b.path.startswith('<v5::')):
            continue
        for sb in sorted(b.live):
            t = b.blocks[sb]['term']
            if t['k'] != 'switch' or len(t['targets']) < (1 if packet_of(b.path) else 2):
                continue
            p = op_place(t['discr'])
            if not p:
                continue
            src = None
            l_ = p['l']
            for _ in range(8):
                # the identifier may reach the `match` through plain copies (handed to a spliced helper / closure as an argument)
                ds_ = uniq_defs(b, l_)
                if len(ds_) == 1 and ds_[0][2] == 'assign' and ds_[0][3]['rv']['k'] == 'use' and op_place(ds_[0][3]['rv']['op']) is not None \
                        and not place_proj(op_place(ds_[0][3]['rv']['op'])) and not place_proj(p):
                    l_ = op_place(ds_[0][3]['rv']['op'])['l']
                else:
                    break
            for (xb, xs, kind, x) in b.whole_defs(l_):
                if kind == 'call' and re.search(r'::get_u8$', callee_name(x) or ''):
                    src = (xb, x)
            if src is None:
                continue
            if b.local_ty(p['l']) != 'u8':
                continue
            if not packet_of(b.path):
                continue
            table = {}
            targets = {tb for _, tb in t['targets']} | {t['otherwise']}
            above = set(b.dom.get(sb, ())) - {sb}
            for v, tb in t['targets']:
                reg = b.reachable(tb, avoid=(targets - {tb}) | {src[0]} | above)
                info = dict(decoder=None, wire=None, repeat=False, calls=[])
                for bi, ct in b.calls():
                    if bi not in reg:
                        continue
                    nm = callee_name(ct) or ''
                    if nm.endswith('utils::Property>::read_value'):
                        aty = b.local_ty(op_place(ct['args'][0])['l']) if op_place(ct['args'][0]) else ''
                        m = re.search(r'Option<(.*)>$', aty.replace('&mut ', ''))
                        info['decoder'] = 'read_value'
                        info['wire'] = wire_type(m.group(1)) if m else None
                        info['ty'] = m.group(1) if m else aty
                    elif nm.endswith('utils::Decode>::decode') or re.search(r'as utils::Decode>::decode$|impl utils::Decode for .*>::decode$', nm):
                        dty = b.local_ty(ct['dest']['l'])
                        m = re.search(r'Result<(.*), error::DecodeError>$', dty)
                        info['decoder'] = info['decoder'] or 'decode'
                        info['wire'] = info['wire'] or (wire_type(m.group(1)) if m else None)
                        info['ty'] = info.get('ty') or (m.group(1) if m else dty)
                    elif nm.endswith('utils::decode_variable_length_cursor'):
                        info['decoder'] = info['decoder'] or 'varint'
                        info['wire'] = info['wire'] or 'VarInt'
                    elif re.search(r'::get_u8$', nm) and info['decoder'] is None:
                        info['decoder'] = 'get_u8'
                        info['wire'] = 'Byte'
                    elif re.search(r'Vec::<T, A>::push$', nm):
                        info['repeat'] = True
                    info['calls'].append(nm.split('::')[-1])
                # guarded single assignment (is_none check) counts as once-only as well
                info['once'] = (info['decoder'] == 'read_value') or any(c == 'is_none' or c == 'is_some' for c in info['calls'])
                # an explicit refusal inside the arm that is decided by how many values were already collected
                info['counted_refusal'] = any(c in ('is_empty', 'len', 'is_none', 'is_some', 'contains') for c in info['calls']) and any(bi in reg for bi, j, s in agg_sites(b, r'^std::result::Result$', 'Err'))
                table[v] = info
            oth = b.reachable(t['otherwise'], avoid=(targets - {t['otherwise']}) | {src[0]} | above)
            errs = [bi for bi, j, s in agg_sites(b, r'^std::result::Result$', 'Err') if bi in oth]
            oks = [bi for bi, j, s in agg_sites(b, r'^std::result::Result$', 'Ok') if bi in oth]
            back = src[0] in b.reachable(t['otherwise'], avoid=targets - {t['otherwise']})
            out.append((b, sb, table, dict(err=bool(errs), ok=bool(oks), loops_back=back)))
    return out


def packet_of(path):
    """Spec packet name for a decoder function path."""
    p = path
    table = [
        (r'connect::decode_last_will', 'Will'), (r'connect::Connect::decode', 'CONNECT'), (r'connack::ConnectAck::decode', 'CONNACK'),
        (r'publish::parse_publish_properties|publish::Publish::decode', 'PUBLISH'), (r'subscribe::Subscribe::decode', 'SUBSCRIBE'),
        (r'subscribe::Unsubscribe::decode', 'UNSUBSCRIBE'), (r'disconnect::Disconnect::decode', 'DISCONNECT'), (r'auth::Auth::decode', 'AUTH'),
        (r'ack_props::decode', 'ACKS'),
    ]
    for pat, name in table:
        if re.search(pat, p):
            return name
    return None
