"""C07 (structural part): typestate of the io dispatcher (src/io.rs) and teardown pairing.
stop-once: every control call carrying Control::Stop(..) is the argument of stop() (which stores
Stop(Some(fut))), such calls occur only in the Processing/Backpressure regions (and poll_service),
no second stop() can follow a stop() before the loop head, paths of poll_service that stopped return
Continue, and the Stop/Shutdown/ShutdownIo regions never call the control service and only move the
state forward. reason-map: each failure source is mapped to the right Control constructor.
cancel-after-stop: the `stopping` condition is notified only in the Shutdown region, which is entered
only after the control future returned Ready. drain: every dispatcher shutdown, every
Control::Stop arm of the control services and close/force_close/drop_sink reach clear_queues /
drop_payload; clear_queues clears waiters and in-flight entries. Liveness is not decided. error-wakes (continued): poll_service examines the recorded error before the readiness poll and before every exit; every Result that handle_result finds to be Err (completed item, queued item, write outcome) is stored into state.error; drain (continued): after every await of the window waiter that is followed by a send, the cancelled edge is tested and reaches no registration / wire write. drain (continued): after `payload.take()` no suspension point of a dispatcher coroutine is reachable before `payload.set(..)`: the sender every teardown path notifies is back in its cell whenever the task can be parked. stop-once (continued): a state store that follows poll_service() in the same poll round lies on its Ready edge (Continue means the dispatcher was just stopped). drain (continued): the waiter of a spawned handler task on `stopping` is created before the spawn.
"""
from facts import *
from disp import *
from symex import SymEx, skip_logging, term_has, term_str_v

ST = 'io::IoDispatcherState'
CONTROL_CALL = r'^ntex_service::PipelineBinding::<S, R>::call$'
STOP_CTORS = r'^control::Control::<E>::(err|proto|peer_gone)$'


def control_calls(b):
    """Calls of the control service (PipelineBinding::call on the `control` field): (block, term, kind)
    kind = constructor name of the Control value (err|proto|peer_gone|wr|?)"""
    out = []
    for bi, t in b.calls_to(CONTROL_CALL):
        ap = call_recv_path(b, t, 0)
        if not ap or ap[-1] != 'control':
            continue
        og = Origin(b).of_operand(t['args'][1])
        kinds = sorted({l[1].split('::')[-1] for l in og if l[0] == 'call' and l[1].startswith('control::Control')})
        out.append((bi, t, '+'.join(kinds) or '?'))
    return out


def loop_head(F, poll):
    sws = [sb for sb, place, adt, ty, t in discr_switches(poll, adt=ST)]
    if len(sws) != 1:
        raise AnchorLost('expected one switch over IoDispatcherState in Dispatcher::poll, found %d' % len(sws))
    return sws[0]


def stop_once(F, R):
    poll = F.one(r'^<io::Dispatcher<P, C, U, E> as std::future::Future>::poll$')
    ps = F.one(r'^io::DispatcherInner::<P, C, U, E>::poll_service$')
    # stop(fut) = `io.stop_timer(); st = Stop(Some(fut))`. When the function was merged into its callers (or replaced by a
    # helper that was spliced back) the same store appears in place: a "stop site" is a call of stop() or such a store.
    stopf = F.body('io::DispatcherInner::<P, C, U, E>::stop')
    head = loop_head(F, poll)
    arms = variant_edges(F, poll, ST)
    regions = {v: arm_region(poll, e) for v, e in arms.items() if not v.endswith('?')}
    for v in ('Processing', 'Backpressure', 'Stop', 'Shutdown', 'ShutdownIo'):
        if not regions.get(v):
            raise AnchorLost('state arm %s not found in Dispatcher::poll' % v)
    # stop() stores Stop(Some(fut))
    if stopf is not None:
        sts = state_stores(stopf)
        R.ob('C07.stop-once', 'io::DispatcherInner::stop|assigns Stop(Some(fut))', len(sts) == 1 and sts[0][1] == 'Stop',
             'stop() must assign st = Stop(Some(fut)); found %s' % [x[1] for x in sts])
    else:
        inline_stops = [x for b_ in (poll, ps) for x in state_stores(b_) if x[1] == 'Stop']
        R.ob('C07.stop-once', 'io::DispatcherInner::stop|assigns Stop(Some(fut))', len(inline_stops) >= 1,
             'neither a stop() function nor an in-place `st = Stop(Some(fut))` store was found: anchor lost')
    n_stop_calls = 0
    for b in (poll, ps):
        ccs = control_calls(b)
        stops = list(b.calls_to(r'^io::DispatcherInner::<P, C, U, E>::stop$')) + [(bi_, None) for bi_, var_, s_ in state_stores(b) if var_ == 'Stop']
        stop_blocks = {bi for bi, t in stops}
        for bi, t, kind in ccs:
            is_stop_kind = bool(re.search(r'err|proto|peer_gone|\?', kind))
            if not is_stop_kind:
                continue
            n_stop_calls += 1
            # (a) dest flows into stop() or directly into `st = Stop(Some(..))`
            lab = '/'.join(dominating_variants(b, bi)) or 'top'
            ok_a = flows_to_stop_state(b, bi, t['dest']['l'], stops)
            R.ob('C07.stop-once', '%s|control.call(Control::%s)@%s|enters-Stop-state' % (short(b), kind, lab), ok_a,
                 'a Stop notification is sent to the control service without entering the Stop state (stop() / st = Stop(Some(fut))): the dispatcher can notify again', b.loc(bi))
            # (b) region
            if b is poll:
                inreg = [v for v in ('Processing', 'Backpressure') if bi in regions[v]]
                R.ob('C07.stop-once', '%s|control.call(Control::%s)@%s|region' % (short(b), kind, lab), bool(inreg),
                     'Control::Stop is sent from state %s' % [v for v in regions if bi in regions[v]], b.loc(bi))
        # (c) no second stop before the loop head
        for bi, t in stops:
            avoid = {head} if b is poll else set()
            after = b.reachable_after(bi, avoid=avoid)
            again = sorted(x for x in stop_blocks if x in after)
            R.ob('C07.stop-once', '%s|stop()|no-second-stop|%s' % (short(b), stop_label(b, bi)), not again,
                 'after stop() another stop() is reachable before the state is re-examined (two Stop notifications for one connection)', b.loc(again[0]) if again else b.loc(bi))
        # control calls of any kind in later states
        if b is poll:
            for bi, t, kind in ccs:
                late = [v for v in ('Stop', 'Shutdown', 'ShutdownIo') if bi in regions[v]]
                R.ob('C07.stop-once', 'poll|control.call(Control::%s)@%s|not-in-late-states' % (kind, '/'.join(dominating_variants(b, bi)) or state_of(regions, bi)), not late, 'the control service is called from state %s' % late, b.loc(bi))
    R.floor('C07.stop-once', 'Stop-kind control calls', n_stop_calls, 9)
    # poll_service: paths that stopped return Continue
    stops = {bi for bi, t in ps.calls_to(r'^io::DispatcherInner::<P, C, U, E>::stop$')} | {bi_ for bi_, var_, s_ in state_stores(ps) if var_ == 'Stop'}
    readys = [bi for bi, j, s in agg_sites(ps, r'^io::PollService$', 'Ready')]
    bad = [r for r in readys if any(r in ps.reachable_after(s) for s in stops)]
    R.ob('C07.stop-once', 'poll_service|stopped=>Continue', bool(readys) and not bad, 'poll_service can report Ready after it has called stop(): poll would go on reading and may stop again')
    # poll: calls to poll_service: stops after it must be on the PollService::Ready edge
    pse = variant_edges(F, poll, 'io::PollService')
    ready_edges_ = list(pse.get('Ready', [])) + list(enum_eq_edges(F, poll, 'io::PollService').get('Ready', []))
    ready_region = arm_region(poll, ready_edges_)
    for bi, t in poll.calls_to(r'^io::DispatcherInner::<P, C, U, E>::poll_service$'):
        after = poll.reachable_after(bi, avoid={head})
        for sb, st in list(poll.calls_to(r'^io::DispatcherInner::<P, C, U, E>::stop$')) + [(bi_, None) for bi_, var_, s_ in state_stores(poll) if var_ == 'Stop']:
            if sb in after and sb in regions['Processing']:
                R.ob('C07.stop-once', 'poll|stop-after-poll_service|on-Ready-edge|%s' % stop_label(poll, sb), sb in ready_region,
                     'a stop() in the Processing arm is reachable when poll_service returned Continue (it may already have stopped)', poll.loc(sb))
    # ... and so must every state store that follows it in the same poll round: poll_service answers Continue exactly when it
    # has already moved the dispatcher on (Stop installed); a store made regardless overwrites that state and drops the
    # control call
    for bi, t in poll.calls_to(r'^io::DispatcherInner::<P, C, U, E>::poll_service$'):
        after = poll.reachable_after(bi, avoid={head})
        for sb_, var_, s_ in state_stores(poll):
            if sb_ in after and var_ in ('Processing', 'Backpressure'):
                R.ob('C07.stop-once', 'poll|state-store-after-poll_service|on-Ready-edge|%s@%s' % (var_, state_of(regions, sb_)), sb_ in ready_region,
                     'the dispatcher state is overwritten after poll_service() without looking at its answer: when poll_service has just stopped the dispatcher (handler error, readiness error, peer gone) the Stop state and its control call are lost - no Stop notification, the connection stays up', poll.loc(sb_))
    # handler tasks are cancellable from the moment they are spawned: the waiter on `stopping` is created in call_service,
    # before the spawn (a Condition waiter registers when it is created; one created inside the task misses a notify() that
    # happens before the task is first polled)
    cs_ = F.one(r'^io::DispatcherInner::<P, C, U, E>::call_service$')
    spawns_ = [bi for bi, t in cs_.calls_to(r'::spawn$')]
    waits_ = [bi for bi, t in cs_.calls_to(r'Condition(::<T>)?::wait$') if 'stopping' in (call_recv_path(cs_, t, 0) or ())]
    inside_ = [c.path for c in F.descendants(cs_) if list(c.calls_to(r'Condition(::<T>)?::wait$'))]
    R.ob('C07.drain', 'call_service|spawned-handler|stop-waiter-created-before-spawn', bool(spawns_) and bool(waits_) and all(any(cs_.dominates(w, sp) for w in waits_) for sp in spawns_) and not inside_,
         'the spawned handler task registers for the stop notification only when it is first polled (%s): a teardown that completes before that never cancels it - the handler and the dispatcher state it holds stay alive' % (inside_ or 'no wait() before spawn'), cs_.loc(spawns_[0]) if spawns_ else cs_.loc(0))
    # (d) transitions
    allowed = {'Processing': {'Backpressure', 'Stop'}, 'Backpressure': {'Processing', 'Stop'}, 'Stop': {'Shutdown'}, 'Shutdown': {'ShutdownIo'}, 'ShutdownIo': set()}
    n_tr = 0
    for bi, var, s in state_stores(poll):
        src = [v for v in regions if bi in regions[v]]
        n_tr += 1
        if src == ['Stop'] and var == 'Stop':
            # putting the taken control future back (`st = Stop(Some(fut))` for `*slot = Some(fut)`) is not a transition:
            # the stored value must not come from a new control call
            og_ = set()
            for op_ in (s['rv'].get('fields') or [s['rv'].get('op')]):
                if op_ is not None and op_place(op_) is not None:
                    og_ |= Origin(poll).of_operand(op_)
            cc_blocks = {x[0] for x in control_calls(poll)}
            if not any(l[0] == 'call' and isinstance(l[2], int) and l[2] in cc_blocks for l in og_) and any(l[0] == 'call' and re.search(r'Option::<T>::(take|unwrap|expect)$', l[1] or '') for l in og_):
                R.ob('C07.stop-once', 'poll|transition|Stop->Stop(put-back)', True, '', poll.loc(bi))
                continue
        R.ob('C07.stop-once', 'poll|transition|%s->%s' % ('+'.join(src) or '?', var), len(src) == 1 and var in allowed[src[0]],
             'state transition %s -> %s is not a forward transition of the teardown typestate' % (src, var), poll.loc(bi))
    R.floor('C07.stop-once', 'state transitions in poll', n_tr, 3)
    # stop() is called only from poll (Processing/Backpressure) and poll_service; poll_service only from those regions
    for caller, bi in (F.callers.get(stopf.path, []) if stopf is not None else []):
        ok = caller in (poll.path, ps.path)
        if caller == poll.path:
            ok = any(bi in regions[v] for v in ('Processing', 'Backpressure'))
        R.ob('C07.stop-once', 'stop()|caller|%s|%s' % (caller.split('::')[-1], stop_label(F.bodies[caller], bi)), ok, 'stop() is called from an unexpected place/state', F.bodies[caller].loc(bi))
    for caller, bi in F.callers.get(ps.path, []):
        ok = caller == poll.path and any(bi in regions[v] for v in ('Processing', 'Backpressure'))
        R.ob('C07.stop-once', 'poll_service|caller-region|%s' % state_of(regions, bi), ok, 'poll_service (which may stop) is called from a late state', F.bodies[caller].loc(bi))
    return poll, ps, regions, head


def state_stores(b):
    """Assignments to a field named `st` of an IoDispatcherState value: (block, variant, stmt)."""
    out = []
    for bi, j, s in b.assigns():
        if place_fields(s['lhs'])[-1:] != ['st']:
            continue
        rv = s['rv']
        if rv['k'] == 'agg' and rv.get('adt') == ST:
            out.append((bi, rv['variant'], s))
        elif rv['k'] == 'use':
            og = Origin(b).of_operand(rv['op'])
            for l in og:
                if l[0] == 'agg' and l[1].startswith(ST + '::'):
                    out.append((bi, l[1].split('::')[-1], s))
    return out


def state_of(regions, bi):
    return '+'.join(v for v in regions if bi in regions[v]) or 'top'


def flows_to_stop_state(b, bi, dest, stops):
    tainted = {dest}
    after = b.reachable_after(bi) | {bi}
    changed = True
    while changed:
        changed = False
        for xb, xj, s in b.assigns():
            if xb not in after:
                continue
            rv = s['rv']
            ops = []
            if rv['k'] == 'use':
                ops = [rv['op']]
            elif rv['k'] == 'agg':
                ops = rv['fields']
            if any(op_place(o) and op_place(o)['l'] in tainted for o in ops):
                if place_fields(s['lhs'])[-1:] == ['st']:
                    return True
                if s['lhs']['l'] not in tainted:
                    tainted.add(s['lhs']['l'])
                    changed = True
    for sb, st in stops:
        if st is not None and sb in after and op_place(st['args'][1]) and op_place(st['args'][1])['l'] in tainted:
            return True
    return False


def short(b):
    return b.path.split('::')[-1]


def stop_label(b, bi):
    """Semantic label of a stop() call: the Control constructor feeding it + dominating enum arms."""
    t = b.blocks[bi]['term']
    if t['k'] == 'call' and (callee_name(t) or '').endswith('::stop') and len(t['args']) > 1:
        og = Origin(b).of_operand(t['args'][1])
    else:
        # in-place `st = Stop(Some(fut))`
        og = set()
        for st_ in b.blocks[bi]['stmts']:
            if st_['k'] == 'assign' and place_fields(st_['lhs'])[-1:] == ['st'] and st_['rv']['k'] == 'agg':
                for f_ in st_['rv']['fields']:
                    og |= Origin(b).of_operand(f_)
    ctor = set()
    for l in og:
        if l[0] == 'call' and 'PipelineBinding' in l[1]:
            cb = l[2]
            og2 = Origin(b).of_operand(b.blocks[cb]['term']['args'][1])
            ctor |= {x[1].split('::')[-1] for x in og2 if x[0] == 'call' and x[1].startswith('control::Control')}
    labs = dominating_variants(b, bi)
    return '%s@%s' % ('+'.join(sorted(ctor)) or '?', '/'.join(labs) or 'top')


ENUMS_OF_INTEREST = ['ntex_io::RecvError', 'ntex_io::IoStatusUpdate', 'io::IoDispatcherError', 'error::DispatcherError', 'std::task::Poll', 'std::result::Result']


def dominating_variants(b, bi):
    labs = []
    for sb, place, adt, ty, t in discr_switches(b):
        if adt not in ('ntex_io::RecvError', 'ntex_io::IoStatusUpdate', 'io::IoDispatcherError', 'error::DispatcherError'):
            continue
        vs = b.facts.adts.get(adt)
        if not vs:
            continue
        byd = {v.get('discr', i): v['name'] for i, v in enumerate(vs['variants'])}
        for val, tb in t['targets']:
            if edge_dominates(b, sb, tb, bi):
                labs.append('%s::%s' % (adt.split('::')[-1], byd.get(val, val)))
        listed = {val for val, _ in t['targets']}
        rest = [d for d in byd if d not in listed]
        if len(rest) == 1 and edge_dominates(b, sb, t['otherwise'], bi):
            labs.append('%s::%s' % (adt.split('::')[-1], byd[rest[0]]))
    return labs


REASON_MAP = {
    'RecvError::KeepAlive': ('proto', None),
    'RecvError::Decoder': ('proto', 'Decode'),
    'RecvError::PeerGone': ('peer_gone', None),
    'IoStatusUpdate::KeepAlive': ('proto', 'KeepAliveTimeout'),
    'IoStatusUpdate::PeerGone': ('peer_gone', None),
    'IoDispatcherError::Encoder': ('proto', 'Encode'),
    'IoDispatcherError::Service/DispatcherError::Service': ('err', None),
    'IoDispatcherError::Service/DispatcherError::Protocol': ('proto', None),
    'DispatcherError::Service': ('err', None),
    'DispatcherError::Protocol': ('proto', None),
}


def reason_map(F, R, poll, ps):
    n = 0
    seen = set()
    for b in (poll, ps):
        for bi, t in b.calls_to(STOP_CTORS):
            ctor = callee_name(t).split('::')[-1]
            labs = dominating_variants(b, bi)
            lab = '/'.join(labs)
            n += 1
            arg = None
            if t['args']:
                og = Origin(b).of_operand(t['args'][0])
                pes = sorted({l[1].split('::')[-1] for l in og if l[0] == 'agg' and l[1].startswith('error::ProtocolError')})
                arg = pes[0] if len(pes) == 1 else None
            if lab in REASON_MAP:
                wc, wa = REASON_MAP[lab]
                ok = ctor == wc and (wa is None or arg == wa)
                R.ob('C07.reason-map', '%s|%s=>Control::%s(%s)' % (short(b), lab, ctor, arg or ''), ok,
                     'failure source %s is reported as Control::%s(%s); expected Control::%s(%s)' % (lab, ctor, arg, wc, wa or '..'), b.loc(bi))
                seen.add(lab)
            elif lab == '':
                # poll_flush error in the Backpressure arm: peer_gone
                R.ob('C07.reason-map', '%s|unlabelled=>Control::%s' % (short(b), ctor), ctor == 'peer_gone', 'an i/o error outside the decoded-item match must be reported as peer-gone', b.loc(bi))
            else:
                R.ob('C07.reason-map', '%s|%s=>Control::%s' % (short(b), lab, ctor), False, 'unreviewed failure source -> control mapping', b.loc(bi))
    R.floor('C07.reason-map', 'Control::{err,proto,peer_gone} constructions', n, 9)
    must = ['RecvError::KeepAlive', 'RecvError::Decoder', 'RecvError::PeerGone', 'IoStatusUpdate::KeepAlive', 'IoStatusUpdate::PeerGone', 'IoDispatcherError::Encoder',
            'IoDispatcherError::Service/DispatcherError::Service', 'IoDispatcherError::Service/DispatcherError::Protocol']
    for m in must:
        R.ob('C07.reason-map', 'covered|%s' % m, m in seen, 'failure source %s no longer ends in a Stop notification' % m)
    # handle_timeout: KeepAliveTimeout only under KA_TIMEOUT, ReadTimeout only under READ_TIMEOUT (checked in C20)


def cancel_after_stop(F, R, poll, regions):
    nots = [(bi, t) for bi, t in poll.calls_to(r'ntex_util::channel::condition::Condition::<T>::notify$')]
    alln = []
    for b in F.find(r'^(<)?io::'):
        for bi, t in b.calls_to(r'ntex_util::channel::condition::Condition::<T>::notify(_and_lock_readiness)?$'):
            alln.append((b.path, bi))
    R.ob('C07.cancel-after-stop', 'stopping.notify|single-site', len(nots) == 1 and len(alln) == 1, 'found %d notify sites on the stopping condition (in poll: %d)' % (len(alln), len(nots)))
    for bi, t in nots:
        R.ob('C07.cancel-after-stop', 'stopping.notify|in-Shutdown-region', bi in regions['Shutdown'], 'handlers are cancelled from state %s' % [v for v in regions if bi in regions[v]], poll.loc(bi))
    # Shutdown is assigned only in Stop region on the Ready edge of the control future poll
    polls = [(bi, t) for bi, t in poll.calls_to(r'as std::future::Future>::poll$') if bi in regions['Stop']]
    ready_edges = []
    for bi, t in polls:
        r = discr_switch_after_call(poll, bi)
        if r:
            sb, tg, oth = r
            ready_edges.append((sb, tg.get(0, oth)))
    R.ob('C07.cancel-after-stop', 'Stop-arm|polls-control-future', len(ready_edges) == 1, 'expected one poll of the control future in the Stop arm, found %d' % len(ready_edges))
    for bi, var, s in state_stores(poll):
        if var != 'Shutdown':
            continue
        ok = bi in regions['Stop'] and any(edge_dominates(poll, sb, tb, bi) for sb, tb in ready_edges)
        R.ob('C07.cancel-after-stop', 'Shutdown|entered-after-control-ready', ok, 'the Shutdown state (which cancels running handlers) is entered before the control service has handled the Stop notification', poll.loc(bi))


def drain(F, R):
    for d in all_dispatchers(F):
        b = d.shutdown
        closers = {bi for bi, t in b.calls_to(r'%s::shared::MqttShared::(close|drop_sink|force_close)$' % d.ver)}
        dps = {bi for bi, t in b.calls_to(r'::drop_payload$')}
        rets = set(b.returns())
        R.ob('C07.drain', '%s|shutdown|clear_queues' % d.name, bool(closers) and not (rets & b.reachable(0, avoid=closers)),
             'Dispatcher::shutdown can complete without close()/drop_sink()/force_close() (-> clear_queues): pending sends / readiness futures stay unresolved')
        R.ob('C07.drain', '%s|shutdown|drop_payload' % d.name, bool(dps) and not (rets & b.reachable(0, avoid=dps)), 'Dispatcher::shutdown does not fail the streaming payload reader')
        # ... and it fails the slot the PayloadChunk arm feeds, not some other cell
        def slots(body, blocks=None):
            out = set()
            for xb, t in body.calls():
                nm = callee_name(t) or ''
                if blocks is not None and xb not in blocks:
                    continue
                if re.search(r'Cell::<T>::(take|set|replace)$', nm) and t['args']:
                    p0 = op_place(t['args'][0])
                    work_ = [p0['l']] if p0 else []
                    seen_ = set()
                    while work_ and len(seen_) < 12:
                        l_ = work_.pop()
                        if l_ in seen_:
                            continue
                        seen_.add(l_)
                        for dd in body.whole_defs(l_):
                            if dd[2] != 'assign':
                                continue
                            rv_ = dd[3]['rv']
                            if rv_['k'] == 'ref':
                                hit_ = False
                                for e in place_proj(rv_['place']):
                                    if isinstance(e, dict) and e.get('f') == 'payload':
                                        out.add((e.get('adt'), e['f']))
                                        hit_ = True
                                if not hit_:
                                    work_.append(rv_['place']['l'])  # reborrow `&*slot`
                            elif rv_['k'] == 'use' and op_place(rv_['op']) is not None:
                                work_.append(op_place(rv_['op'])['l'])  # the reference handed to a (spliced) helper
            return out
        fed = slots(d.call, d.arm('PayloadChunk'))
        failed = set()
        for xb, t in b.calls_to(r'::drop_payload$'):
            for q in F.call_targets(t):
                if q in F.bodies:
                    failed |= slots(F.bodies[q])
        R.ob('C07.drain', '%s|shutdown|fails-the-payload-slot-the-chunks-are-fed-to' % d.name, bool(fed) and fed <= failed,
             'payload chunks are fed through %s but shutdown() fails %s: a reader of a streamed payload is never told that the connection ended' % (sorted(map(str, fed)), sorted(map(str, failed))), b.loc(0))
        ys = set(b.yields())
        early = ys & b.reachable(0, avoid=closers)
        R.ob('C07.drain', '%s|shutdown|closes-before-first-await' % d.name, bool(closers) and not early,
             'Dispatcher::shutdown awaits (handler/control shutdown) before closing the sink and io: handlers still running keep the connection writable after the Stop notification '
             '(responses after the final DISCONNECT, sends that never resolve)', b.loc(sorted(early)[0]) if early else None)
    for ver in ('v3', 'v5'):
        cq = F.one(r'^%s::shared::MqttShared::clear_queues$' % ver)
        w = calls_on_field(cq, r'VecDeque::<T, A>::clear$', 'waiters')
        i1 = calls_on_field(cq, r'VecDeque::<T, A>::(clear|drain)$', 'inflight')
        R.ob('C07.drain', '%s|clear_queues|waiters.clear' % ver, bool(w), 'clear_queues does not drop the parked senders')
        import c13
        oks = c13.waiter_sends(cq)
        R.ob('C07.drain', '%s|clear_queues|parked-parties-are-dropped-not-woken' % ver, not oks,
             'clear_queues wakes a parked sender / payload stream with a success signal instead of dropping it: the parked operation resumes as if the connection were alive (writes into the closed io, reports Ok) instead of failing with Disconnected', cq.loc(oks[0][0]) if oks else None)
        # every path clears inflight: returns not reachable avoiding the clear/drain blocks
        R.ob('C07.drain', '%s|clear_queues|inflight cleared on all paths' % ver, emptied_before_returns(cq, 'inflight')[0], 'a path through clear_queues keeps outstanding reply channels alive')
        for fn in ('close', 'force_close', 'drop_sink'):
            b = F.body('%s::shared::MqttShared::%s' % (ver, fn))
            if b is None:
                if ver == 'v3' and fn == 'drop_sink':
                    continue
                raise AnchorLost('%s::shared::MqttShared::%s' % (ver, fn))
            calls = must_call_blocks(F, b, r'%s::shared::MqttShared::clear_queues$' % ver)
            ok = bool(calls) and not (set(b.returns()) & b.reachable(0, avoid=calls))
            R.ob('C07.drain', '%s|%s|reaches clear_queues on all paths' % (ver, fn), ok, '%s() can return without clearing the queues' % fn)
        # control service: each Control::Stop(..) arm drops the payload
        cs = F.one(r'^<%s::default::ControlService<S, E> as ntex_service::Service<control::Control<E>>>::call::\{closure#0\}$' % ver)
        re_ = variant_edges(F, cs, 'control::Reason')
        n = 0
        for v in ('Error', 'Protocol', 'PeerGone'):
            reg = arm_region(cs, re_.get(v, []))
            fam_calls = [bi for bi, t in cs.calls_to(r'%s::shared::MqttShared::drop_payload' % ver) if bi in reg]
            n += 1
            R.ob('C07.drain', '%s|ControlService::call|Stop(Reason::%s)|drop_payload' % (ver, v), bool(reg) and bool(fam_calls), 'the Stop(%s) arm does not fail the payload reader' % v)
        # forwards to the user control service on all paths
        fw = [bi for bi, t in cs.calls_to(r"^ntex_service::ServiceCtx::<'a, S>::call$")]
        R.ob('C07.drain', '%s|ControlService::call|forwards' % ver, len(fw) >= 1, 'the Stop notification is not forwarded to the application control service')


def error_wakes(F, R):
    """A handler error must wake the io dispatcher: handle_result returns true on every path where the
    current item is Err (its callers notify the dispatcher on true), and the spawned response task
    calls notify_dispatcher() on the true edge."""
    b = F.one(r'^io::DispatcherState::<P, U>::handle_result$')
    se = SymEx(b, F, call_model=skip_logging, loop_visits=1, max_paths=5000)
    paths = [p for p in se.run() if p.end[0] == 'return']
    R.ob('C07.error-wakes', 'handle_result|paths-enumerated', not se.truncated and len(paths) >= 6, '%d paths' % len(paths))
    seen = set()
    for p in paths:
        is_err = None
        for t, c in p.conds:
            if t[0] == 'call' and t[1].endswith('Result::<T, E>::is_err'):
                is_err = (c != ('eq', 0))
            if t[0] == 'discr' and t[1] == ('arg', 2):
                if c == ('eq', 1):
                    is_err = True if is_err is None else is_err
        head = None
        for t, c in p.conds:
            if t[0] == 'bin' and t[1] in ('Eq', 'Ne') and term_has(t, 'wrapping_sub'):
                head = (c != ('eq', 0)) == (t[1] == 'Eq')
        if is_err is not True:
            continue
        ret = p.ret
        ok = ret is not None and ret[0] == 'const' and ret[1] == 1
        ok = ok or (ret is not None and ret[0] == 'call' and ret[1].endswith('is_err'))
        key = 'handle_result|item=Err|head=%s|returns-true' % head
        if key in seen:
            continue
        seen.add(key)
        R.ob('C07.error-wakes', key, ok, 'handle_result can return %s for a failed handler: the spawned response task then does not wake the io dispatcher, no Stop(Error) is delivered while other handlers are still running' % (term_str_v(ret) if ret else None))
    R.ob('C07.error-wakes', 'handle_result|error-paths-seen', len(seen) >= 2, 'expected error paths for head and non-head positions, saw %s' % sorted(seen))
    cs = F.one(r'^io::DispatcherInner::<P, C, U, E>::call_service::\{closure#0\}$')
    hrs = [(bi, t) for bi, t in cs.calls_to(r'^io::DispatcherState::<P, U>::handle_result$')]
    nts = [bi for bi, t in cs.calls_to(r'IoRef>::notify_dispatcher$')]
    ok = bool(hrs) and bool(nts)
    # the bool produced by handle_result is the branch condition guarding notify_dispatcher
    sw = None
    for sb in sorted(cs.live):
        t = cs.blocks[sb]['term']
        if t['k'] == 'switch' and any(sb in cs.reachable_after(h) for h, _ in hrs):
            og = Origin(cs).of_operand(t['discr'])
            if any(l[0] == 'call' and l[1].endswith('handle_result') for l in og):
                zero = [tb for v, tb in t['targets'] if v == 0]
                if zero and all(edge_dominates(cs, sb, t['otherwise'], n) for n in nts):
                    sw = sb
    R.ob('C07.error-wakes', 'call_service::spawned-task|true=>notify_dispatcher', ok and sw is not None, 'the spawned response task must call notify_dispatcher() exactly when handle_result returned true')


def waiter_cancel_ends_send(F, R):
    """Teardown drops the parked senders' wake-up channels (clear_queues): a send that was waiting for the window must
    then end with an error. After every await of such a waiter the result is tested and the cancelled edge reaches
    neither a registration in the outstanding queue nor a wire write - otherwise the send re-registers after the
    queues were cleared and waits for an acknowledgement that can never come."""
    n = 0
    for ver in ('v3', 'v5'):
        for b in F.find(r'^(<)?%s::(sink|shared)::' % ver):
            if not b.is_coroutine:
                continue
            for a in await_points(b):
                t = b.blocks[a['poll']]['term']
                p0 = op_place(t['args'][0]) if t['args'] else None
                if p0 is None or 'pool::Receiver<()>' not in b.local_ty(p0['l']):
                    continue
                SENDS = r'::shared::MqttShared::(wait_response|wait_publish_response|wait_publish_response_no_block|encode_packet|encode_publish)$|IoRef>::encode$|::sink::PublishBuilder::\w+_inner$'
                if not [1 for bi, ct in b.calls() if bi in b.reachable(a['ready']) and re.search(SENDS, callee_name(ct) or '')]:
                    continue  # nothing is sent after this await (e.g. MqttSink::ready returns the outcome itself)
                n += 1
                tainted = {t['dest']['l']}
                changed = True
                kind = {}  # local -> 'is_err' | 'is_ok' | 'discr'
                while changed:
                    changed = False
                    for bi, j, s_ in b.assigns():
                        l = s_['lhs']['l']
                        if l in tainted:
                            continue
                        rv = s_['rv']
                        ops = [rv.get('op'), rv.get('a'), rv.get('b')] + list(rv.get('fields') or [])
                        pls = [op_place(o) for o in ops if o] + ([rv['place']] if rv.get('place') else [])
                        if any(pl is not None and pl['l'] in tainted for pl in pls):
                            tainted.add(l)
                            if rv['k'] == 'discr':
                                kind[l] = 'discr'
                            changed = True
                    for bi, ct in b.calls():
                        l = ct['dest']['l']
                        if l in tainted:
                            continue
                        nm = callee_name(ct) or ''
                        if any(op_place(x) is not None and op_place(x)['l'] in tainted for x in ct['args']) and re.search(r'::(is_err|is_ok|map_err|map|branch|from_residual|ok|err|is_some|is_none)$', nm):
                            tainted.add(l)
                            base = nm.split('::')[-1]
                            if base in ('is_err', 'is_none'):
                                kind[l] = 'is_err'
                            elif base in ('is_ok', 'is_some'):
                                kind[l] = 'is_ok'
                            changed = True
                after = b.reachable(a['ready'])
                tests = []
                for sb in sorted(after):
                    tt = b.blocks[sb]['term']
                    if tt['k'] != 'switch':
                        continue
                    pl = op_place(tt['discr'])
                    if pl is None or pl['l'] not in tainted or pl['l'] == t['dest']['l']:
                        continue
                    k = kind.get(pl['l'])
                    if k is None:
                        ds = b.whole_defs(pl['l'])
                        k = 'discr' if any(d[2] == 'assign' and d[3]['rv']['k'] == 'discr' for d in ds) else None
                        if k is None:
                            # bool copied from is_err()/is_ok()
                            for d in ds:
                                if d[2] == 'assign' and d[3]['rv']['k'] == 'use' and op_place(d[3]['rv']['op']) is not None:
                                    k = kind.get(op_place(d[3]['rv']['op'])['l'])
                    if k is None:
                        continue
                    tg = dict((v, x) for v, x in tt['targets'])
                    if k == 'is_err':
                        err_t, ok_t = tt['otherwise'], tg.get(0)
                    elif k == 'is_ok':
                        err_t, ok_t = tg.get(0), tt['otherwise']
                    else:
                        err_t, ok_t = tg.get(1, tt['otherwise']), tg.get(0)
                    if err_t is not None:
                        tests.append((sb, err_t, ok_t))
                key = '%s|await(window waiter)' % re.sub(r'(::\{closure#\d+\})+$', '', b.path)
                if not tests:
                    R.ob('C07.drain', key + '|cancelled-wake-up-is-tested', False,
                         'the result of awaiting the window waiter is ignored: when teardown drops the waiter the send continues, registers a new outstanding entry after the queues were cleared and never resolves', b.loc(a['poll']))
                    continue
                sb, err_t, ok_t = tests[0]
                reg = b.reachable(err_t, avoid=[x for x in [ok_t] if x is not None])
                bad = [bi for bi, ct in b.calls() if bi in reg and re.search(r'::shared::MqttShared::(wait_response|wait_publish_response|wait_publish_response_no_block|encode_packet|encode_publish)$|IoRef>::encode$|::sink::PublishBuilder::\w+_inner$', callee_name(ct) or '')]
                R.ob('C07.drain', key + '|cancelled-wake-up-ends-the-send', not bad,
                     'on the cancelled edge of the window waiter the send still registers / writes: after teardown it waits for an acknowledgement that can never arrive', b.loc(bad[0]) if bad else b.loc(sb))
    R.floor('C07.drain', 'awaits of the window waiter in sink/shared', n, 4)


def every_error_recorded(F, R):
    """handle_result examines three kinds of results - the completed item, items parked in the response queue, and the
    outcome of writing a response. Whenever one of them is tested and found to be Err, the error is stored into
    `state.error` before the function returns or takes the next item: a failed request that is silently dropped is
    neither processed nor reported, and the connection stays open."""
    b = F.one(r'^io::DispatcherState::<P, U>::handle_result$')
    sets = {bi for bi, t in b.calls_to(r'^std::cell::Cell::<T>::set$') if (call_recv_path(b, t, 0) or ('',))[-1] == 'error'}
    n = 0
    seen_tys = set()
    for sb in sorted(b.live):
        t = b.blocks[sb]['term']
        if t['k'] != 'switch':
            continue
        pl = op_place(t['discr'])
        if pl is None:
            continue
        src_ty = None
        for d in b.whole_defs(pl['l']):
            if d[2] == 'assign' and d[3]['rv']['k'] == 'discr':
                q = d[3]['rv']['place']
                ty = b.local_ty(q['l'])
                projs = place_proj(q)
                if not [e for e in projs if e != '*'] and ty.lstrip('&').replace('mut ', '').startswith('std::result::Result<'):
                    src_ty = ty
        if src_ty is None:
            continue
        tg = dict((v, x) for v, x in t['targets'])
        err_t = tg.get(1, t['otherwise'])
        ok_t = tg.get(0, t['otherwise'])
        if err_t == ok_t:
            continue
        n += 1
        kind = 'write-outcome' if 'EncodeError' in src_ty else 'handler-result'
        seen_tys.add(kind)
        reach = b.reachable(err_t, avoid=sets | {ok_t})
        bad = (set(b.returns()) & reach) or (sb in reach)
        R.ob('C07.error-wakes', 'handle_result|%s|Err=>recorded' % kind, not bad and bool(sets),
             'a result found to be Err in handle_result is not stored into state.error on every path: the failure is dropped, no Control::Stop is produced and the connection stays open', b.loc(sb))
    R.floor('C07.error-wakes', 'Result tests in handle_result', n, 2)
    R.ob('C07.error-wakes', 'handle_result|queued-results-tested', True, 'kinds seen: %s' % sorted(seen_tys))
    # every item taken from the response queue goes through such a test: the taken value is a Result whose discriminant is read
    takes = [(bi, t) for bi, t in b.calls() if re.search(r'io::ServiceResult::<T>::take$|and_then$', callee_name(t) or '') and 'ServiceResult' in json_str(t)]
    for bi, t in takes:
        if not (callee_name(t) or '').endswith('and_then'):
            continue
        reg = b.reachable_after(bi)
        tested = False
        for sb in sorted(reg):
            tt = b.blocks[sb]['term']
            if tt['k'] != 'switch':
                continue
            og = Origin(b).of_operand(tt['discr'])
            pl = op_place(tt['discr'])
            for d in (b.whole_defs(pl['l']) if pl else []):
                if d[2] == 'assign' and d[3]['rv']['k'] == 'discr':
                    q = d[3]['rv']['place']
                    if b.local_ty(q['l']).startswith('std::result::Result<') and any(l[0] == 'call' and l[2] == bi for l in Origin(b).of_operand({'cp': {'l': q['l']}})):
                        tg = dict((v, x) for v, x in tt['targets'])
                        if tg.get(1, tt['otherwise']) != tg.get(0, tt['otherwise']):
                            tested = True
        R.ob('C07.error-wakes', 'handle_result|queued-item|Err-case-distinguished', tested,
             'a result taken from the response queue is used without distinguishing its Err case: a queued failure (a request that failed synchronously behind pending ones) is discarded', b.loc(bi))


def json_str(t):
    import json as _j
    return _j.dumps(t.get('func'))


def error_first(F, R):
    """poll_service acts on a recorded handler / encoder error before anything that can leave the function without
    having looked at it: every return of poll_service is dominated by `state.error.take()`. Checked behind the
    service readiness poll instead, the error is ignored for as long as the service is not ready (back-pressure):
    no Stop reaches the control service, nothing is released, and a later peer close reports PeerGone instead."""
    ps = F.one(r'^io::DispatcherInner::<P, C, U, E>::poll_service$')
    takes = {bi for bi, t in ps.calls_to(r'^std::cell::Cell::<T>::take$') if (call_recv_path(ps, t, 0) or ('',))[-1] == 'error'}
    R.ob('C07.error-wakes', 'poll_service|reads-the-recorded-error', bool(takes), 'poll_service does not consult state.error', ps.loc(0))
    if takes:
        late = [r for r in ps.returns() if r in ps.reachable(0, avoid=takes)]
        ready = [bi for bi, t in ps.calls() if re.search(r'::poll_ready$', callee_name(t) or '')]
        before = [x for x in ready if x in ps.reachable(0, avoid=takes)]
        R.ob('C07.error-wakes', 'poll_service|recorded-error-examined-before-readiness-and-every-exit', not late and not before,
             'poll_service can return (or poll the service readiness) without having examined the recorded error: while the service is not ready a failed handler never stops the connection', ps.loc((late or before or [0])[0]))


def sender_visible_while_suspended(F, R):
    """Every teardown path tells the payload reader about the end of the connection through the sender stored in
    MqttShared::payload (drop_payload takes it from there). Code that takes the sender out of the cell therefore puts it (or a
    clone) back before it suspends: from a `payload.take()` no suspension point of the coroutine is reachable without passing
    `payload.set(..)`. A sender held in a local across an await is invisible to shutdown()/ControlService/control_pkt while the
    task is parked, and the reader sees a clean end of a truncated payload instead of an error."""
    n = 0
    for b in F.find(r'^(<)?v[35]::'):
        takes = [bi for bi, t, ap in calls_on_field(b, r'Cell::<T>::take$', 'payload')]
        if not takes or not b.d.get('coroutine') and not b.yields():
            continue
        sets = {bi for bi, t, ap in calls_on_field(b, r'Cell::<T>::set$', 'payload')}
        ys = set(b.yields())
        for bi in takes:
            n += 1
            bad = sorted(ys & b.reachable_after(bi, avoid=sets))
            R.ob('C07.drain', '%s|payload.take()|sender-back-in-the-cell-before-any-suspension' % (re.sub(r'^<', '', b.path).split(' as ')[0].split('<')[0] + '::' + (re.findall(r'>::(\w+)', b.path) or [b.path.split('::')[-1]])[-1]), not bad,
                 'after payload.take() the task can suspend (await) while the sender is held only in a local: a connection that ends meanwhile cannot fail the payload reader', b.loc(bad[0]) if bad else b.loc(bi))
    R.floor('C07.drain', 'payload.take() sites in suspendable dispatcher code', n, 6)


def run(F, R):
    sender_visible_while_suspended(F, R)
    error_wakes(F, R)
    error_first(F, R)
    every_error_recorded(F, R)
    waiter_cancel_ends_send(F, R)
    poll, ps, regions, head = stop_once(F, R)
    reason_map(F, R, poll, ps)
    cancel_after_stop(F, R, poll, regions)
    drain(F, R)
    import c16
    msgs = c16.stop_some(F)
    R.ob('C07.nopanic', 'poll|stop.take().unwrap()|Stop-holds-Some', not msgs, '; '.join(msgs) or 'every Stop(..) construction wraps Some and the Stop arm restores it on Pending')
    ht = F.one(r'^io::DispatcherInner::<P, C, U, E>::handle_timeout$')
    import panics
    asserts = [s for s in panics.sites(ht) if s['kind'] == 'assert']
    R.ob('C07.nopanic', 'handle_timeout|no-overflow-assert', not asserts, 'handle_timeout contains unchecked arithmetic on the read-rate counters (%s): the buffered byte count can shrink between two ticks' % [s['what'] for s in asserts],
         asserts[0]['loc'] if asserts else None)
    R.assume('queue[idx] in handle_result relies on the C04 index invariant (runtime integers), listed as assumed in C16')
