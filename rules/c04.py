"""C04 (necessary conditions in src/io.rs): queue-head: each of the four response writes is behind
the head condition (handle_result: `idx == 0` edge, drain loop: taken from the queue front while in the
head branch; call_service inline fast path: nothing pending and queue empty; Stop arm: control
answer after the state left Processing); park: on the `idx != 0` edge a result is stored into its slot
(or the error recorded) and nothing is written; slot-per-call: every path that leaves a handler
future pending pushes exactly one Pending slot and takes its index from base + queue.len() read
before the push; every pop of the queue advances base by one; control-serial: both server factories
wrap the control service in InFlightService(1) inside BufferService(16). The wrapping index
arithmetic for all completion permutations is a statement about runtime integers and is not decided. park (continued): once the parked handler future was taken out of `state.response`, no return is reachable before it is put back, completed (handle_result) or found absent. no-drop (continued): the connection-level Encoder/Decoder (MqttShared) hands every item to the protocol codec on every path and reports Ok only where the codec did; answered (continued): a SUBSCRIBE / UNSUBSCRIBE / PUBLISH arm yields the empty answer only on the connection-closed edge or on the duplicate-id edge whose answer was written directly. answered (continued): every answer kind of the MQTT 3.1.1 control service that stands for a request yields its packet on every path of its arm in Inner::control; no-drop (continued): every Ok exit of the protocol codecs' Encoder::encodev has passed a call that received the output buffer. answered (continued): the PINGREQ arm of the dispatchers never yields an empty answer outside the connection-closing edge. control-serial (continued): ready() of all four dispatchers polls the control pipeline (a protocol message parked in its buffer is released only from there).
"""
from facts import *
from disp import agg_sites

IO_ENCODE = r'^ntex_io::.*IoRef>::encode$'


def queue_head(F, R):
    hr = F.one(r'^io::DispatcherState::<P, U>::handle_result$')
    encs = [(bi, t) for bi, t in hr.calls_to(IO_ENCODE)]
    R.ob('C04.queue-head', 'handle_result|encode-sites', len(encs) >= 1, 'found %d response writes in handle_result' % len(encs))
    # idx == 0 edge
    head_edges = []
    for sb in sorted(hr.live):
        t = hr.blocks[sb]['term']
        if t['k'] != 'switch':
            continue
        p = op_place(t['discr'])
        if not p:
            continue
        for (xb, xs, kind, x) in hr.whole_defs(p['l']):
            if kind == 'assign' and x['rv']['k'] == 'bin' and x['rv']['op'] in ('Eq', 'Ne') and (const_val(x['rv']['a']) == 0 or const_val(x['rv']['b']) == 0):
                other = x['rv']['b'] if const_val(x['rv']['a']) == 0 else x['rv']['a']
                og = Origin(hr).of_operand(other)
                if any(l[0] == 'call' and l[1].endswith('wrapping_sub') for l in og):
                    r = bool_branch(hr, sb, p['l'])
                    if r:
                        head_edges.append((sb, r[1] if x['rv']['op'] == 'Eq' else r[2], r[2] if x['rv']['op'] == 'Eq' else r[1]))
    R.ob('C04.queue-head', 'handle_result|idx==0-test', len(head_edges) == 1, 'found %d tests of `response_idx - base == 0`' % len(head_edges))
    for k, (bi, t) in enumerate(encs):
        ok = any(edge_dominates(hr, s, h, bi) for s, h, nh in head_edges)
        in_loop = bi in hr.reachable_after(bi)
        R.ob('C04.queue-head', 'handle_result|encode#%d(%s)|behind-head-condition' % (k + 1, 'drain-loop' if in_loop else 'head'), ok,
             'a response is written although its request is not the oldest outstanding one: responses leave out of order', hr.loc(bi))
        if in_loop:
            # the item written in the loop comes from the queue front (front_mut().and_then(take))
            og = Origin(hr, transparent=re.compile(TRANSPARENT_CALLS.pattern[:-2] + r'|and_then)$')).of_operand(t['args'][1])
            ok2 = any(l[0] == 'call' and (l[1].endswith('front_mut') or l[1].endswith('and_then') or l[1].endswith('pop_front')) for l in og)
            R.ob('C04.queue-head', 'handle_result|drain-loop|item-from-queue-front', ok2, 'the drained response does not come from the front of the queue (origin %s)' % sorted(l[1] for l in og if l[0] == 'call')[:4], hr.loc(bi))
    # park
    for s, h, nh in head_edges:
        reg = hr.reachable(nh, avoid=[h])
        bad = [bi for bi, t in encs if bi in reg]
        stores = [bi for bi, t in hr.calls_to(r'as std::ops::IndexMut<.*>>::index_mut$') if bi in reg and (call_recv_path(hr, t, 0) or ('',))[-1] == 'queue' or bi in reg and 'queue' in (call_recv_path(hr, t, 0) or ())]
        errs = [bi for bi, t in hr.calls_to(r'^std::cell::Cell::<T>::set$') if bi in reg and (call_recv_path(hr, t, 0) or ('',))[-1] == 'error']
        R.ob('C04.park', 'handle_result|idx!=0|no-write', not bad, 'a non-head result is written immediately', hr.loc(bad[0]) if bad else None)
        R.ob('C04.park', 'handle_result|idx!=0|stored-or-error-recorded', bool(stores) and bool(errs), 'a non-head result must be parked in its queue slot (Ok) or recorded as the connection error (Err)')
        # the slot index is idx
        for bi, t in hr.calls_to(r'as std::ops::IndexMut<.*>>::index_mut$'):
            if bi in reg:
                og = Origin(hr).of_operand(t['args'][1])
                R.ob('C04.park', 'handle_result|idx!=0|slot=response_idx-base', any(l[0] == 'call' and l[1].endswith('wrapping_sub') for l in og), 'the parked result is stored at an index that is not response_idx - base', hr.loc(bi))
    # pops advance base
    pops = [bi for bi, t, ap in calls_on_field(hr, r'VecDeque::<T, A>::pop_front$', 'queue')] or [bi for bi, t in hr.calls_to(r'VecDeque::<T, A>::pop_front$')]
    sets = {bi for bi, t in hr.calls_to(r'^std::cell::Cell::<T>::set$') if (call_recv_path(hr, t, 0) or ('',))[-1] == 'base'}
    R.ob('C04.queue-head', 'handle_result|pop-sites', len(pops) >= 1, 'found %d pops of the response queue' % len(pops))
    for k, pb in enumerate(pops):
        nxt = hr.reachable_after(pb, avoid=sets)
        bad = (set(pops) | set(hr.returns()) | {bi for bi, t in encs}) & nxt
        R.ob('C04.queue-head', 'handle_result|pop#%d|base+=1' % (k + 1), bool(sets) and not bad, 'the queue is popped without advancing `base`: later slot indices point one entry too far', hr.loc(pb))
    for bi, t in hr.calls_to(r'^std::cell::Cell::<T>::set$'):
        if bi in sets:
            og = Origin(hr).of_operand(t['args'][1])
            ok = False
            for l in og:
                if l[0] == 'call' and l[1].endswith('wrapping_add'):
                    wt = hr.blocks[l[2]]['term']
                    ok = const_val(wt['args'][1]) == 1 and 'base' in (apath(hr, wt['args'][0]) or ())
            R.ob('C04.queue-head', 'handle_result|base.set(base.wrapping_add(1))#%s' % ('loop' if bi in hr.reachable_after(bi) else 'head'), ok, 'base must advance by exactly one per popped slot', hr.loc(bi))
    # drain: once the head slot was popped, every return passes the check of the next queue front
    # (completed responses parked behind the head are written now; otherwise they and everything after them are stuck)
    fronts = [bi for bi, t in hr.calls_to(r'VecDeque::<T, A>::front_mut$|VecDeque::<T, A>::front$')]
    for s_, h, nh in head_edges:
        head_pops = [pb for pb in pops if pb in hr.reachable(h, avoid=[nh])]
        if not head_pops or not fronts:
            R.ob('C04.queue-head', 'handle_result|head|parked-responses-drained-before-return', False, 'head pop / drain loop not found', hr.loc(h))
            continue
        # after every pop on the head side (the head's own slot, or a drained one) the next front is examined before returning
        skipping = []
        for hp in head_pops:
            tgt = hr.blocks[hp]['term'].get('target', hp)
            skipping += [r_ for r_ in hr.returns() if r_ in hr.reachable(tgt, avoid=fronts)]
        R.ob('C04.queue-head', 'handle_result|head|parked-responses-drained-before-return', not skipping,
             'after the oldest request completed the function can return without looking at the next slots: responses that finished earlier stay parked forever', hr.loc(head_pops[0]))
    # call_service inline fast path
    cs = F.one(r'^io::DispatcherInner::<P, C, U, E>::call_service$')
    encs = [(bi, t) for bi, t in cs.calls_to(IO_ENCODE)]
    R.ob('C04.queue-head', 'call_service|encode-sites', len(encs) == 1, 'found %d inline writes' % len(encs))
    empties = []
    for bi, t, ap in calls_on_field(cs, r'VecDeque::<T, A>::is_empty$', 'queue'):
        r = call_bool_branch(cs, bi)
        if r and r[0] != 'discr':
            empties.append((r[0], r[1]))
    nofirst = []
    for bi, t in cs.calls_to(r'^std::cell::Cell::<T>::take$'):
        if (call_recv_path(cs, t, 0) or ('',))[-1] == 'response':
            r = discr_switch_after_call(cs, bi)
            if r:
                nofirst.append((r[0], r[1].get(0, r[2])))
            # the same test through is_some() / is_none() on the taken value (`let running = call.is_some()`)
            for xb, xt in cs.calls_to(r'^std::option::Option::<T>::is_(some|none)$'):
                if xt['args'] and any(l[0] == 'call' and len(l) > 2 and l[2] == bi for l in Origin(cs).of_operand(xt['args'][0])):
                    rr = call_bool_branch(cs, xb)
                    if rr and rr[0] != 'discr':
                        nofirst.append((rr[0], rr[2] if callee_name(xt).endswith('is_some') else rr[1]))
    for bi, t in encs:
        R.ob('C04.queue-head', 'call_service|inline-write|queue-empty', any(edge_dominates(cs, s, t_, bi) for s, t_ in empties), 'the inline fast path writes a response while older responses are still queued', cs.loc(bi))
        R.ob('C04.queue-head', 'call_service|inline-write|no-first-call-running', any(edge_dominates(cs, s, t_, bi) for s, t_ in nofirst), 'the inline fast path writes while the first pending call is still running', cs.loc(bi))
    # Stop arm control answer
    import c07
    poll = F.one(r'^<io::Dispatcher<P, C, U, E> as std::future::Future>::poll$')
    arms = variant_edges(F, poll, c07.ST)
    stop_reg = arm_region(poll, arms.get('Stop', []))
    pe = [(bi, t) for bi, t, via in F.sites_in_family(poll, IO_ENCODE)]
    R.ob('C04.queue-head', 'poll|encode-sites', len(pe) == 1 and all(bi in stop_reg for bi, t in pe), 'the only write in poll() must be the control answer in the Stop arm (found %d)' % len(pe))
    return cs


def slot_per_call(F, R, cs):
    pushes = []
    for bi, t, ap in calls_on_field(cs, r'VecDeque::<T, A>::push_back$', 'queue'):
        og = Origin(cs).of_operand(t['args'][1])
        kind = sorted({l[1].split('::')[-1] for l in og if l[0] == 'agg' and 'ServiceResult' in l[1]})
        if not kind and not any('ServiceResult' in a for a in F.adts):
            # the slot type may be a plain Option: None = still pending, Some(result) = completed
            kind = sorted({{'None': 'Pending', 'Some': 'Ready'}[l[1].split('::')[-1]] for l in og if l[0] == 'agg' and l[1] in ('std::option::Option::None', 'std::option::Option::Some')})
        pushes.append((bi, t, '+'.join(kind)))
    pend = [(bi, t) for bi, t, k in pushes if k == 'Pending']
    R.ob('C04.slot-per-call', 'call_service|Pending-push-sites', len(pend) == 2, 'found %d pushes of a Pending slot' % len(pend))
    lens = {bi: t for bi, t, ap in calls_on_field(cs, r'VecDeque::<T, A>::len$', 'queue')}
    allpush = {bi for bi, t, k in pushes}
    for k, (bi, t) in enumerate(pend):
        # a len() read dominates the push with no push in between
        good = [lb for lb in lens if cs.dominates(lb, bi) and not (allpush & (cs.reachable_after(lb) - cs.reachable_after(bi) - {bi}) & {x for x in allpush if bi in cs.reachable_after(x)})]
        R.ob('C04.slot-per-call', 'call_service|Pending#%d|index=base+len-before-push' % (k + 1), bool(good),
             'a pending handler is given a slot index that was not computed from base + queue.len() before its slot was pushed', cs.loc(bi))
        # exactly one push on the path: no other push reachable from this one
        again = [x for x in allpush if x in cs.reachable_after(bi)]
        R.ob('C04.slot-per-call', 'call_service|Pending#%d|single-slot' % (k + 1), not again, 'more than one slot is pushed for one request', cs.loc(bi))
    # every path that keeps the future (spawn / response.set(Some(fut))) pushes a Pending slot
    keeps = []
    for bi, t in cs.calls_to(r'^ntex_util::spawn$|^ntex_rt::spawn$|::spawn$'):
        keeps.append((bi, 'spawn'))
    for bi, t in cs.calls_to(r'^std::cell::Cell::<T>::set$'):
        if (call_recv_path(cs, t, 0) or ('',))[-1] == 'response':
            og = Origin(cs, transparent=re.compile(TRANSPARENT_CALLS.pattern[:-2] + r'|new)$')).of_operand(t['args'][1])
            if any(l[0] == 'call' and l[1].endswith('call_nowait') for l in og):
                keeps.append((bi, 'response.set(Some(fut))'))
    R.ob('C04.slot-per-call', 'call_service|pending-future-sites', len(keeps) == 2, 'found %d places where a pending handler future is kept' % len(keeps))
    pb = {bi for bi, t in pend}
    for bi, what in keeps:
        before = bool(pb) and cs.must_pass(pb, bi)
        after = bool(pb) and not (set(cs.returns()) & cs.reachable_after(bi, avoid=pb))
        R.ob('C04.slot-per-call', 'call_service|%s|has-Pending-slot' % what, before or after, 'a handler future is left pending without a slot in the response queue: its response can overtake older ones', cs.loc(bi))
    # spawned task reports with the captured index
    sp = F.one(r'^io::DispatcherInner::<P, C, U, E>::call_service::\{closure#0\}$')
    hrc = [(bi, t) for bi, t in sp.calls_to(r'^io::DispatcherState::<P, U>::handle_result$')]
    ok = bool(hrc)
    for bi, t in hrc:
        ap = apath(sp, t['args'][2])
        ok = ok and ap is not None and ap[0] == 'arg1'
    R.ob('C04.slot-per-call', 'spawned-task|handle_result(captured index)', ok, 'the spawned response task does not report with the slot index captured at spawn time')


def control_serial(F, R):
    for ver in ('v3', 'v5'):
        fam = F.find(r'^%s::dispatcher::factory' % ver)
        infl = []
        buf = []
        for b in fam:
            for bi, t in b.calls_to(r'ntex_util::services::inflight::InFlightService::<.*>::new$|InFlightService.*::new$'):
                if 'ntex_util' in callee_name(t):
                    infl.append(const_val(t['args'][0]))
            for bi, t in b.calls_to(r'ntex_util::services::buffer::BufferService::<.*>::new$|BufferService.*::new$'):
                buf.append(const_val(t['args'][0]))
        R.ob('C04.control-serial', '%s|InFlightService::new(1, ..)' % ver, infl == [1], 'control messages must be handled one at a time (found limits %s)' % infl)
        R.ob('C04.control-serial', '%s|BufferService::new(16, ..)' % ver, buf == [16], 'control buffer sizes %s' % buf)


def parked_polled(F, R):
    """Dispatcher::poll drives the parked (dispatcher-driven) handler future on every poll, whatever its
    position in the response queue: a gate on `response_idx == base` loses its wake-up when an older call is
    still running, and nothing polls it again."""
    poll = F.one(r'^<io::Dispatcher<P, C, U, E> as std::future::Future>::poll$')
    takes = [bi for bi, t in poll.calls_to(r'^std::cell::Cell::<T>::take$') if (call_recv_path(poll, t, 0) or ('',))[-1] == 'response']
    if not takes:
        raise AnchorLost('poll: state.response.take()')
    first = min(takes, key=lambda x: len(poll.dom.get(x, ())))
    # conditions between entry and the take: only the control readiness poll (its Pending returns)
    gates = []
    for sb in poll.dom.get(first, ()):
        t = poll.blocks[sb]['term']
        if t['k'] != 'switch' or sb == first:
            continue
        og = Origin(poll).of_operand(t['discr'])
        if any(l[0] == 'call' and re.search(r'Cell::<T>::get$', l[1] or '') for l in og) or any(l[0] == 'binop' and l[1] in ('Eq', 'Ne', 'Lt', 'Le', 'Gt', 'Ge') for l in og):
            # a comparison of dispatcher state decides whether the parked future is polled
            succs = [tb for _, tb in t['targets']] + [t['otherwise']]
            if any(first not in poll.reachable(x) for x in set(succs)) or len({x for x in set(succs) if first in poll.reachable(x, avoid=[first]) or x == first}) < len(set(succs)):
                gates.append(sb)
    R.ob('C04.queue-head', 'poll|parked-response-future-polled-unconditionally', not gates,
         'polling of the parked handler future is gated by a comparison of queue indices: when it is not at the head its wake-up is consumed without polling it and its response is withheld until an unrelated event', poll.loc(gates[0]) if gates else poll.loc(first))


def parked_kept(F, R):
    """Once the parked handler future was taken out of `state.response`, no path leaves the function before it was
    put back (`response.set(..)`), completed (`handle_result`) or found absent: an early return in between drops the
    future - the handler is cancelled, its slot stays Pending at the head and every later response is withheld."""
    n = 0
    for b in F.find(r'^(<)?io::'):
        takes = [bi for bi, t in b.calls_to(r'^std::cell::Cell::<T>::take$') if (call_recv_path(b, t, 0) or ('',))[-1] == 'response']
        if not takes:
            continue
        settle = {bi for bi, t in b.calls_to(r'^std::cell::Cell::<T>::set$') if (call_recv_path(b, t, 0) or ('',))[-1] == 'response'}
        settle |= {bi for bi, t in b.calls_to(r'io::DispatcherState::<P, U>::handle_result$')}
        for tk in takes:
            n += 1
            none_targets = set()
            dl = b.blocks[tk]['term']['dest']['l']
            for sb in sorted(b.live):
                t = b.blocks[sb]['term']
                if t['k'] != 'switch':
                    continue
                og = Origin(b).of_operand(t['discr'])
                if any(l[0] == 'call' and l[2] == tk for l in og) and 'Option' in b.local_ty(dl):
                    tg = dict((v, x) for v, x in t['targets'])
                    none_targets.add(tg.get(0, t['otherwise']))
            avoid = settle | none_targets
            early = [r for r in b.returns() if r in b.reachable_after(tk, avoid=avoid)]
            R.ob('C04.park', '%s|taken-response-future-is-restored-or-completed' % b.path.split('::{')[0], not early and bool(settle),
                 'after `state.response.take()` the function can return (e.g. `ready!(..)`, `?`) before the future is put back or its result handled: the in-progress handler future is dropped, its response and all later ones are never written', b.loc(early[0]) if early else b.loc(tk))
    R.floor('C04.park', 'takes of the parked response future', n, 1)


def no_bypass(F, R):
    """Responses reach the wire only through the return value of the dispatcher calls (which the io layer
    orders): the reviewed direct writes of C03.single-writer are the only ones."""
    import c03, runner
    from disp import all_dispatchers
    rep = runner.Report('C03', 'quick')
    for d in all_dispatchers(F):
        c03.single_writer(F, rep, d)
    bad = [i for i in rep.items if not i['ok']]
    R.ob('C04.queue-head', 'dispatchers|responses-only-through-the-ordered-return-path (C03.single-writer, %d instances)' % len(rep.items), not bad and len(rep.items) >= 4,
         'a dispatcher writes a response directly to the sink, overtaking responses of earlier requests that are still queued: %s' % '; '.join(i['key'] for i in bad)[:300])


def encoder_forwards(F, R):
    """A response handed to the io layer is written or fails the connection, it is never swallowed: the connection's encoder
    (MqttShared as Encoder, the one IoRef::encode of the io dispatcher runs) hands every item to the protocol codec - each
    path to its return passes the codec's encodev, and its own Ok/Err is the codec's. The same for the decoder side: every
    frame the io layer gives to decode() reaches the protocol codec."""
    n = 0
    for ver in ('v3', 'v5'):
        for trait, meth in (('Encoder', 'encodev'), ('Decoder', 'decode')):
            b = F.one(r'^<%s::shared::MqttShared as ntex_codec::%s>::%s$' % (ver, trait, meth))
            inner = {bi for bi, t in b.calls_to(r'^<%s::codec::codec::Codec as ntex_codec::%s>::%s$' % (ver, trait, meth))}
            n += len(inner)
            skipped = [r for r in b.returns() if not b.must_pass(inner, r)]
            R.ob('C04.no-drop', '%s|MqttShared::%s|every-item-reaches-the-codec' % (ver, meth), bool(inner) and not skipped,
                 'the connection-level %s can return without handing the item to the protocol codec: a response (or an inbound frame) is dropped while the connection keeps running, so a request is never answered' % meth,
                 b.loc(skipped[0]) if skipped else b.loc(0))
            # an Ok of its own only where the codec said Ok (`match codec.encodev(..) { Ok(()) => Ok(()), Err(e) => Err(e) }`)
            ok_edges = []
            for sb in sorted(b.live):
                tt = b.blocks[sb]['term']
                pl = op_place(tt['discr']) if tt['k'] == 'switch' else None
                for dd in (b.whole_defs(pl['l']) if pl and not place_proj(pl) else []):
                    if dd[2] == 'assign' and dd[3]['rv']['k'] == 'discr' and any(l[0] == 'call' and l[2] in inner for l in Origin(b, transparent=re.compile(TRANSPARENT_CALLS.pattern[:-2] + r'|branch)$')).of_operand({'cp': {'l': dd[3]['rv']['place']['l']}}) if len(l) > 2):
                        tg = dict((v_, x_) for v_, x_ in tt['targets'])
                        if 0 in tg:
                            ok_edges.append((sb, tg[0]))
            own = [bi for bi, j, s in b.assigns() if s['lhs']['l'] == 0 and not place_proj(s['lhs']) and s['rv']['k'] == 'agg' and s['rv'].get('adt') == 'std::result::Result' and s['rv'].get('variant') == 'Ok'
                   and not any(edge_dominates(b, sb, tb, bi) for sb, tb in ok_edges)]
            R.ob('C04.no-drop', '%s|MqttShared::%s|Ok-only-when-the-codec-said-Ok' % (ver, meth), not own,
                 'the connection-level %s reports success on a path where the protocol codec did not (item skipped, or its error discarded): the response is lost and the connection keeps running' % meth, b.loc(own[0]) if own else b.loc(0))
    R.floor('C04.no-drop', 'codec delegations', n, 4)
    # the protocol codecs themselves: Ok means the item is in the output buffer - every Ok exit of Encoder::encodev has
    # passed a call that received the buffer (a packet that is too large is an error, never a silent discard)
    k = 0
    for ver in ('v3', 'v5'):
        b = F.one(r'^<%s::codec::codec::Codec as ntex_codec::Encoder>::encodev$' % ver)
        wr = {bi for bi, t in b.calls() if any(l[0] == 'arg' and l[1] == 3 for a in t.get('args', []) for l in Origin(b).of_operand(a))}
        oks = [bi for bi, j, s in agg_sites(b, r'^std::result::Result$', 'Ok') if s['lhs']['l'] in b.ret_locals]
        for o in oks:
            k += 1
            R.ob('C04.no-drop', '%s|Codec::encodev|Ok=>item-written' % ver, bool(wr) and b.must_pass(wr, o),
                 'the codec reports success for an item it has not written (e.g. a response over the peer\'s Maximum Packet Size discarded with Ok): the request is never answered and the connection keeps running', b.loc(o))
    R.floor('C04.no-drop', 'Ok exits of the codecs\' encodev', k, 4)


def control_pipeline_polled(F, R):
    """Protocol messages go through a buffered, one-at-a-time control pipeline; a message that arrives while another is being
    handled is parked inside it and is released only from the pipeline's own readiness check. The dispatcher's ready() is what
    keeps polling it: it waits for the control pipeline as well as for the publish service, and reports the error of either."""
    from disp import all_dispatchers
    n = 0
    for d in all_dispatchers(F):
        b = d.ready
        n += 1
        ctl = [bi for bi, t in b.calls() if re.search(r'Pipeline::<S>::ready$|Pipeline<.*>::ready$|::ready$', callee_name(t) or '') and 'control' in (call_recv_path(b, t, 0) or ())]
        R.ob('C04.control-serial', '%s|ready()|polls-the-control-pipeline' % d.name, bool(ctl),
             'Dispatcher::ready no longer waits for the control pipeline: a SUBSCRIBE / PINGREQ / PUBREL that arrives while the previous protocol message is still being handled stays parked in the buffer for ever and is never answered', b.loc(0))
    R.floor('C04.control-serial', 'dispatcher readiness functions', n, 4)


def answered(F, R):
    """Requests that carry an answer (SUBSCRIBE, UNSUBSCRIBE, PUBLISH) end without one - the arm yields `None` for the
    response slot - only when the connection is already closing (the `is_closed()` edge) or the answer was written on the spot
    (the duplicate-id edge of inflight.insert, reviewed in C03.single-writer / C11.reserve). Any other condition that leads to
    the empty answer leaves a request of a healthy connection without its response, and every later response moves up one
    place in the peer's view."""
    from disp import all_dispatchers, agg_sites
    n = 0
    for d in all_dispatchers(F):
        b = d.call
        edges = []
        for bi, t in b.calls_to(r'::is_closed$'):
            r = call_bool_branch(b, bi)
            if r and r[0] != 'discr':
                edges.append((r[0], r[1]))
        for bi, t, ap in d.inflight_calls(b, 'insert'):
            r = call_bool_branch(b, bi)
            if r and r[0] != 'discr':
                edges.append((r[0], r[2]))
        for arm in ('Packet:Subscribe', 'Packet:Unsubscribe', 'Publish', 'Packet:PingRequest'):
            reg = d.arm(arm)
            if not reg:
                continue
            for bi, j, s in agg_sites(b, r'^std::option::Option$', 'None'):
                if bi not in reg or not re.search(r'^std::option::Option<v[35]::codec::Encoded>$', b.local_ty(s['lhs']['l']) or ''):
                    continue
                n += 1
                ok = any(edge_dominates(b, sb, tb, bi) for sb, tb in edges)
                R.ob('C04.answered', '%s|%s|no-answer-only-when-closing-or-answered-directly' % (d.name, arm), ok,
                     'the arm can finish without a response on a path that is neither the connection-closed edge nor the duplicate-id edge: the request of a healthy connection is never answered', b.loc(bi))
    R.floor('C04.answered', 'empty-answer sites in request arms', n, 5)
    # MQTT 3.1.1: the answer kind the control service returns is turned into the response packet by Inner::control - each
    # kind that stands for a request of the peer yields its packet on every path of its arm (no conditional `None`)
    m = 0
    for d in all_dispatchers(F):
        if d.ver != 'v3':
            continue
        b = d.control
        ve = variant_edges(F, b, 'v3::control::ProtocolMessageKind')
        targets = {e[1] for es in ve.values() for e in es}
        for kind in ('Ping', 'Subscribe', 'Unsubscribe', 'PublishRelease', 'PublishAck'):
            es = ve.get(kind) or []
            if not es:
                continue
            reg = set()
            for s_, t_ in es:
                reg |= b.reachable(t_, avoid=targets - {t_})
            # the arm's own code ends where the arms join again: blocks reachable from another arm are not its own
            other = set()
            for k2, es2 in ve.items():
                if k2 != kind:
                    for s2, t2 in es2:
                        if t2 not in {t_ for _, t_ in es}:
                            other |= b.reachable(t2, avoid=targets - {t2})
            own = reg - other
            if any((callee_name(b.blocks[x]['term']) or '').startswith('core::panicking') for x in own if b.blocks[x]['term']['k'] == 'call'):
                continue    # unreachable!() arm of the other role
            nones = [x for x, j, s in agg_sites(b, r'^std::option::Option$', 'None') if x in own and re.search(r'^std::option::Option<v3::codec::Encoded>$', b.local_ty(s['lhs']['l']) or '')]
            m += 1
            R.ob('C04.answered', '%s|control|%s|always-yields-its-packet' % (d.name, kind), not nones,
                 'the control path can turn the %s answer of the control service into no packet at all: the peer\'s request stays unanswered on a healthy connection and later responses take its place' % kind, b.loc(nones[0]) if nones else None)
    R.floor('C04.answered', 'v3 answer kinds mapped to packets', m, 5)


def run(F, R):
    no_bypass(F, R)
    encoder_forwards(F, R)
    answered(F, R)
    parked_polled(F, R)
    parked_kept(F, R)
    cs = queue_head(F, R)
    slot_per_call(F, R, cs)
    control_serial(F, R)
    control_pipeline_polled(F, R)
    R.assume('wrapping index arithmetic (base/response_idx) for every completion permutation is not decided; queue[idx] is assumed in C16')
